#!/bin/bash
# Build the framework offline from files on disk only.
set -e
cd /verif
export CARGO_NET_OFFLINE=true
mkdir -p target evidence
(cd harness && cargo build --release --offline)
(cd /repo && RUSTFLAGS="--cfg resolved_verif" CARGO_TARGET_DIR=/verif/target/repo \
   cargo build --release --offline -p resolved -p ztoz -p htoh -p htoz -p ztoh)
echo "setup ok"
