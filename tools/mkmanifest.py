#!/usr/bin/env python3
"""Regenerates /verif/MANIFEST.json from the table below (run after adding a check)."""
import json, subprocess

CHECKS = {
 "C02": dict(engine="E-ENUM", technique="bounded-exhaustive enumeration of zones x questions on the real Zone::resolve against a flat-list reference lookup",
   text="Every zone of a path-shaped scope (3 apexes x SOA/none x depth<=2 (quick) / <=3 (thorough) x 8 node kinds x 3-5 wildcard sets x siblings) is built through the public insertion API and every question (path prefixes +1/+2 labels incl. `*`, 5-11 query types) is resolved by the real code and compared with an independent flat-list RFC 1034 4.3.2 lookup; complete within the stated scope, nothing sampled.",
   note="Trusted: the flat-list reference (refzone.rs, ~150 lines). Scope bounds: two-letter label alphabet, depth<=3; zones with data beneath a delegation point (D1) and NS in wildcard sets (D4) are outside the claim.", ref="6 C02"),
 "C05": dict(engine="E-SEQ", technique="explicit-state search (stateright BFS/DFS with state de-duplication) over operation histories of the real SharedCache under a virtual clock, every transition judged by a reference map",
   text="All histories of insert / insert_all / get (by type, ANY) / get_without_checking_expiration / prune / clock advance (0.5 s, 1 s, 3 s; thorough also 0.999 s and TTL 2^32-1) over 2-3 names, 2 types, 2 values, TTL {0,1,3}, cache sizes {1,2,64}, to depth 4 (quick) / 6 (thorough), in two clock disciplines (time moves only on advance; every clock read advances 1 ns), each executed on a fresh real cache and compared step by step with a BTreeMap reference: nothing past its TTL, reported TTL <= remaining life, TTL-0 never stored, re-insert restarts the lifetime without duplicating, live records returned exactly once.",
   note="Trusted: the reference model in cachemodel.rs and the virtual clock hook (cache.rs reads time only through Instant::now()). D2: records with < 1 s left may be withheld. Evictions are accepted as they happen (judged by C15).", ref="6 C05"),
 "C15": dict(engine="E-SEQ + E-LOOM", technique="explicit-state search (stateright) over operation histories of the real cache + loom exploration of all lock-acquisition interleavings (preemption-bounded) of thread programs on the real SharedCache",
   text="Sequential: all histories over 3 names x 2 types, re-inserts with new TTLs, lookups hit/miss/ANY, prunes, clock advances at cache sizes {1,2,3} to depth 5 (quick) / 7 (thorough); after every prune: no expired record left, size <= configured, reported (remaining, expired, evicted) true, whole names evicted, only while over size, never a name certainly used later than a survivor; after every operation the structural invariants and count == distinct entries. Concurrent: loom explores every interleaving within preemption bound 2 (quick) / 3 (thorough) of 4-5 three-thread programs (upsert || insert_all || prune, writers of one name || prune with expired pre-state, writer || readers, two pruners || writer) on the real cache through the mutex hook; invariants, count equality and an exact final prune on every schedule.",
   note="Trusted: reference in cachemodel.rs; the mutex wrapper hook (every real lock acquisition passes through a loom semaphore); loom's bounded DPOR. 3 model threads, not 8: each cache operation is a single critical section. A watchdog turns an operation that does not return within 20 s into a violation.", ref="6 C15"),
}

PENDING_REASON = "check not built yet in this round (planned engine in DESIGN.md section 6); no claim is made"

def main():
    props = [json.loads(l) for l in open("/verif/properties.jsonl")]
    hooks_commits = subprocess.run(["git","-C","/repo","log","--format=%H %s"],capture_output=True,text=True).stdout.splitlines()
    hook_shas = [l.split()[0] for l in hooks_commits if "verif hooks" in l]
    checks = []
    na = []
    for p in props:
        pid = p["id"]
        if pid in CHECKS:
            c = CHECKS[pid]
            checks.append({
              "property_id": pid,
              "quick_cmd": f"./check {pid} --tier quick",
              "thorough_cmd": f"./check {pid} --tier thorough",
              "evidence_file": f"/verif/evidence/{pid}.json",
              "replay_cmd_template": f"./check {pid} --replay {{path}}",
              "engine": c["engine"],
              "level_claimed": {"category": c.get("category","model_checking"), "text": c["text"], "design_ref": c["ref"]},
              "level_note": c["note"],
              "technique": c["technique"],
            })
        else:
            na.append({"property_id": pid, "reason": NA.get(pid, PENDING_REASON)})
    m = {
      "version": 1,
      "setup_cmd": "./setup.sh",
      "hooks": {
        "guard": "--cfg resolved_verif (rustc cfg, set via RUSTFLAGS by /verif/harness/.cargo/config.toml and by ./check for the repository binaries)",
        "enable": "RUSTFLAGS='--cfg resolved_verif' cargo build --release --offline (harness: path dependencies on /repo/crates/*; binaries: CARGO_TARGET_DIR=/verif/target/repo)",
        "baseline_off_cmd": "cd /repo && cargo test --workspace --no-fail-fast --offline",
        "source_commits": hook_shas,
        "add_only": True,
      },
      "engines": [
        {"name":"E-ENUM","path":"harness/src","serves_properties":["C02","C03","C04","C11","C12","C13","C14","C16","C17"],"kind_free_text":"bounded-exhaustive enumeration (token BFS / deviation bounding) of inputs and configurations on the real functions against reference models"},
        {"name":"E-SEQ","path":"harness/src","serves_properties":["C05","C15","C12"],"kind_free_text":"explicit-state search (stateright) over operation histories of the real SharedCache under a virtual clock"},
        {"name":"E-NET","path":"harness/src","serves_properties":["C01","C06","C07","C08","C10","C18"],"kind_free_text":"choice-point DFS (deviation-bounded) of dns_resolver::resolve under tokio's paused clock with hooked transport / candidate order"},
        {"name":"E-LOOM","path":"harness/src","serves_properties":["C15"],"kind_free_text":"loom exploration of lock-acquisition interleavings of the real SharedCache"},
        {"name":"E-SRV","path":"harness/src","serves_properties":["C09","C19"],"kind_free_text":"the real resolved binary on loopback, enumerated message alphabets and edit/signal sequences"},
        {"name":"E-GATE","path":"harness/src","serves_properties":["C19"],"kind_free_text":"breakpoint-controlled schedules of the real server (unix-socket gates)"},
      ],
      "checks": checks,
      "not_applicable": na,
      "notes": "All checks: ./check <ID> --tier quick|thorough rebuilds the harness from /repo's working tree with hooks on, exit 0/1/2 = held/violation/machinery. Known findings: /verif/KNOWN_FINDINGS.txt.",
    }
    json.dump(m, open("/verif/MANIFEST.json","w"), indent=1)
    print("claimed:", [c["property_id"] for c in checks], "not claimed:", [n["property_id"] for n in na])

NA = {}
if __name__ == "__main__":
    main()
