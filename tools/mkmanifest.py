#!/usr/bin/env python3
"""Regenerates /verif/MANIFEST.json from the table below (run after adding a check)."""
import json, subprocess

CHECKS = {
 "C02": dict(engine="E-ENUM", technique="bounded-exhaustive enumeration of zones x questions on the real Zone::resolve against a flat-list reference lookup",
   text="Every zone of a path-shaped scope (3 apexes x SOA/none x depth<=2 (quick) / <=3 (thorough) x 8 node kinds x 3-5 wildcard sets x siblings) is built through the public insertion API and every question (path prefixes +1/+2 labels incl. `*`, 5-11 query types) is resolved by the real code and compared with an independent flat-list RFC 1034 4.3.2 lookup; complete within the stated scope, nothing sampled.",
   note="Trusted: the flat-list reference (refzone.rs, ~150 lines). Scope bounds: two-letter label alphabet, depth<=3; zones with data beneath a delegation point (D1) and NS in wildcard sets (D4) are outside the claim.", ref="6 C02"),
 "C05": dict(engine="E-SEQ", technique="explicit-state search (stateright BFS/DFS with state de-duplication) over operation histories of the real SharedCache under a virtual clock, every transition judged by a reference map",
   text="All histories of insert / insert_all / get (by type, ANY) / get_without_checking_expiration / prune / clock advance (0.5 s, 1 s, 3 s; thorough also 0.999 s and TTL 2^32-1) over 2-3 names, 2 types, 2 values, TTL {0,1,3}, cache sizes {1,2,64}, to depth 4 (quick) / 6 (thorough), in two clock disciplines (time moves only on advance; every clock read advances 1 ns), each executed on a fresh real cache and compared step by step with a BTreeMap reference: nothing past its TTL, reported TTL <= remaining life, TTL-0 never stored, re-insert restarts the lifetime without duplicating, live records returned exactly once.",
   note="Trusted: the reference model in cachemodel.rs and the virtual clock hook (cache.rs reads time only through Instant::now()). D2: records with < 1 s left may be withheld. Evictions are accepted as they happen (judged by C15).", ref="6 C05"),
 "C15": dict(engine="E-SEQ + E-LOOM", technique="explicit-state search (stateright) over operation histories of the real cache + loom exploration of all lock-acquisition interleavings (preemption-bounded) of thread programs on the real SharedCache",
   text="Sequential: all histories over 3 names x 2 types, re-inserts with new TTLs, lookups hit/miss/ANY, prunes, clock advances at cache sizes {1,2,3} to depth 5 (quick) / 7 (thorough); after every prune: no expired record left, size <= configured, reported (remaining, expired, evicted) true, whole names evicted, only while over size, never a name certainly used later than a survivor; after every operation the structural invariants and count == distinct entries. Concurrent: loom explores every interleaving within preemption bound 2 (quick) / 3 (thorough) of 4-5 three-thread programs (upsert || insert_all || prune, writers of one name || prune with expired pre-state, writer || readers, two pruners || writer) on the real cache through the mutex hook; invariants, count equality and an exact final prune on every schedule.",
   note="Trusted: reference in cachemodel.rs; the mutex wrapper hook (every real lock acquisition passes through a loom semaphore); loom's bounded DPOR. 3 model threads, not 8: each cache operation is a single critical section. A watchdog turns an operation that does not return within 20 s into a violation.", ref="6 C15"),
 "C01": dict(engine="E-NET", technique="exhaustive enumeration of configurations x cache pre-states x questions x modes, each executed on the real dns_resolver::resolve under the transport/clock hooks (choice-point DFS over candidate orders), judged by a flat-list reference lookup of the most specific local zone",
   text="8 local configurations (authoritative a.ex. with aliases into 4 kinds of target, delegation, wildcard, ENT, apex NS; optional nested zone, optional less specific authoritative zone and non-authoritative overrides/hosts/blocklist/wildcard data that contradict it) x every subset of <= 2 (quick) / 3 (thorough) of 10 conflicting cache entries x 19 names x 6 types (incl. ANY) x local-only / recursive / forwarding, against an upstream world holding yet other data: authoritative answers equal the zone's own lookup and carry its SOA, no upstream contact, overrides exact per (name,type), name errors only from an authoritative zone, nothing foreign about names a zone owns.",
   note="Trusted: refzone.rs lookup, the mock upstream (net.rs), transport/clock hooks. Menus, not arbitrary zones. D3/D6 as in DESIGN.", ref="6 C01"),
 "C06": dict(engine="E-NET + wrapper", technique="exhaustive enumeration of adversarial replies (subsets of a record menu x section placement) through the real validate_nameserver_response and through full resolve() runs with every exchange position substituted (deviation bound 1), all candidate orders; allowed-set oracle",
   text="Every reply of <= 3 (quick) / 4 (thorough) records of an 18-record adversarial menu, each in any section, x 6 question types x 4 delegation depths through the real validator (wrapper hook); every reply of <= 2/3 records substituted at every upstream exchange position of a full resolve (cache and answer inspected afterwards); 13 header defects x 4 poisonous payloads x every position compared with the dropped-exchange run.",
   note="Trusted: the allowed() oracle in c06.rs (sections not distinguished), mock transport, hooks.", ref="6 C06"),
 "C07": dict(engine="E-NET", technique="choice-point DFS (all candidate-nameserver orders) of the real recursive resolver over every generated universe x question history, answers compared with the universe's own truth",
   text="Every generated universe (delegation depth 1..3 quick / 1..5 thorough; per-level nameserver naming style in-zone+glue / in-parent / sibling-zone-without-glue, all assignments up to depth 2/3; 1..3 nameservers; with additional data or in-reply CNAME chasing) x ~30 questions alone and as ordered pairs sharing one cache with the clock advanced by 0 or past the short TTL x every candidate order: the answer is exactly the alias chain + record set (or the denying zone's SOA) the authoritative servers hold; per question the zones asked get strictly deeper; only known servers are contacted.",
   note="Trusted: mock servers + truth() in net.rs (reference lookup shared with C02), universe generator. Consistent universes, one address per family per host.", ref="6 C07"),
 "C08": dict(engine="E-NET", category="fault_enumeration", technique="deviation-bounded choice-point DFS: every assignment of <= k faults from a 26-fault alphabet to the exchange positions of a resolution on tokio's paused clock, all candidate orders, child processes with 2 MiB stacks",
   text="Per scenario (glueless / glued / dual-stack universes x recursive with 4 protocol modes and forwarding x questions; plus 3..9 glueless nameservers behind a silent server for the 60 s cap): every placement of <= 1 (quick) / 2-3 (thorough) faults (silence, delays 4.9..70 s, garbage, truncation, wrong ID, QR=0, TC, error rcodes, altered question, empty reply, same-depth / upward / unresolvable referrals, alias self-loop and 2-cycle, foreign-SOA NXDOMAIN, I/O error): the resolution returns, within 60 s of virtual time, each exchange within 5 s, no panic or process death, and every returned record was supplied by some reply or the hints.",
   note="Trusted: tokio paused clock semantics, transport hook (timeouts and TCP fallback are the unmodified code above it), mock servers. A child process that dies or stalls is re-run in trace mode and reported as a violation.", ref="6 C08"),
 "C10": dict(engine="E-NET", technique="exhaustive enumeration of alias graphs x source assignments x modes on the real resolver (child processes with 2 MiB stacks)",
   text="Every straight alias chain of 0..4 (quick) / 0..6 (thorough) links with every assignment of nodes to {authoritative zone, non-authoritative zone, cache, upstream} x final target {has type, other type, missing} x upstream replies {one link, chained}; chains of 7..40 links; all cycle shapes <= 4 nodes in every source assignment; a cached alias contradicting the real one; x A/TXT/CNAME/ANY x local/recursive/forwarding: chain order, no alias twice, only asked-type records of the final target, sound records, whole reachable chain, termination within budget, no stack overflow.",
   note="Trusted: graph model in c10.rs; D5/D7; completeness only for what the mode can reach.", ref="6 C10"),
 "C18": dict(engine="E-NET", technique="exhaustive enumeration of address-family assignments x naming styles x histories x protocol modes x ports on the real resolver; oracle on the recorded exchange log",
   text="Every universe of depth 1..2 whose root/level/sibling servers are v4-only / v6-only / dual (all assignments) x naming style per level x additional on/off x 5 histories (incl. warm cache, expiry) x 4 protocol modes x 4 ports x forwarding x candidate orders: destination families, no non-preferred address while a preferred one is held (cache content recorded at exchange time), preferred family asked first, configured port, forwarder only.",
   note="Trusted: mock transport log, cache snapshot hook. One address per family per host.", ref="6 C18"),
}

PENDING_REASON = "check not built yet in this round (planned engine in DESIGN.md section 6); no claim is made"

def main():
    props = [json.loads(l) for l in open("/verif/properties.jsonl")]
    hooks_commits = subprocess.run(["git","-C","/repo","log","--format=%H %s"],capture_output=True,text=True).stdout.splitlines()
    hook_shas = [l.split()[0] for l in hooks_commits if "verif hooks" in l]
    checks = []
    na = []
    for p in props:
        pid = p["id"]
        if pid in CHECKS:
            c = CHECKS[pid]
            checks.append({
              "property_id": pid,
              "quick_cmd": f"./check {pid} --tier quick",
              "thorough_cmd": f"./check {pid} --tier thorough",
              "evidence_file": f"/verif/evidence/{pid}.json",
              "replay_cmd_template": f"./check {pid} --replay {{path}}",
              "engine": c["engine"],
              "level_claimed": {"category": c.get("category","model_checking"), "text": c["text"], "design_ref": c["ref"]},
              "level_note": c["note"],
              "technique": c["technique"],
            })
        else:
            na.append({"property_id": pid, "reason": NA.get(pid, PENDING_REASON)})
    m = {
      "version": 1,
      "setup_cmd": "./setup.sh",
      "hooks": {
        "guard": "--cfg resolved_verif (rustc cfg, set via RUSTFLAGS by /verif/harness/.cargo/config.toml and by ./check for the repository binaries)",
        "enable": "RUSTFLAGS='--cfg resolved_verif' cargo build --release --offline (harness: path dependencies on /repo/crates/*; binaries: CARGO_TARGET_DIR=/verif/target/repo)",
        "baseline_off_cmd": "cd /repo && cargo test --workspace --no-fail-fast --offline",
        "source_commits": hook_shas,
        "add_only": True,
      },
      "engines": [
        {"name":"E-ENUM","path":"harness/src","serves_properties":["C02","C03","C04","C11","C12","C13","C14","C16","C17"],"kind_free_text":"bounded-exhaustive enumeration (token BFS / deviation bounding) of inputs and configurations on the real functions against reference models"},
        {"name":"E-SEQ","path":"harness/src","serves_properties":["C05","C15","C12"],"kind_free_text":"explicit-state search (stateright) over operation histories of the real SharedCache under a virtual clock"},
        {"name":"E-NET","path":"harness/src","serves_properties":["C01","C06","C07","C08","C10","C18"],"kind_free_text":"choice-point DFS (deviation-bounded) of dns_resolver::resolve under tokio's paused clock with hooked transport / candidate order"},
        {"name":"E-LOOM","path":"harness/src","serves_properties":["C15"],"kind_free_text":"loom exploration of lock-acquisition interleavings of the real SharedCache"},
        {"name":"E-SRV","path":"harness/src","serves_properties":["C09","C19"],"kind_free_text":"the real resolved binary on loopback, enumerated message alphabets and edit/signal sequences"},
        {"name":"E-GATE","path":"harness/src","serves_properties":["C19"],"kind_free_text":"breakpoint-controlled schedules of the real server (unix-socket gates)"},
      ],
      "checks": checks,
      "not_applicable": na,
      "notes": "All checks: ./check <ID> --tier quick|thorough rebuilds the harness from /repo's working tree with hooks on, exit 0/1/2 = held/violation/machinery. Known findings: /verif/KNOWN_FINDINGS.txt.",
    }
    json.dump(m, open("/verif/MANIFEST.json","w"), indent=1)
    print("claimed:", [c["property_id"] for c in checks], "not claimed:", [n["property_id"] for n in na])

NA = {}
if __name__ == "__main__":
    main()
