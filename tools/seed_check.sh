#!/bin/bash
# tools/seed_check.sh <patch.diff> <tier> <ID>... : apply a seeded change to /repo, run checks, undo.
set -u
PATCH="$1"; TIER="$2"; shift 2
cd /repo || exit 2
if [ -n "$(git status --porcelain --untracked-files=no)" ]; then echo "/repo has uncommitted changes"; exit 2; fi
git apply "$PATCH" || { echo "patch does not apply"; exit 2; }
trap 'git -C /repo checkout -- . ' EXIT
for id in "$@"; do
  out=$(cd /verif && VERIF_OUT=/scratch/seed-out ./check "$id" --tier "$TIER" 2>&1); rc=$?
  echo "$out" | grep -E "VIOLATION|KNOWN-FINDING|^C[0-9]+ (quick|thorough)|machinery|further violations" | cut -c1-500 | head -6
  echo "[$id exit=$rc]"
done
