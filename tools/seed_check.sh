#!/bin/bash
# tools/seed_check.sh <patch.diff> <tier> <ID>... : apply a seeded change to /repo, run checks, undo.
set -u
PATCH="$1"; TIER="$2"; shift 2
cd /repo || exit 2
if [ -n "$(git status --porcelain --untracked-files=no)" ]; then echo "/repo has uncommitted changes"; exit 2; fi
git apply "$PATCH" || { echo "patch does not apply"; exit 2; }
restore() {
  git -C /repo checkout -- .
  # the hooks-on binaries under /verif/target/repo were rebuilt from the changed tree: rebuild them
  (cd /repo && RUSTFLAGS="--cfg resolved_verif" CARGO_TARGET_DIR=/verif/target/repo cargo build --release --offline -p resolved -p ztoz -p htoh -p htoz -p ztoh >/dev/null 2>&1)
  (cd /verif/harness && cargo build --release --offline >/dev/null 2>&1)
}
trap restore EXIT
for id in "$@"; do
  out=$(cd /verif && VERIF_OUT=/scratch/seed-out timeout 900 ./check "$id" --tier "$TIER" 2>&1); rc=$?
  echo "$out" | grep -E "VIOLATION|KNOWN-FINDING|^C[0-9]+ (quick|thorough)|machinery|further violations" | cut -c1-500 | head -6
  echo "[$id exit=$rc]"
done
