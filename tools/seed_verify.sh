#!/bin/bash
# tools/seed_verify.sh <ID> <demo file (relative to DELIVER)> <crate> <test name> [rustflags]
# Confirms in the scratch worktree /tmp/wt-<ID>: patch applies; existing suite passes with it;
# the demonstration fails with it and passes without it.
set -u
ID="$1"; DEMO="$2"; CRATE="$3"; TEST="$4"; FLAGS="${5:-}"
WT=${SEED_WT:-/tmp/wt-$ID}
cd "$WT" || exit 2
export CARGO_NET_OFFLINE=true RUST_BACKTRACE=0
git checkout -q -- . ; rm -rf crates/$CRATE/tests/$TEST.rs
git apply DELIVER/patch.diff || { echo "RESULT $ID patch-does-not-apply"; exit 1; }
suite=$(cargo test --workspace --no-fail-fast --offline 2>&1 | grep -E "^test result" | awk '{p+=$4; f+=$6} END {print p" passed "f" failed"}')
mkdir -p crates/$CRATE/tests; cp "DELIVER/$DEMO" crates/$CRATE/tests/$TEST.rs
RUSTFLAGS="$FLAGS" cargo test ${SEED_CARGO_FLAGS:-} -p $CRATE --offline --test $TEST > /tmp/seed-$ID-with.txt 2>&1; with=$?
git apply -R DELIVER/patch.diff
RUSTFLAGS="$FLAGS" cargo test ${SEED_CARGO_FLAGS:-} -p $CRATE --offline --test $TEST > /tmp/seed-$ID-without.txt 2>&1; without=$?
rm -f crates/$CRATE/tests/$TEST.rs; rmdir crates/$CRATE/tests 2>/dev/null; git checkout -q -- .
echo "RESULT $ID suite_with_patch=[$suite] demo_with_patch_exit=$with demo_without_patch_exit=$without"
