#!/usr/bin/env python3
"""mkpatch.py <out.patch> <repo-relative-file> <old> <new> [<old> <new> ...]: make a unified diff against /repo."""
import sys, difflib
out, rel = sys.argv[1], sys.argv[2]
src = open('/repo/'+rel).read()
new = src
pairs = sys.argv[3:]
for i in range(0, len(pairs), 2):
    o, n = pairs[i], pairs[i+1]
    o = o.encode().decode('unicode_escape'); n = n.encode().decode('unicode_escape')
    if new.count(o) != 1:
        sys.exit(f"pattern occurs {new.count(o)} times: {o!r}")
    new = new.replace(o, n)
d = difflib.unified_diff(src.splitlines(True), new.splitlines(True), 'a/'+rel, 'b/'+rel)
open(out,'a').write(''.join(d))
