#!/bin/bash
# Mutation rig: run checks against a *scratch copy* of /repo with a patch applied,
# without touching /repo or /verif/evidence.
#   tools/mutrig.sh <rig-name> <patch-file|-> <tier> <ID>...
# The rig lives in /scratch/rig-<rig-name> (kept between calls for incremental builds;
# remove it with: tools/mutrig.sh <rig-name> clean).
set -u
NAME="$1"; PATCH="$2"; shift 2
RIG=/scratch/rig-$NAME
if [ "$PATCH" = "clean" ]; then rm -rf "$RIG"; exit 0; fi
TIER="$1"; shift
mkdir -p "$RIG/out"
rsync -rlpgoD --checksum --delete --exclude target --exclude .git /repo/ "$RIG/repo/"
rsync -rlpgoD --checksum --delete --exclude target /verif/harness/ "$RIG/harness/"
sed -i "s#/repo/crates#$RIG/repo/crates#g" "$RIG/harness/Cargo.toml"
sed -i "s#/verif/target/harness#$RIG/target#" "$RIG/harness/.cargo/config.toml"
if [ "$PATCH" != "-" ]; then
  (cd "$RIG/repo" && patch -p1 --no-backup-if-mismatch < "$PATCH") || { echo "patch failed"; exit 2; }
fi
(cd "$RIG/harness" && cargo build --release --offline 2>&1 | grep -E "^error" -A10) 
NEEDBIN=0
for id in "$@"; do case "$id" in C09|C19|C13|C14) NEEDBIN=1;; esac; done
if [ $NEEDBIN = 1 ]; then
  (cd "$RIG/repo" && RUSTFLAGS="--cfg resolved_verif" CARGO_TARGET_DIR=$RIG/repo-target cargo build --release --offline -p resolved -p ztoz -p htoh -p htoz -p ztoh 2>&1 | grep -E "^error" -A10)
fi
rc=0
for id in "$@"; do
  VERIF_OUT="$RIG/out" VERIF_BIN_DIR="$RIG/repo-target/release" "$RIG/target/release/vcheck" "$id" --tier "$TIER" 2>&1 | grep -E "VIOLATION|KNOWN-FINDING|^C[0-9]+ (quick|thorough)|error" | cut -c1-400
  r=${PIPESTATUS[0]}; echo "[$id exit=$r]"; [ $r != 0 ] && rc=1
done
exit $rc
