//! C18 — the resolver honours the configured address family and upstream
//! port.  E-NET: universes whose nameserver hosts are v4-only / v6-only / dual
//! (every assignment), addresses learnt from hints, glue, cache or nested
//! lookup, four protocol modes, several ports, all candidate orders; the
//! oracle reads the exchange log.

use crate::c07::{base_spec, params_from_json, step_from_json, step_to_json};
use crate::common::*;
use crate::net::*;
use crate::procpar::{self, JsonAcc};
use crate::ugen::*;
use crate::util::*;
use dns_resolver::util::types::ProtocolMode;
use dns_resolver::verif::transport::Proto;
use dns_types::protocol::types::*;
use serde_json::{json, Value};
use std::collections::{BTreeMap, BTreeSet};
use std::net::{IpAddr, Ipv4Addr, SocketAddr};
use std::sync::Arc;

const MODES: [ProtocolMode; 4] = [
    ProtocolMode::OnlyV4,
    ProtocolMode::PreferV4,
    ProtocolMode::PreferV6,
    ProtocolMode::OnlyV6,
];
const FAMS: [Family; 3] = [Family::V4, Family::V6, Family::Dual];
const STYLES: [NsStyle; 3] = [NsStyle::InZoneGlue, NsStyle::InParent, NsStyle::Sibling];

fn universes(tier: Tier) -> Vec<GenParams> {
    let mut out = Vec::new();
    // depth 1: 3 families^3 (root, level 1, sibling) x 3 styles x additional
    // depth 2: 3^4 x 9 styles
    for depth in 1..=2usize {
        let nf = depth + 2;
        for fcode in 0..3usize.pow(nf as u32) {
            let mut fams = Vec::new();
            let mut c = fcode;
            for _ in 0..nf {
                fams.push(FAMS[c % 3]);
                c /= 3;
            }
            for scode in 0..3usize.pow(depth as u32) {
                let mut styles = Vec::new();
                let mut c = scode;
                for _ in 0..depth {
                    styles.push(STYLES[c % 3]);
                    c /= 3;
                }
                if tier == Tier::Quick && depth == 2 && (fcode + scode) % 3 != 0 {
                    continue;
                }
                for additional in [true, false] {
                    if tier == Tier::Quick && !additional && (fcode % 2 == 1) {
                        continue;
                    }
                    let mut p = GenParams::simple(depth, NsStyle::InZoneGlue, 1);
                    p.styles = styles.clone();
                    p.families = fams.clone();
                    p.send_additional = additional;
                    out.push(p);
                }
            }
        }
    }
    // unusual address forms: IPv4-mapped IPv6 addresses of nameserver hosts
    for depth in 1..=2usize {
        for who in 0..depth + 2 {
            for f in [Family::V6Mapped, Family::DualMapped] {
                for style in STYLES {
                    let mut p = GenParams::simple(depth, style, 1);
                    p.families = vec![Family::Dual; depth + 2];
                    p.families[who] = f;
                    out.push(p.clone());
                    p.families = vec![Family::V6; depth + 2];
                    p.families[who] = f;
                    out.push(p);
                }
            }
        }
    }
    // a zone served by the sibling zone's own nameserver: its address is learnt
    // from a referral whose glue is for the very name asked; both glue orders
    for depth in 1..=2usize {
        for level in 0..depth {
            for sib in [Family::Dual, Family::V4, Family::V6] {
                for (additional, v6first) in [(true, false), (true, true), (false, false), (false, true)] {
                    for other in STYLES {
                        let mut p = GenParams::simple(depth, other, 1);
                        p.styles[level] = NsStyle::SiblingApexNs;
                        p.families = vec![Family::Dual; depth + 2];
                        *p.families.last_mut().unwrap() = sib;
                        p.send_additional = additional;
                        p.v6_glue_first = v6first;
                        out.push(p);
                    }
                }
            }
        }
    }
    // a parent whose referrals carry glue of one family only for a dual-stack nameserver
    // (the other family is learnt from the nameserver's own zone by an earlier question)
    for depth in 1..=2usize {
        for glue in [4u8, 6] {
            for style in [NsStyle::SiblingApexNs, NsStyle::InZoneGlue, NsStyle::InParent] {
                for additional in [true, false] {
                    let mut p = GenParams::simple(depth, style, 1);
                    p.families = vec![Family::Dual; depth + 2];
                    p.send_additional = additional;
                    p.glue_family = glue;
                    out.push(p);
                }
            }
        }
    }
    if tier == Tier::Thorough {
        // two nameservers per zone with different families are covered by Dual
        // hosts; add a few two-nameserver universes for the order dimension
        for fcode in 0..27 {
            let mut p = GenParams::simple(1, NsStyle::InParent, 2);
            p.families = vec![FAMS[fcode % 3], FAMS[(fcode / 3) % 3], FAMS[(fcode / 9) % 3]];
            out.push(p);
        }
    }
    out
}

fn is_pref(mode: ProtocolMode, a: &IpAddr) -> bool {
    match mode {
        ProtocolMode::OnlyV4 | ProtocolMode::PreferV4 => a.is_ipv4(),
        ProtocolMode::OnlyV6 | ProtocolMode::PreferV6 => a.is_ipv6(),
    }
}

/// host names of the universe by address
fn hosts_by_addr(u: &Universe) -> BTreeMap<IpAddr, BTreeSet<DomainName>> {
    let mut m: BTreeMap<IpAddr, BTreeSet<DomainName>> = BTreeMap::new();
    for z in &u.zones {
        for r in &z.recs {
            match &r.data {
                RecordTypeWithData::A { address } => {
                    m.entry(IpAddr::V4(*address)).or_default().insert(r.owner.clone());
                }
                RecordTypeWithData::AAAA { address } => {
                    m.entry(IpAddr::V6(*address)).or_default().insert(r.owner.clone());
                }
                _ => {}
            }
        }
    }
    m
}

fn judge(
    u: &Universe,
    mode: ProtocolMode,
    port: u16,
    forwarder: Option<SocketAddr>,
    user_questions: &[Question],
    res: &RunResult,
    settled: bool,
) -> Vec<(&'static str, String)> {
    // `settled` (runs with a faulty exchange, which the property's quantifier does
    // not range over): a preferred address only counts as held if it was already
    // held when the *previous* exchange started, i.e. before the resolver began
    // the step that ended in this contact.  (With a faulty reply to the
    // preferred-family lookup, the fallback lookup's referral can deliver glue
    // of the preferred family into the cache as a side effect, just before the
    // contact; whether that counts as "holding" is left open.)
    let mut out = Vec::new();
    let by_addr = hosts_by_addr(u);
    // addresses held locally (hints zone)
    let mut local: Vec<(DomainName, IpAddr)> = Vec::new();
    for (n, addrs) in &u.hints {
        for a in addrs {
            local.push((n.clone(), *a));
        }
    }
    let ns_hosts: BTreeSet<DomainName> = u
        .zones
        .iter()
        .flat_map(|z| z.recs.iter())
        .filter_map(|r| match &r.data {
            RecordTypeWithData::NS { nsdname } => Some(nsdname.clone()),
            _ => None,
        })
        .collect();
    let mut first_lookup: BTreeMap<(usize, DomainName), RecordType> = BTreeMap::new();
    for e in &res.log {
        if let Some(f) = forwarder {
            if e.addr != f {
                out.push(("not-the-forwarder", format!("exchange #{} went to {} instead of the forwarder {}", e.index, e.addr, f)));
            }
            continue;
        }
        if e.addr.port() != port {
            out.push(("wrong-port", format!("exchange #{} went to port {} instead of {}", e.index, e.addr.port(), port)));
        }
        let ip = e.addr.ip();
        match mode {
            ProtocolMode::OnlyV4 if !ip.is_ipv4() => out.push(("family", format!("only-v4: exchange #{} went to {}", e.index, e.addr))),
            ProtocolMode::OnlyV6 if !ip.is_ipv6() => out.push(("family", format!("only-v6: exchange #{} went to {}", e.index, e.addr))),
            ProtocolMode::PreferV4 | ProtocolMode::PreferV6 if !is_pref(mode, &ip) => {
                // no preferred-family address of this host may be held
                if let Some(hosts) = by_addr.get(&ip) {
                    for h in hosts {
                        let before: Vec<(DomainName, IpAddr)> = if settled {
                            match e.index.checked_sub(1).and_then(|i| res.log.get(i)) {
                                Some(prev) if prev.step == e.step => prev.held_addrs.clone(),
                                _ => Vec::new(),
                            }
                        } else {
                            e.held_addrs.clone()
                        };
                        let held_pref = local.iter().any(|(n, a)| n == h && is_pref(mode, a))
                            || e.held_addrs.iter().any(|x| x.0 == *h && is_pref(mode, &x.1) && before.contains(x));
                        if held_pref {
                            out.push((
                                "preferred-address-ignored",
                                format!(
                                    "{mode}: exchange #{} went to {} although an address of the preferred family was held for {}",
                                    e.index,
                                    e.addr,
                                    show_name(h)
                                ),
                            ));
                        }
                    }
                }
            }
            _ => {}
        }
        // order of address lookups for nameserver hosts
        if e.proto == Proto::Udp {
            if let Some(q) = &e.question {
                let is_user = user_questions.get(e.step).map(|uq| uq == q).unwrap_or(false);
                if !is_user && ns_hosts.contains(&q.name) {
                    if let QueryType::Record(t @ (RecordType::A | RecordType::AAAA)) = q.qtype {
                        first_lookup.entry((e.step, q.name.clone())).or_insert(t);
                    }
                }
            }
        }
    }
    if forwarder.is_none() {
        for ((step, host), t) in &first_lookup {
            let want = match mode {
                ProtocolMode::OnlyV4 | ProtocolMode::PreferV4 => RecordType::A,
                _ => RecordType::AAAA,
            };
            if *t != want {
                out.push((
                    "lookup-order",
                    format!("{mode}: the first address question for nameserver {} (step {step}) asked for {t}", show_name(host)),
                ));
            }
        }
    }
    for a in &res.asks {
        if let Outcome::Panic(m) = &a.outcome {
            out.push(("panic", format!("panicked: {m}")));
        }
    }
    out
}

fn fault_menu() -> Vec<Fault> {
    vec![Fault::Honest, Fault::Silent, Fault::Empty, Fault::Rcode(2)]
}

fn replay_json(p: &GenParams, mode: ProtocolMode, port: u16, fwd: bool, steps: &[Step], with_faults: bool, choices: &[usize]) -> Value {
    json!({
        "kind": "family",
        "with_faults": with_faults,
        "universe": {
            "depth": p.depth,
            "styles": p.styles.iter().map(|s| format!("{s:?}")).collect::<Vec<_>>(),
            "ns_count": p.ns_count,
            "send_additional": p.send_additional,
            "chase_in_reply": p.chase_in_reply,
            "v6_glue_first": p.v6_glue_first,
            "glue_family": p.glue_family,
            "families": p.families.iter().map(|f| format!("{f:?}")).collect::<Vec<_>>(),
        },
        "mode": format!("{mode}"),
        "port": port,
        "forwarding": fwd,
        "steps": steps.iter().map(step_to_json).collect::<Vec<_>>(),
        "choices": choices,
    })
}

fn fwd_for(p: &GenParams, port: u16) -> SocketAddr {
    let _ = p;
    SocketAddr::new(IpAddr::V4(Ipv4Addr::new(10, 9, 9, 9)), port)
}

fn make_spec(u: &Arc<Universe>, p: &GenParams, mode: ProtocolMode, port: u16, fwd: bool, steps: &[Step]) -> RunSpec {
    let mut spec = base_spec(u.clone(), steps.to_vec());
    spec.protocol_mode = mode;
    spec.port = port;
    spec.record_held = true;
    if fwd {
        spec.mode = Mode::Forwarding(fwd_for(p, port));
    }
    spec
}

fn run_item(tier: Tier, params: &[GenParams], i: usize, acc: &mut JsonAcc) {
    let p = &params[i];
    let u = Arc::new(build(p));
    let leaf = level_apex(p.depth);
    let q_www = question(&prepend(b"www", &leaf), qt(RecordType::A));
    let q_ext = question(&prepend(b"ext", &leaf), qt(RecordType::A));
    let q_missing = question(&prepend(b"missing", &leaf), qt(RecordType::TXT));
    let q_nsv6 = question(&ns_hosts(p, p.depth)[0], qt(RecordType::AAAA));
    let q_nsv4 = question(&ns_hosts(p, p.depth)[0], qt(RecordType::A));
    let histories: Vec<Vec<Step>> = vec![
        vec![Step::Ask(q_www.clone())],
        vec![Step::Ask(q_ext.clone())],
        vec![Step::Ask(q_missing.clone()), Step::Ask(q_www.clone())],
        vec![Step::Ask(q_nsv6.clone()), Step::Ask(q_www.clone())],
        vec![Step::Ask(q_www.clone()), Step::Advance(std::time::Duration::from_secs(301)), Step::Ask(q_ext.clone())],
        vec![Step::Ask(q_nsv4.clone()), Step::Ask(q_www.clone())],
        vec![Step::Ask(q_nsv6.clone()), Step::Ask(q_ext.clone())],
    ];
    for (hi, steps) in histories.iter().enumerate() {
        let user_qs: Vec<Question> = steps
            .iter()
            .filter_map(|s| match s {
                Step::Ask(q) => Some(q.clone()),
                _ => None,
            })
            .collect();
        for mode in MODES {
            let ports: Vec<u16> = if hi == 0 { vec![53, 5353, 1, 65535] } else { vec![53] };
            for port in ports {
                for fwd in [false, true] {
                    if fwd && (hi > 1 || mode != ProtocolMode::OnlyV4 && tier == Tier::Quick) {
                        continue;
                    }
                    let spec = make_spec(&u, p, mode, port, fwd, steps);
                    let mut stats = ExploreStats::default();
                    if acc.trace {
                        let (p2, s2) = (p.clone(), steps.clone());
                        stats.pre = Some(Box::new(move |prefix: &[usize]| {
                            println!("EXEC {}", replay_json(&p2, mode, port, fwd, &s2, false, prefix));
                            use std::io::Write;
                            let _ = std::io::stdout().flush();
                        }));
                    }
                    let in_fault_run = std::cell::Cell::new(false);
                    let trace = acc.trace;
                    let mut visit = |res: &RunResult, choices: &[usize]| {
                        let forwarder = if fwd { Some(fwd_for(p, port)) } else { None };
                        let faulty = res.log.iter().any(|e| e.fault != Fault::Honest);
                        let findings = judge(&u, mode, port, forwarder, &user_qs, res, faulty);
                        let v4 = res.log.iter().filter(|e| e.addr.is_ipv4()).count();
                        let v6 = res.log.len() - v4;
                        let answered = res.asks.iter().filter(|a| matches!(a.outcome, Outcome::Ok(_))).count();
                        acc.hist(
                            &format!(
                                "{mode}{}: {} of {} questions answered, exchanges v4={} v6={}",
                                if fwd { " (forwarding)" } else { "" },
                                answered,
                                res.asks.len(),
                                if v4 > 0 { ">0" } else { "0" },
                                if v6 > 0 { ">0" } else { "0" }
                            ),
                            1,
                        );
                        if p.families.iter().any(|f| f.has_v6()) && !res.log.is_empty() {
                            acc.count("nontrivial", 1);
                        }
                        acc.states.insert(fnv64(
                            format!("{}|{}|{}|{:?}", p.describe(), mode, port, res.log.iter().map(|e| (e.addr, e.question.as_ref().map(|q| (q.name.clone(), u16::from(q.qtype))))).collect::<Vec<_>>()).as_bytes(),
                        ));
                        for (clause, msg) in findings {
                            acc.violate(
                                clause,
                                format!("universe [{}] mode {mode} port {port} fwd={fwd}: {msg} :: log {}", p.describe(), show_log(&res.log)),
                                replay_json(p, mode, port, fwd, steps, in_fault_run.get(), choices),
                                None,
                            );
                        }
                        if v4 > 0 && v6 > 0 {
                            acc.sample(json!({
                                "universe": p.describe(),
                                "mode": format!("{mode}"),
                                "exchanges": show_log(&res.log),
                            }));
                        }
                    };
                    explore(&spec, 0, 2048, &mut stats, &mut visit);
                    // one faulty exchange (no answer / empty NOERROR / SERVFAIL) anywhere in the
                    // resolution, where nameserver addresses have to be looked up: what a failed
                    // lookup leaves behind must not change which family is contacted afterwards
                    let glueless = p.styles.iter().any(|s| matches!(s, NsStyle::Sibling | NsStyle::SiblingApexNs));
                    if !fwd && hi <= 1 && port == 53 && glueless && p.glue_family == 0 {
                        let mut fspec = spec.clone();
                        fspec.faults = fault_menu();
                        fspec.fault_window = 12;
                        in_fault_run.set(true);
                        let mut fstats = ExploreStats::default();
                        if trace {
                            let (p2, s2) = (p.clone(), steps.clone());
                            fstats.pre = Some(Box::new(move |prefix: &[usize]| {
                                println!("EXEC {}", replay_json(&p2, mode, port, fwd, &s2, true, prefix));
                                use std::io::Write;
                                let _ = std::io::stdout().flush();
                            }));
                        }
                        explore(&fspec, 1, 4096, &mut fstats, &mut visit);
                        acc.count("executions", fstats.executions);
                        acc.count("executions_with_one_faulty_exchange", fstats.faulted_executions);
                        acc.count("exchanges", fstats.exchanges + fstats.choice_points);
                        if fstats.capped {
                            acc.capped = true;
                        }
                    }
                    acc.count("executions", stats.executions);
                    acc.count("exchanges", stats.exchanges + stats.choice_points);
                    if stats.capped {
                        acc.capped = true;
                    }
                }
            }
        }
    }
}

pub fn run(ctx: &Ctx) -> i32 {
    let params = universes(ctx.tier);
    let (acc, crashes) = procpar::parent(ctx, params.len(), ctx.tier.pick(90.0, 1800.0), &[]);
    let mut report = Report::new();
    let c = |k: &str| acc.counters.get(k).copied().unwrap_or(0);
    report.evaluations = c("executions");
    report.transitions = c("exchanges");
    report.traces_validated = report.evaluations;
    report.distinct_nontrivial = c("nontrivial");
    procpar::into_report(acc, crashes, &mut report);
    report.rule = "every universe of depth 1..2 in which the root, every level and the sibling zone are served by v4-only / v6-only / dual hosts (every assignment) x nameserver naming style per level (addresses from hints, glue, the parent zone, a nested lookup) x additional data on/off x 5 question histories (incl. cache left by an earlier question and a re-resolution after expiry) x 4 protocol modes x ports {53,5353,1,65535} x forwarding on/off x every candidate order; non-trivial = executions with at least one exchange in a universe that has a non-v4-only host (measured); states = distinct (universe, mode, port, exchange sequence)".into();
    report.bounds = json!({"universes": params.len(), "deviation_bound": 0, "extension_beyond_the_quantifier": "glue-less universes, first two histories: every single faulty exchange from {no answer, empty NOERROR, SERVFAIL} (deviation bound 1), judged with the `settled` reading of `holds`"});
    report.assumptions = vec![
        "`holds an address` = an unexpired A/AAAA record for the host name in the cache at the moment the exchange starts (recorded from inside the transport hook) or in the root hints zone".into(),
        "one address per family per host".into(),
        "the order-of-lookup clause is judged on nested address questions for nameserver hosts (not on the user's own question)".into(),
    ];
    finish(ctx, report)
}

fn replay_inner(ctx: &Ctx, v: &Value) -> i32 {
    let p = params_from_json(&v["universe"]);
    let u = Arc::new(build(&p));
    let mode: ProtocolMode = v["mode"].as_str().unwrap_or("only-v4").parse().unwrap_or(ProtocolMode::OnlyV4);
    let port = v["port"].as_u64().unwrap_or(53) as u16;
    let fwd = v["forwarding"].as_bool().unwrap_or(false);
    let steps: Vec<Step> = v["steps"].as_array().cloned().unwrap_or_default().iter().filter_map(step_from_json).collect();
    let choices: Vec<usize> = v["choices"].as_array().cloned().unwrap_or_default().iter().filter_map(|c| c.as_u64().map(|c| c as usize)).collect();
    let mut spec = make_spec(&u, &p, mode, port, fwd, &steps);
    if v["with_faults"].as_bool().unwrap_or(false) {
        spec.faults = fault_menu();
        spec.fault_window = 12;
    }
    let res = run_once(&spec, &choices);
    let user_qs: Vec<Question> = steps.iter().filter_map(|s| match s { Step::Ask(q) => Some(q.clone()), _ => None }).collect();
    println!("universe: {}", u.describe());
    println!("mode {mode} port {port} forwarding {fwd}");
    println!("exchanges: {}", show_log(&res.log));
    let faulty = res.log.iter().any(|e| e.fault != Fault::Honest);
    let findings = judge(&u, mode, port, if fwd { Some(fwd_for(&p, port)) } else { None }, &user_qs, &res, faulty);
    for (c, m) in &findings {
        println!("  finding [{c}]: {m}");
    }
    if findings.is_empty() {
        println!("replay: property holds on this case");
        0
    } else {
        println!("VIOLATION property={} replay=(replayed case)", ctx.id);
        1
    }
}

pub fn replay(ctx: &Ctx, v: &Value) -> i32 {
    procpar::replay_in_child(ctx, v)
}

pub fn worker(args: &[String]) -> i32 {
    if let Some(v) = procpar::replay_arg(args) {
        let ctx = Ctx { id: "C18", tier: Tier::Quick, seed: 0, start: std::time::Instant::now(), threads: 1 };
        return replay_inner(&ctx, &v);
    }
    let tier = if args.first().map(String::as_str) == Some("thorough") { Tier::Thorough } else { Tier::Quick };
    let params = universes(tier);
    procpar::child_main(args, move |tier, i, acc| run_item(tier, &params, i, acc))
}
