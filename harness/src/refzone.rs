//! Reference authoritative lookup over a *flat* list of records
//! (RFC 1034 section 4.3.2 as restated by property C02).  Deliberately boring:
//! no tree, just scans.

use dns_types::protocol::types::*;
use dns_types::zones::types::{Zone, ZoneResult, SOA};

#[derive(Debug, Clone, Eq, PartialEq, Ord, PartialOrd, Hash)]
pub struct FlatRec {
    /// For a wildcard record this is the name *without* the leading `*`.
    pub owner: DomainName,
    pub wildcard: bool,
    pub data: RecordTypeWithData,
    pub ttl: u32,
}

#[derive(Debug, Clone, Eq, PartialEq)]
pub struct FlatZone {
    pub apex: DomainName,
    pub soa: Option<SOA>,
    /// Does not contain the SOA record itself.
    pub recs: Vec<FlatRec>,
}

#[derive(Debug, Clone, Eq, PartialEq)]
pub enum RefResult {
    Answer(Vec<ResourceRecord>),
    Cname(ResourceRecord),
    Delegation(Vec<ResourceRecord>),
    NameError,
}

impl FlatZone {
    pub fn effective_ttl(&self, ttl: u32) -> u32 {
        match &self.soa {
            Some(soa) => ttl.max(soa.minimum),
            None => ttl,
        }
    }

    /// Build the real zone through the insertion API.
    pub fn build(&self) -> Zone {
        let mut z = Zone::new(self.apex.clone(), self.soa.clone());
        for r in &self.recs {
            if r.wildcard {
                z.insert_wildcard(&r.owner, r.data.clone(), r.ttl);
            } else {
                z.insert(&r.owner, r.data.clone(), r.ttl);
            }
        }
        z
    }

    /// All records of the zone as (owner, wildcard, data, effective ttl),
    /// including the SOA record at the apex, de-duplicated.
    pub fn all(&self) -> Vec<FlatRec> {
        let mut out: Vec<FlatRec> = Vec::new();
        if let Some(soa) = &self.soa {
            out.push(FlatRec {
                owner: self.apex.clone(),
                wildcard: false,
                data: soa.to_rdata(),
                ttl: soa.minimum,
            });
        }
        for r in &self.recs {
            let e = FlatRec {
                owner: r.owner.clone(),
                wildcard: r.wildcard,
                data: r.data.clone(),
                ttl: self.effective_ttl(r.ttl),
            };
            if !out.contains(&e) {
                out.push(e);
            }
        }
        out
    }

    fn node_exists(all: &[FlatRec], name: &DomainName) -> bool {
        // a record at or beneath `name`; a wildcard record `*.P` makes P (and
        // its ancestors) exist.
        all.iter().any(|r| r.owner.is_subdomain_of(name))
    }

    fn terminal(
        qname: &DomainName,
        qtype: QueryType,
        set: &[&FlatRec],
    ) -> RefResult {
        if !RecordType::CNAME.matches(qtype) {
            if let Some(c) = set
                .iter()
                .find(|r| r.data.rtype() == RecordType::CNAME)
            {
                return RefResult::Cname(ResourceRecord {
                    name: qname.clone(),
                    rtype_with_data: c.data.clone(),
                    rclass: RecordClass::IN,
                    ttl: c.ttl,
                });
            }
        }
        let rrs = set
            .iter()
            .filter(|r| r.data.rtype().matches(qtype))
            .map(|r| ResourceRecord {
                name: qname.clone(),
                rtype_with_data: r.data.clone(),
                rclass: RecordClass::IN,
                ttl: r.ttl,
            })
            .collect();
        RefResult::Answer(rrs)
    }

    /// `None` when the name is not under the apex.
    pub fn resolve(&self, qname: &DomainName, qtype: QueryType) -> Option<RefResult> {
        let all = self.all();
        self.resolve_with(&all, qname, qtype)
    }

    /// As `resolve`, with `all = self.all()` computed once by the caller.
    pub fn resolve_with(
        &self,
        all: &[FlatRec],
        qname: &DomainName,
        qtype: QueryType,
    ) -> Option<RefResult> {
        if !qname.is_subdomain_of(&self.apex) {
            return None;
        }
        let depth_apex = self.apex.labels.len();
        let depth_q = qname.labels.len();

        // delegation points: non-apex ancestors-or-self of qname carrying NS,
        // walking down from the apex (the first cut wins).
        for d in (depth_apex + 1)..=depth_q {
            let anc = DomainName::from_labels(qname.labels[depth_q - d..].to_vec()).unwrap();
            let ns: Vec<&FlatRec> = all
                .iter()
                .filter(|r| !r.wildcard && r.owner == anc && r.data.rtype() == RecordType::NS)
                .collect();
            if !ns.is_empty() {
                if d == depth_q && qtype == QueryType::Record(RecordType::NS) {
                    break; // answered directly below
                }
                return Some(RefResult::Delegation(
                    ns.iter()
                        .map(|r| ResourceRecord {
                            name: anc.clone(),
                            rtype_with_data: r.data.clone(),
                            rclass: RecordClass::IN,
                            ttl: r.ttl,
                        })
                        .collect(),
                ));
            }
        }

        if *qname == self.apex || Self::node_exists(all, qname) {
            let set: Vec<&FlatRec> = all
                .iter()
                .filter(|r| !r.wildcard && r.owner == *qname)
                .collect();
            return Some(Self::terminal(qname, qtype, &set));
        }

        // closest existing ancestor
        let mut d = depth_q - 1;
        loop {
            let anc = DomainName::from_labels(qname.labels[depth_q - d..].to_vec()).unwrap();
            if anc == self.apex || Self::node_exists(all, &anc) {
                let set: Vec<&FlatRec> = all
                    .iter()
                    .filter(|r| r.wildcard && r.owner == anc)
                    .collect();
                if set.is_empty() {
                    return Some(RefResult::NameError);
                }
                return Some(Self::terminal(qname, qtype, &set));
            }
            d -= 1;
        }
    }
}

pub fn show_ref(r: &RefResult) -> serde_json::Value {
    use crate::util::{canon_rrs, show_rr};
    use serde_json::json;
    match r {
        RefResult::Answer(rrs) => json!({"Answer": canon_rrs(rrs)}),
        RefResult::Cname(rr) => json!({"CNAME": show_rr(rr)}),
        RefResult::Delegation(rrs) => json!({"Delegation": canon_rrs(rrs)}),
        RefResult::NameError => json!("NameError"),
    }
}

pub fn show_zone_result(r: &ZoneResult) -> serde_json::Value {
    use crate::util::{canon_rrs, show_rr};
    use serde_json::json;
    match r {
        ZoneResult::Answer { rrs } => json!({"Answer": canon_rrs(rrs)}),
        ZoneResult::CNAME { rr, .. } => json!({"CNAME": show_rr(rr)}),
        ZoneResult::Delegation { ns_rrs } => json!({"Delegation": canon_rrs(ns_rrs)}),
        ZoneResult::NameError => json!("NameError"),
    }
}

/// Compare the implementation's result with the reference (multiset equality
/// of records; the variant must match; for CNAME the `cname` field must be
/// the record's target).
pub fn same_result(imp: &ZoneResult, reference: &RefResult) -> bool {
    fn same_set(a: &[ResourceRecord], b: &[ResourceRecord]) -> bool {
        if a == b {
            return true;
        }
        if a.len() != b.len() {
            return false;
        }
        let mut a = a.to_vec();
        let mut b = b.to_vec();
        a.sort();
        b.sort();
        a == b
    }
    match (imp, reference) {
        (ZoneResult::Answer { rrs }, RefResult::Answer(want)) => same_set(rrs, want),
        (ZoneResult::CNAME { cname, rr }, RefResult::Cname(want)) => {
            rr == want
                && matches!(&rr.rtype_with_data, RecordTypeWithData::CNAME { cname: c } if c == cname)
        }
        (ZoneResult::Delegation { ns_rrs }, RefResult::Delegation(want)) => same_set(ns_rrs, want),
        (ZoneResult::NameError, RefResult::NameError) => true,
        _ => false,
    }
}
