//! Small constructors and renderers used by every check.

use bytes::Bytes;
use dns_types::protocol::types::*;
use serde_json::{json, Value};
use std::net::{Ipv4Addr, Ipv6Addr};

pub fn dn(s: &str) -> DomainName {
    DomainName::from_dotted_string(s).unwrap_or_else(|| panic!("harness: bad name {s:?}"))
}

pub fn label(s: &[u8]) -> Label {
    Label::try_from(s).expect("harness: bad label")
}

/// Build a name from non-root labels (leftmost first) given as byte strings.
pub fn name_of(labels: &[&[u8]]) -> DomainName {
    let mut v: Vec<Label> = labels.iter().map(|l| label(l)).collect();
    v.push(Label::new());
    DomainName::from_labels(v).expect("harness: bad labels")
}

pub fn prepend(l: &[u8], name: &DomainName) -> DomainName {
    let mut v = Vec::with_capacity(name.labels.len() + 1);
    v.push(label(l));
    v.extend(name.labels.iter().cloned());
    DomainName::from_labels(v).expect("harness: bad labels")
}

pub fn a(addr: [u8; 4]) -> RecordTypeWithData {
    RecordTypeWithData::A {
        address: Ipv4Addr::from(addr),
    }
}

pub fn aaaa(last: u16) -> RecordTypeWithData {
    RecordTypeWithData::AAAA {
        address: Ipv6Addr::new(0xfd00, 0, 0, 0, 0, 0, 0, last),
    }
}

pub fn txt(s: &[u8]) -> RecordTypeWithData {
    RecordTypeWithData::TXT {
        octets: Bytes::copy_from_slice(s),
    }
}

pub fn cname(target: &DomainName) -> RecordTypeWithData {
    RecordTypeWithData::CNAME {
        cname: target.clone(),
    }
}

pub fn ns(target: &DomainName) -> RecordTypeWithData {
    RecordTypeWithData::NS {
        nsdname: target.clone(),
    }
}

pub fn mx(pref: u16, target: &DomainName) -> RecordTypeWithData {
    RecordTypeWithData::MX {
        preference: pref,
        exchange: target.clone(),
    }
}

pub fn soa_data(mname: &DomainName, serial: u32, minimum: u32) -> RecordTypeWithData {
    RecordTypeWithData::SOA {
        mname: mname.clone(),
        rname: mname.clone(),
        serial,
        refresh: 2,
        retry: 3,
        expire: 4,
        minimum,
    }
}

pub fn rr(name: &DomainName, data: RecordTypeWithData, ttl: u32) -> ResourceRecord {
    ResourceRecord {
        name: name.clone(),
        rtype_with_data: data,
        rclass: RecordClass::IN,
        ttl,
    }
}

pub fn question(name: &DomainName, qtype: QueryType) -> Question {
    Question {
        name: name.clone(),
        qtype,
        qclass: QueryClass::Record(RecordClass::IN),
    }
}

pub fn qt(rtype: RecordType) -> QueryType {
    QueryType::Record(rtype)
}

/// Name with escapes so that arbitrary octets are visible in JSON.
pub fn show_name(name: &DomainName) -> String {
    if name.labels.len() == 1 {
        return ".".to_string();
    }
    let mut s = String::new();
    for l in &name.labels {
        if l.is_empty() {
            break;
        }
        for &b in l.octets().iter() {
            if b == b'.' || b == b'\\' {
                s.push('\\');
                s.push(b as char);
            } else if (33..=126).contains(&b) {
                s.push(b as char);
            } else {
                s.push_str(&format!("\\{b:03}"));
            }
        }
        s.push('.');
    }
    s
}

pub fn show_bytes(b: &[u8]) -> String {
    let mut s = String::new();
    for &c in b {
        if (32..=126).contains(&c) && c != b'\\' {
            s.push(c as char);
        } else {
            s.push_str(&format!("\\{c:03}"));
        }
    }
    s
}

pub fn show_data(d: &RecordTypeWithData) -> String {
    match d {
        RecordTypeWithData::A { address } => format!("A {address}"),
        RecordTypeWithData::AAAA { address } => format!("AAAA {address}"),
        RecordTypeWithData::NS { nsdname } => format!("NS {}", show_name(nsdname)),
        RecordTypeWithData::CNAME { cname } => format!("CNAME {}", show_name(cname)),
        RecordTypeWithData::MD { madname } => format!("MD {}", show_name(madname)),
        RecordTypeWithData::MF { madname } => format!("MF {}", show_name(madname)),
        RecordTypeWithData::MB { madname } => format!("MB {}", show_name(madname)),
        RecordTypeWithData::MG { mdmname } => format!("MG {}", show_name(mdmname)),
        RecordTypeWithData::MR { newname } => format!("MR {}", show_name(newname)),
        RecordTypeWithData::PTR { ptrdname } => format!("PTR {}", show_name(ptrdname)),
        RecordTypeWithData::MINFO { rmailbx, emailbx } => {
            format!("MINFO {} {}", show_name(rmailbx), show_name(emailbx))
        }
        RecordTypeWithData::MX {
            preference,
            exchange,
        } => format!("MX {preference} {}", show_name(exchange)),
        RecordTypeWithData::SRV {
            priority,
            weight,
            port,
            target,
        } => format!("SRV {priority} {weight} {port} {}", show_name(target)),
        RecordTypeWithData::SOA {
            mname,
            rname,
            serial,
            refresh,
            retry,
            expire,
            minimum,
        } => format!(
            "SOA {} {} {serial} {refresh} {retry} {expire} {minimum}",
            show_name(mname),
            show_name(rname)
        ),
        RecordTypeWithData::TXT { octets } => format!("TXT \"{}\"", show_bytes(octets)),
        RecordTypeWithData::HINFO { octets } => format!("HINFO \"{}\"", show_bytes(octets)),
        RecordTypeWithData::NULL { octets } => format!("NULL \"{}\"", show_bytes(octets)),
        RecordTypeWithData::WKS { octets } => format!("WKS \"{}\"", show_bytes(octets)),
        RecordTypeWithData::Unknown { tag, octets } => {
            format!("{} \"{}\"", RecordType::Unknown(*tag), show_bytes(octets))
        }
    }
}

pub fn show_rr(r: &ResourceRecord) -> String {
    format!(
        "{} {} {} {}",
        show_name(&r.name),
        r.ttl,
        r.rclass,
        show_data(&r.rtype_with_data)
    )
}

pub fn show_rrs(rrs: &[ResourceRecord]) -> Value {
    json!(rrs.iter().map(show_rr).collect::<Vec<_>>())
}

/// Canonical multiset form of a record list (sorted strings).
pub fn canon_rrs(rrs: &[ResourceRecord]) -> Vec<String> {
    let mut v: Vec<String> = rrs.iter().map(show_rr).collect();
    v.sort();
    v
}

/// (name,type,data) without TTL, sorted.
pub fn canon_rrs_nottl(rrs: &[ResourceRecord]) -> Vec<String> {
    let mut v: Vec<String> = rrs
        .iter()
        .map(|r| format!("{} {}", show_name(&r.name), show_data(&r.rtype_with_data)))
        .collect();
    v.sort();
    v
}

pub const ALL_KNOWN_RTYPES: [RecordType; 18] = [
    RecordType::A,
    RecordType::NS,
    RecordType::MD,
    RecordType::MF,
    RecordType::CNAME,
    RecordType::SOA,
    RecordType::MB,
    RecordType::MG,
    RecordType::MR,
    RecordType::NULL,
    RecordType::WKS,
    RecordType::PTR,
    RecordType::HINFO,
    RecordType::MINFO,
    RecordType::MX,
    RecordType::TXT,
    RecordType::AAAA,
    RecordType::SRV,
];
