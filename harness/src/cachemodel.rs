//! Shared by C05 and C15: an operation alphabet over the real `SharedCache`
//! under the virtual clock hook, and a boring reference model
//! (`BTreeMap<(name,type,data), expiry>` + per-name use times) that judges
//! every transition.

use crate::util::*;
use dns_resolver::cache::SharedCache;
use dns_resolver::verif::snapshot::CacheSnapshot;
use dns_types::protocol::types::*;
use serde_json::{json, Value};
use std::cell::Cell;
use std::collections::{BTreeMap, BTreeSet};
use std::rc::Rc;
use std::time::Duration;

pub const NS_PER_S: u64 = 1_000_000_000;
const CLOCK_START: u64 = 1000 * NS_PER_S;

#[derive(Debug, Copy, Clone, Eq, PartialEq, Ord, PartialOrd, Hash)]
pub enum Ty {
    A,
    Txt,
}

#[derive(Debug, Copy, Clone, Eq, PartialEq, Ord, PartialOrd, Hash)]
pub enum Q {
    A,
    Txt,
    Any,
    Mx,
}

#[derive(Debug, Copy, Clone, Eq, PartialEq, Ord, PartialOrd, Hash)]
pub struct Rec {
    pub name: u8,
    pub ty: Ty,
    pub val: u8,
    pub ttl: u32,
}

#[derive(Debug, Clone, Eq, PartialEq, Ord, PartialOrd, Hash)]
pub enum Op {
    Ins(Rec),
    InsAll(Vec<Rec>),
    Get(u8, Q),
    GetUnchecked(u8, Q),
    Prune,
    /// advance the virtual clock by this many milliseconds
    Adv(u64),
}

pub fn show_op(op: &Op) -> String {
    fn r(x: &Rec) -> String {
        format!("n{} {:?} v{} ttl={}", x.name, x.ty, x.val, x.ttl)
    }
    match op {
        Op::Ins(x) => format!("insert({})", r(x)),
        Op::InsAll(v) => format!(
            "insert_all([{}])",
            v.iter().map(r).collect::<Vec<_>>().join("; ")
        ),
        Op::Get(n, q) => format!("get(n{n}, {q:?})"),
        Op::GetUnchecked(n, q) => format!("get_without_checking_expiration(n{n}, {q:?})"),
        Op::Prune => "prune()".into(),
        Op::Adv(ms) => format!("advance({ms} ms)"),
    }
}

pub fn op_to_json(op: &Op) -> Value {
    fn r(x: &Rec) -> Value {
        json!({"name": x.name, "ty": format!("{:?}", x.ty), "val": x.val, "ttl": x.ttl})
    }
    match op {
        Op::Ins(x) => json!({"op": "ins", "rec": r(x)}),
        Op::InsAll(v) => json!({"op": "ins_all", "recs": v.iter().map(r).collect::<Vec<_>>()}),
        Op::Get(n, q) => json!({"op": "get", "name": n, "q": format!("{q:?}")}),
        Op::GetUnchecked(n, q) => json!({"op": "get_unchecked", "name": n, "q": format!("{q:?}")}),
        Op::Prune => json!({"op": "prune"}),
        Op::Adv(ms) => json!({"op": "adv", "ms": ms}),
    }
}

pub fn op_from_json(v: &Value) -> Option<Op> {
    fn r(v: &Value) -> Option<Rec> {
        Some(Rec {
            name: v["name"].as_u64()? as u8,
            ty: match v["ty"].as_str()? {
                "A" => Ty::A,
                _ => Ty::Txt,
            },
            val: v["val"].as_u64()? as u8,
            ttl: v["ttl"].as_u64()? as u32,
        })
    }
    fn q(v: &Value) -> Q {
        match v.as_str().unwrap_or("A") {
            "A" => Q::A,
            "Txt" => Q::Txt,
            "Mx" => Q::Mx,
            _ => Q::Any,
        }
    }
    Some(match v["op"].as_str()? {
        "ins" => Op::Ins(r(&v["rec"])?),
        "ins_all" => Op::InsAll(
            v["recs"]
                .as_array()?
                .iter()
                .map(r)
                .collect::<Option<Vec<_>>>()?,
        ),
        "get" => Op::Get(v["name"].as_u64()? as u8, q(&v["q"])),
        "get_unchecked" => Op::GetUnchecked(v["name"].as_u64()? as u8, q(&v["q"])),
        "prune" => Op::Prune,
        "adv" => Op::Adv(v["ms"].as_u64()?),
        _ => return None,
    })
}

pub fn name_of_idx(i: u8) -> DomainName {
    dn(&format!("n{i}.cache.test."))
}

fn data_of(ty: Ty, val: u8) -> RecordTypeWithData {
    match ty {
        Ty::A => a([192, 0, 2, val]),
        Ty::Txt => txt(format!("v{val}").as_bytes()),
    }
}

fn rr_of(x: &Rec) -> ResourceRecord {
    rr(&name_of_idx(x.name), data_of(x.ty, x.val), x.ttl)
}

fn qtype_of(q: Q) -> QueryType {
    match q {
        Q::A => QueryType::Record(RecordType::A),
        Q::Txt => QueryType::Record(RecordType::TXT),
        Q::Mx => QueryType::Record(RecordType::MX),
        Q::Any => QueryType::Wildcard,
    }
}

type Key = (DomainName, RecordTypeWithData);

#[derive(Debug, Clone, Copy, Eq, PartialEq, Hash)]
struct Use {
    /// last use that certainly counted: it happened within [c_lo, c_hi]
    c_lo: u64,
    c_hi: u64,
    /// latest instant at which a use may have been recorded
    p_hi: u64,
}

/// The reference: what the cache must hold, as far as the properties say.
#[derive(Debug, Clone, Default)]
pub struct RefCache {
    /// (name, data) -> expiry within [lo, hi] (virtual ns)
    entries: BTreeMap<Key, (u64, u64)>,
    uses: BTreeMap<DomainName, Use>,
}

#[derive(Debug, Clone, Eq, PartialEq)]
pub struct Finding {
    pub clause: &'static str,
    pub msg: String,
}

/// Which properties' clauses produce a verdict.
#[derive(Debug, Copy, Clone, Eq, PartialEq)]
pub enum Focus {
    C05,
    C15,
}

pub fn clause_owner(clause: &str) -> Focus {
    match clause {
        "get-returned-unknown"
        | "get-returned-expired"
        | "get-ttl-exceeds-remaining"
        | "get-missing-live"
        | "get-duplicate"
        | "get-wrong-owner"
        | "ttl0-stored"
        | "reinsert-lifetime"
        | "live-entry-vanished"
        | "c05-panic" => Focus::C05,
        _ => Focus::C15,
    }
}

#[derive(Debug, Clone)]
pub struct Config {
    pub desired_size: usize,
    /// every clock read advances the clock by 1 ns (as a real clock does)
    pub tick: bool,
    pub focus: Focus,
}

pub struct Exec {
    pub cache: SharedCache,
    clock: Rc<Cell<u64>>,
    tick: bool,
    desired: usize,
    pub reference: RefCache,
    pub findings: Vec<Finding>,
    /// flags describing what this history exercised (for the evidence)
    pub saw_expiry: bool,
    pub saw_eviction: bool,
    pub saw_upsert: bool,
    pub saw_hit: bool,
}

fn snap_entries(s: &CacheSnapshot) -> BTreeMap<Key, u64> {
    let mut m = BTreeMap::new();
    for p in &s.partitions {
        for (_, tuples) in &p.records {
            for (v, e) in tuples {
                m.insert((p.name.clone(), v.clone()), e.as_nanos() as u64);
            }
        }
    }
    m
}

fn snap_count(s: &CacheSnapshot) -> usize {
    s.partitions
        .iter()
        .map(|p| p.records.iter().map(|(_, t)| t.len()).sum::<usize>())
        .sum()
}

impl Exec {
    pub fn new(cfg: &Config) -> Self {
        let clock = Rc::new(Cell::new(CLOCK_START));
        let c2 = clock.clone();
        let tick = cfg.tick;
        dns_resolver::verif::clock::set_provider(Some(Rc::new(move || {
            let v = c2.get();
            if tick {
                c2.set(v + 1);
            }
            Duration::from_nanos(v)
        })));
        Exec {
            cache: SharedCache::with_desired_size(cfg.desired_size),
            clock,
            tick,
            desired: cfg.desired_size,
            reference: RefCache::default(),
            findings: Vec::new(),
            saw_expiry: false,
            saw_eviction: false,
            saw_upsert: false,
            saw_hit: false,
        }
    }

    pub fn now(&self) -> u64 {
        self.clock.get()
    }

    fn find(&mut self, clause: &'static str, msg: String) {
        self.findings.push(Finding { clause, msg });
    }

    fn ref_insert(&mut self, x: &Rec, t0: u64, t1: u64) {
        if x.ttl == 0 {
            return;
        }
        let key = (name_of_idx(x.name), data_of(x.ty, x.val));
        let ttl = u64::from(x.ttl) * NS_PER_S;
        if self.reference.entries.contains_key(&key) {
            self.saw_upsert = true;
        }
        self.reference.entries.insert(key.clone(), (t0 + ttl, t1 + ttl));
        let u = self.reference.uses.entry(key.0).or_insert(Use {
            c_lo: t0,
            c_hi: t1,
            p_hi: t1,
        });
        u.c_lo = t0;
        u.c_hi = t1;
        u.p_hi = t1;
    }

    /// After every operation: structural invariants, count equality, and
    /// agreement of the stored entries with the reference.
    fn check_state(&mut self, what: &str, t1: u64) -> CacheSnapshot {
        let snap = self.cache.verif_snapshot();
        if let Err(e) = self.cache.verif_check_invariants() {
            self.find("invariants", format!("after {what}: {e}"));
        }
        let held = snap_entries(&snap);
        let listed = snap_count(&snap);
        if snap.current_size != held.len() || listed != held.len() {
            self.find(
                "count-mismatch",
                format!(
                    "after {what}: record count is {}, the cache holds {} distinct (name,type,data) entries ({} stored tuples)",
                    snap.current_size,
                    held.len(),
                    listed
                ),
            );
        }
        for (k, e) in &held {
            match self.reference.entries.get(k) {
                None => self.find(
                    "ttl0-stored",
                    format!(
                        "after {what}: the cache holds {} {} which was never inserted with a non-zero TTL (or was already removed)",
                        show_name(&k.0),
                        show_data(&k.1)
                    ),
                ),
                Some((lo, hi)) => {
                    if e < lo || e > hi {
                        self.find(
                            "reinsert-lifetime",
                            format!(
                                "after {what}: {} {} expires at {} ns, reference says within [{lo},{hi}] (lifetime not restarted / wrong)",
                                show_name(&k.0),
                                show_data(&k.1),
                                e
                            ),
                        );
                    }
                }
            }
        }
        let missing: Vec<Key> = self
            .reference
            .entries
            .iter()
            .filter(|(k, (lo, _))| *lo > t1 && !held.contains_key(*k))
            .map(|(k, _)| k.clone())
            .collect();
        for k in missing {
            self.find(
                "live-entry-vanished",
                format!(
                    "after {what}: {} {} has neither expired nor been evicted but is no longer held",
                    show_name(&k.0),
                    show_data(&k.1)
                ),
            );
        }
        snap
    }

    fn do_get(&mut self, n: u8, q: Q, unchecked: bool, what: &str) {
        let name = name_of_idx(n);
        let qtype = qtype_of(q);
        let t0 = self.now();
        let got = if unchecked {
            self.cache.get_without_checking_expiration(&name, qtype)
        } else {
            self.cache.get(&name, qtype)
        };
        let t1 = self.now();
        let mut seen: BTreeSet<Key> = BTreeSet::new();
        let mut live_hit = false;
        for r in &got {
            if r.name != name || r.rclass != RecordClass::IN {
                self.find(
                    "get-wrong-owner",
                    format!("{what} returned {}", show_rr(r)),
                );
                continue;
            }
            if !r.rtype_with_data.rtype().matches(qtype) {
                self.find(
                    "get-returned-unknown",
                    format!("{what} returned a record of another type: {}", show_rr(r)),
                );
                continue;
            }
            let key = (r.name.clone(), r.rtype_with_data.clone());
            if !seen.insert(key.clone()) {
                self.find(
                    "get-duplicate",
                    format!("{what} returned {} twice", show_rr(r)),
                );
            }
            match self.reference.entries.get(&key) {
                None => self.find(
                    "get-returned-unknown",
                    format!("{what} returned {} which the cache should not hold", show_rr(r)),
                ),
                Some(&(_lo, hi)) => {
                    let remaining_hi = hi.saturating_sub(t0);
                    if remaining_hi == 0 {
                        if !unchecked || r.ttl > 0 {
                            self.find(
                                "get-returned-expired",
                                format!(
                                    "{what} returned {} although its TTL elapsed {} ns ago",
                                    show_rr(r),
                                    t0 - hi
                                ),
                            );
                        }
                    } else {
                        if u64::from(r.ttl) * NS_PER_S > remaining_hi {
                            self.find(
                                "get-ttl-exceeds-remaining",
                                format!(
                                    "{what} returned {} but only {} ns of its life remain",
                                    show_rr(r),
                                    remaining_hi
                                ),
                            );
                        }
                        if r.ttl > 0 {
                            live_hit = true;
                        }
                    }
                }
            }
        }
        // completeness: everything with at least one whole second left (D2)
        let must: Vec<(Key, u64)> = self
            .reference
            .entries
            .iter()
            .filter(|((nm, d), (lo, _))| {
                *nm == name && d.rtype().matches(qtype) && lo.saturating_sub(t1) >= NS_PER_S
            })
            .map(|(k, (lo, _))| (k.clone(), *lo))
            .collect();
        for (k, lo) in must {
            if !seen.contains(&k) {
                self.find(
                    "get-missing-live",
                    format!(
                        "{what} did not return {} {} which has {} ns left and was not evicted",
                        show_name(&k.0),
                        show_data(&k.1),
                        lo - t1
                    ),
                );
            }
        }
        if live_hit {
            self.saw_hit = true;
        }
        if let Some(u) = self.reference.uses.get_mut(&name) {
            if live_hit {
                u.c_lo = t0;
                u.c_hi = t1;
            }
            u.p_hi = t1;
        }
        let _ = self.check_state(what, t1);
    }

    fn do_prune(&mut self, what: &str) {
        let t0 = self.now();
        let before: BTreeMap<Key, (u64, u64)> = self.reference.entries.clone();
        let (overflow, size, expired, evicted) = self.cache.prune();
        let t1 = self.now();
        let snap = self.check_state(what, u64::MAX); // entry-vanished is judged here, below
        let held = snap_entries(&snap);

        let definitely_expired: BTreeSet<Key> = before
            .iter()
            .filter(|(_, (_, hi))| *hi <= t0)
            .map(|(k, _)| k.clone())
            .collect();
        let maybe_expired: BTreeSet<Key> = before
            .iter()
            .filter(|(_, (lo, hi))| *lo <= t1 && *hi > t0)
            .map(|(k, _)| k.clone())
            .collect();
        if !definitely_expired.is_empty() {
            self.saw_expiry = true;
        }

        for k in &definitely_expired {
            if held.contains_key(k) {
                self.find(
                    "prune-left-expired",
                    format!(
                        "{what} left {} {} behind although it expired {} ns before the prune",
                        show_name(&k.0),
                        show_data(&k.1),
                        t0 - before[k].1
                    ),
                );
            }
        }
        if held.len() > self.desired {
            self.find(
                "prune-over-size",
                format!(
                    "{what} left {} records, the configured size is {}",
                    held.len(),
                    self.desired
                ),
            );
        }
        if size != held.len() {
            self.find(
                "prune-size-wrong",
                format!("{what} reported {size} remaining records, {} remain", held.len()),
            );
        }
        // (the overflow flag is not part of the property statement: not judged)
        let _ = overflow;

        let removed: Vec<Key> = before
            .keys()
            .filter(|k| !held.contains_key(*k))
            .cloned()
            .collect();
        let removed_expired = removed
            .iter()
            .filter(|k| definitely_expired.contains(*k))
            .count();
        let removed_maybe = removed
            .iter()
            .filter(|k| maybe_expired.contains(*k))
            .count();
        let removed_live: Vec<&Key> = removed
            .iter()
            .filter(|k| !definitely_expired.contains(*k) && !maybe_expired.contains(*k))
            .collect();
        // a prune may only evict while the cache is over its size: when even the
        // largest possible number of records left after expiry fits, a live
        // record that disappears has neither expired nor been evicted (C05)
        if before.len() - definitely_expired.len() <= self.desired {
            for k in &removed_live {
                self.find(
                    "live-entry-vanished",
                    format!(
                        "{what} removed {} {} although it had not expired and the cache was not over its size ({} records, size {})",
                        show_name(&k.0),
                        show_data(&k.1),
                        before.len() - definitely_expired.len(),
                        self.desired
                    ),
                );
            }
        }
        if expired < removed_expired || expired > removed_expired + removed_maybe {
            self.find(
                "prune-expired-count",
                format!(
                    "{what} reported {expired} expired records, {} were removed as expired",
                    removed_expired
                ),
            );
        }
        let total_removed = removed.len();
        if expired + evicted != total_removed {
            self.find(
                "prune-evicted-count",
                format!(
                    "{what} reported {expired} expired + {evicted} evicted, {total_removed} records disappeared"
                ),
            );
        }

        // evictions: whole names, only while over size, least recently used
        let evicted_names: BTreeSet<DomainName> =
            removed_live.iter().map(|k| k.0.clone()).collect();
        if !evicted_names.is_empty() {
            self.saw_eviction = true;
        }
        let mut evicted_sizes: BTreeMap<DomainName, usize> = BTreeMap::new();
        for nm in &evicted_names {
            let survivors = held.keys().filter(|k| k.0 == *nm).count();
            if survivors > 0 {
                self.find(
                    "evict-partial-name",
                    format!(
                        "{what} evicted some but not all records of {} ({} left)",
                        show_name(nm),
                        survivors
                    ),
                );
            }
            let n_live = before
                .keys()
                .filter(|k| k.0 == *nm && !definitely_expired.contains(*k))
                .count();
            evicted_sizes.insert(nm.clone(), n_live);
        }
        if !evicted_names.is_empty() {
            let live_before = before.len() - removed_expired;
            if live_before <= self.desired && removed_maybe == 0 {
                self.find(
                    "evict-not-needed",
                    format!(
                        "{what} evicted {:?} although only {live_before} unexpired records were held (size {})",
                        evicted_names.iter().map(show_name).collect::<Vec<_>>(),
                        self.desired
                    ),
                );
            } else if removed_maybe == 0 {
                // the last name evicted was needed: some evicted name X has
                // remaining + |X| > desired
                let needed = evicted_sizes
                    .values()
                    .any(|sz| held.len() + sz > self.desired);
                if !needed {
                    self.find(
                        "evict-not-needed",
                        format!(
                            "{what} evicted more names than needed: {} remain (size {}), evicted {:?}",
                            held.len(),
                            self.desired,
                            evicted_sizes
                                .iter()
                                .map(|(n, s)| format!("{}:{s}", show_name(n)))
                                .collect::<Vec<_>>()
                        ),
                    );
                }
            }
            // LRU: no evicted name certainly used later than a survivor
            let surviving_names: BTreeSet<DomainName> =
                held.keys().map(|k| k.0.clone()).collect();
            for x in &evicted_names {
                for y in &surviving_names {
                    if let (Some(ux), Some(uy)) =
                        (self.reference.uses.get(x), self.reference.uses.get(y))
                    {
                        if ux.c_lo > uy.p_hi {
                            self.find(
                                "lru-order",
                                format!(
                                    "{what} evicted {} (last used at >= {} ns) but kept {} (last used at <= {} ns)",
                                    show_name(x),
                                    ux.c_lo,
                                    show_name(y),
                                    uy.p_hi
                                ),
                            );
                        }
                    }
                }
            }
        }

        // steer the reference: drop what is gone
        for k in &removed {
            self.reference.entries.remove(k);
        }
        let names_left: BTreeSet<DomainName> =
            self.reference.entries.keys().map(|k| k.0.clone()).collect();
        self.reference.uses.retain(|n, _| names_left.contains(n));
    }

    /// Apply one operation to the real cache and the reference.
    pub fn apply(&mut self, op: &Op) {
        let what = show_op(op);
        // the flags describe the *last* operation only, so that they are a
        // function of (state, action) and counts do not depend on which path
        // first reached a state
        self.saw_expiry = false;
        self.saw_eviction = false;
        self.saw_upsert = false;
        self.saw_hit = false;
        match op {
            Op::Ins(x) => {
                let before = if x.ttl == 0 {
                    Some(snap_entries(&self.cache.verif_snapshot()))
                } else {
                    None
                };
                let t0 = self.now();
                self.cache.insert(&rr_of(x));
                let t1 = self.now();
                self.ref_insert(x, t0, t1);
                let snap = self.check_state(&what, t1);
                if let Some(b) = before {
                    if snap_entries(&snap) != b {
                        self.find(
                            "ttl0-stored",
                            format!("{what} changed the cache contents"),
                        );
                    }
                }
            }
            Op::InsAll(v) => {
                let t0 = self.now();
                let rrs: Vec<ResourceRecord> = v.iter().map(rr_of).collect();
                self.cache.insert_all(&rrs);
                let t1 = self.now();
                for x in v {
                    self.ref_insert(x, t0, t1);
                }
                let _ = self.check_state(&what, t1);
            }
            Op::Get(n, q) => self.do_get(*n, *q, false, &what),
            Op::GetUnchecked(n, q) => self.do_get(*n, *q, true, &what),
            Op::Prune => self.do_prune(&what),
            Op::Adv(ms) => {
                self.clock.set(self.clock.get() + ms * 1_000_000);
            }
        }
    }

    /// Canonical form relative to `now`: implementation snapshot (incl. both
    /// queues in pop order and vector order) + reference use bookkeeping.
    pub fn canon(&self) -> u64 {
        use std::hash::{Hash, Hasher};
        let snap = self.cache.verif_snapshot();
        let now = self.now() as i128;
        let rel = |d: Duration| -> i128 { d.as_nanos() as i128 - now };
        let mut h = std::collections::hash_map::DefaultHasher::new();
        snap.current_size.hash(&mut h);
        for p in &snap.partitions {
            p.name.hash(&mut h);
            rel(p.last_read).hash(&mut h);
            rel(p.next_expiry).hash(&mut h);
            p.size.hash(&mut h);
            for (t, tuples) in &p.records {
                t.hash(&mut h);
                for (v, e) in tuples {
                    v.hash(&mut h);
                    rel(*e).hash(&mut h);
                }
            }
        }
        for (n, t) in &snap.access_order {
            n.hash(&mut h);
            rel(*t).hash(&mut h);
        }
        for (n, t) in &snap.expiry_order {
            n.hash(&mut h);
            rel(*t).hash(&mut h);
        }
        for (k, (lo, hi)) in &self.reference.entries {
            k.hash(&mut h);
            (*lo as i128 - now).hash(&mut h);
            (*hi as i128 - now).hash(&mut h);
        }
        for (n, u) in &self.reference.uses {
            n.hash(&mut h);
            (u.c_lo as i128 - now).hash(&mut h);
            (u.c_hi as i128 - now).hash(&mut h);
            (u.p_hi as i128 - now).hash(&mut h);
        }
        h.finish()
    }
}

impl Drop for Exec {
    fn drop(&mut self) {
        dns_resolver::verif::clock::set_provider(None);
    }
}

#[derive(Debug, Clone)]
pub struct Outcome {
    pub canon: u64,
    pub finding: Option<Finding>,
    pub saw_expiry: bool,
    pub saw_eviction: bool,
    pub saw_upsert: bool,
    pub saw_hit: bool,
}

/// Run a whole history on a fresh cache; the verdict is the first finding
/// owned by `cfg.focus` (all findings if `all`).
pub fn execute(cfg: &Config, history: &[Op]) -> Outcome {
    let focus = cfg.focus;
    let res = std::panic::catch_unwind(std::panic::AssertUnwindSafe(|| {
        let mut ex = Exec::new(cfg);
        let mut first = None;
        for op in history {
            ex.apply(op);
            if first.is_none() {
                first = ex
                    .findings
                    .iter()
                    .find(|f| clause_owner(f.clause) == focus)
                    .cloned();
            }
            if first.is_some() {
                break;
            }
        }
        Outcome {
            canon: ex.canon(),
            finding: first,
            saw_expiry: ex.saw_expiry,
            saw_eviction: ex.saw_eviction,
            saw_upsert: ex.saw_upsert,
            saw_hit: ex.saw_hit,
        }
    }));
    match res {
        Ok(o) => o,
        Err(p) => {
            dns_resolver::verif::clock::set_provider(None);
            let msg = p
                .downcast_ref::<String>()
                .cloned()
                .or_else(|| p.downcast_ref::<&str>().map(|s| s.to_string()))
                .unwrap_or_else(|| "panic".into());
            Outcome {
                canon: 0,
                finding: Some(Finding {
                    clause: match focus {
                        Focus::C05 => "c05-panic",
                        Focus::C15 => "panic",
                    },
                    msg: format!("panicked: {msg}"),
                }),
                saw_expiry: false,
                saw_eviction: false,
                saw_upsert: false,
                saw_hit: false,
            }
        }
    }
}

/// All findings of a history (any owner) — for replays.
pub fn execute_all(cfg: &Config, history: &[Op]) -> Vec<Finding> {
    let res = std::panic::catch_unwind(std::panic::AssertUnwindSafe(|| {
        let mut ex = Exec::new(cfg);
        for op in history {
            ex.apply(op);
        }
        ex.findings.clone()
    }));
    match res {
        Ok(f) => f,
        Err(_) => {
            dns_resolver::verif::clock::set_provider(None);
            vec![Finding {
                clause: "panic",
                msg: "panicked".into(),
            }]
        }
    }
}

// ---------------------------------------------------------------------------
// Explicit-state search (stateright) over operation histories.
// ---------------------------------------------------------------------------

use stateright::{Checker, Model, Property};
use std::sync::atomic::{AtomicU64, Ordering};
use std::sync::{Arc, Mutex};

#[derive(Default)]
pub struct Stats {
    pub transitions: AtomicU64,
    pub with_expiry: AtomicU64,
    pub with_eviction: AtomicU64,
    pub with_upsert: AtomicU64,
    pub with_hit: AtomicU64,
    /// thread -> (started, history) of the execution in flight (watchdog)
    pub inflight: Mutex<BTreeMap<u64, (std::time::Instant, Vec<u16>)>>,
    pub samples: Mutex<Vec<Vec<u16>>>,
}

fn thread_key() -> u64 {
    use std::hash::{Hash, Hasher};
    let mut h = std::collections::hash_map::DefaultHasher::new();
    std::thread::current().id().hash(&mut h);
    h.finish()
}

#[derive(Clone)]
pub struct CacheModel {
    pub cfg: Config,
    pub alphabet: Arc<Vec<Op>>,
    pub max_depth: usize,
    pub stats: Arc<Stats>,
}

#[derive(Clone, Debug)]
pub struct St {
    pub hist: Vec<u16>,
    pub canon: u64,
    pub verdict: Option<Finding>,
}

impl PartialEq for St {
    fn eq(&self, o: &Self) -> bool {
        self.canon == o.canon
            && self.hist.len() == o.hist.len()
            && self.verdict.as_ref().map(|f| f.clause) == o.verdict.as_ref().map(|f| f.clause)
    }
}
impl Eq for St {}
impl std::hash::Hash for St {
    fn hash<H: std::hash::Hasher>(&self, h: &mut H) {
        self.canon.hash(h);
        self.hist.len().hash(h);
        self.verdict.as_ref().map(|f| f.clause).hash(h);
    }
}

impl CacheModel {
    pub fn ops(&self, hist: &[u16]) -> Vec<Op> {
        hist.iter().map(|i| self.alphabet[*i as usize].clone()).collect()
    }
}

impl Model for CacheModel {
    type State = St;
    type Action = u16;

    fn init_states(&self) -> Vec<St> {
        let o = execute(&self.cfg, &[]);
        vec![St {
            hist: Vec::new(),
            canon: o.canon,
            verdict: o.finding,
        }]
    }

    fn actions(&self, s: &St, actions: &mut Vec<u16>) {
        if s.verdict.is_some() || s.hist.len() >= self.max_depth {
            return;
        }
        for i in 0..self.alphabet.len() {
            actions.push(i as u16);
        }
    }

    fn next_state(&self, s: &St, a: u16) -> Option<St> {
        let mut hist = s.hist.clone();
        hist.push(a);
        let key = thread_key();
        self.stats
            .inflight
            .lock()
            .unwrap()
            .insert(key, (std::time::Instant::now(), hist.clone()));
        let o = execute(&self.cfg, &self.ops(&hist));
        self.stats.inflight.lock().unwrap().remove(&key);
        let n = self.stats.transitions.fetch_add(1, Ordering::Relaxed);
        if o.saw_expiry {
            self.stats.with_expiry.fetch_add(1, Ordering::Relaxed);
        }
        if o.saw_eviction {
            self.stats.with_eviction.fetch_add(1, Ordering::Relaxed);
        }
        if o.saw_upsert {
            self.stats.with_upsert.fetch_add(1, Ordering::Relaxed);
        }
        if o.saw_hit {
            self.stats.with_hit.fetch_add(1, Ordering::Relaxed);
        }
        if n % 50_021 == 7 && hist.len() >= 3 {
            let mut g = self.stats.samples.lock().unwrap();
            if g.len() < 4 {
                g.push(hist.clone());
            }
        }
        Some(St {
            hist,
            canon: o.canon,
            verdict: o.finding,
        })
    }

    fn properties(&self) -> Vec<Property<Self>> {
        vec![Property::always("cache agrees with the reference", |_, s: &St| {
            s.verdict.is_none()
        })]
    }
}

pub struct SearchResult {
    pub unique: u64,
    pub generated: u64,
    pub max_depth: usize,
    pub transitions: u64,
    pub with_expiry: u64,
    pub with_eviction: u64,
    pub with_upsert: u64,
    pub with_hit: u64,
    pub samples: Vec<Vec<Op>>,
    pub counterexample: Option<(Vec<Op>, Finding)>,
    pub timed_out: bool,
}

/// Deterministic structural shrinking: drop operations while the same clause
/// still fails.
pub fn shrink(cfg: &Config, ops: Vec<Op>, clause: &'static str) -> (Vec<Op>, Finding) {
    let fails = |ops: &[Op]| -> Option<Finding> {
        let o = execute(cfg, ops);
        o.finding.filter(|f| f.clause == clause)
    };
    let mut cur = ops;
    let mut finding = fails(&cur).expect("counterexample must reproduce");
    loop {
        let mut progressed = false;
        let mut i = 0;
        while i < cur.len() {
            let mut cand = cur.clone();
            cand.remove(i);
            if let Some(f) = fails(&cand) {
                cur = cand;
                finding = f;
                progressed = true;
            } else {
                i += 1;
            }
        }
        if !progressed {
            break;
        }
    }
    (cur, finding)
}

pub fn search(
    cfg: &Config,
    alphabet: &[Op],
    max_depth: usize,
    threads: usize,
    dfs: bool,
    timeout: std::time::Duration,
    watchdog: Option<(&'static str, crate::common::Tier, u64, std::time::Instant)>,
) -> SearchResult {
    let stats = Arc::new(Stats::default());
    let wd_stop = Arc::new(std::sync::atomic::AtomicBool::new(false));
    if let Some((id, tier, seed, started)) = watchdog {
        let stats = stats.clone();
        let stop = wd_stop.clone();
        let alphabet: Vec<Op> = alphabet.to_vec();
        let cfg = cfg.clone();
        std::thread::spawn(move || loop {
            std::thread::sleep(std::time::Duration::from_millis(500));
            if stop.load(Ordering::Relaxed) {
                return;
            }
            let stuck = stats
                .inflight
                .lock()
                .unwrap()
                .values()
                .find(|(t, _)| t.elapsed().as_secs() >= 20)
                .map(|(_, h)| h.clone());
            if let Some(h) = stuck {
                let ops: Vec<Op> = h.iter().map(|i| alphabet[*i as usize].clone()).collect();
                crate::common::finish_emergency(
                    id,
                    tier,
                    seed,
                    started,
                    crate::common::Violation {
                        clause: "nontermination".into(),
                        summary: format!(
                            "desired_size={} history=[{}] did not return within 20 s",
                            cfg.desired_size,
                            ops.iter().map(show_op).collect::<Vec<_>>().join(", ")
                        ),
                        replay: json!({
                            "kind": "cache-history",
                            "desired_size": cfg.desired_size,
                            "tick": cfg.tick,
                            "ops": ops.iter().map(op_to_json).collect::<Vec<_>>(),
                        }),
                        slug: None,
                    },
                );
            }
        });
    }
    let model = CacheModel {
        cfg: cfg.clone(),
        alphabet: Arc::new(alphabet.to_vec()),
        max_depth,
        stats: stats.clone(),
    };
    let started = std::time::Instant::now();
    let builder = model.clone().checker().threads(threads).timeout(timeout);
    let checker = if dfs {
        Box::new(builder.spawn_dfs().join()) as Box<dyn CheckerDyn>
    } else {
        Box::new(builder.spawn_bfs().join()) as Box<dyn CheckerDyn>
    };
    wd_stop.store(true, Ordering::Relaxed);
    // stateright closes its job broker at the deadline and then reports
    // `is_done()`, so the only witness of a cut search is the clock: a search
    // that was still running at the deadline counts as cut
    let timed_out = started.elapsed() >= timeout;
    let counterexample = checker.counterexample().map(|hist| {
        let ops = model.ops(&hist);
        let f = execute(cfg, &ops).finding.expect("discovery must reproduce (determinism)");
        let (ops, f) = shrink(cfg, ops, f.clause);
        (ops, f)
    });
    let samples = stats
        .samples
        .lock()
        .unwrap()
        .iter()
        .map(|h| model.ops(h))
        .collect();
    SearchResult {
        unique: checker.unique() as u64,
        generated: checker.generated() as u64,
        max_depth: checker.depth(),
        transitions: stats.transitions.load(Ordering::Relaxed),
        with_expiry: stats.with_expiry.load(Ordering::Relaxed),
        with_eviction: stats.with_eviction.load(Ordering::Relaxed),
        with_upsert: stats.with_upsert.load(Ordering::Relaxed),
        with_hit: stats.with_hit.load(Ordering::Relaxed),
        samples,
        counterexample,
        timed_out,
    }
}

/// Object-safe view of the two checker types.
trait CheckerDyn {
    fn unique(&self) -> usize;
    fn generated(&self) -> usize;
    fn depth(&self) -> usize;
    fn done(&self) -> bool;
    fn counterexample(&self) -> Option<Vec<u16>>;
}

impl<C: Checker<CacheModel>> CheckerDyn for C {
    fn unique(&self) -> usize {
        self.unique_state_count()
    }
    fn generated(&self) -> usize {
        self.state_count()
    }
    fn depth(&self) -> usize {
        self.max_depth()
    }
    fn done(&self) -> bool {
        self.is_done()
    }
    fn counterexample(&self) -> Option<Vec<u16>> {
        self.discoveries()
            .into_iter()
            .next()
            .map(|(_, path)| path.last_state().hist.clone())
    }
}
