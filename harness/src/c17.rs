//! C17 — configuration parsers never crash on any text.
//!
//! Every string of a bounded length over a small alphabet of the characters
//! the two tokenisers distinguish, every single (and, thorough, double) symbol
//! edit of a base corpus, and a list of size extremes go through
//! `Zone::deserialise` / `Hosts::deserialise` in child processes (`vcheck
//! worker C17 ...`) on a thread with a 2 MiB stack under a watchdog; error
//! files of every class go through `resolved::fs::load_zone_configuration`.
//! Oracle: a result or an error; no panic, no abnormal exit, no hang.

use crate::common::*;
use crate::c11::zonegen;
use dns_types::hosts::types::Hosts;
use dns_types::zones::types::Zone;
use serde_json::{json, Value};
use std::collections::BTreeMap;
use std::io::{BufRead, BufReader, Read, Write};
use std::process::{Command, Stdio};
use std::sync::atomic::{AtomicBool, AtomicU64, Ordering};
use std::sync::Arc;
use std::time::{Duration, Instant};

const ZONE_ALPHABET: [&str; 26] = [
    "a", "1", ".", "@", "*", "$", "\\", "\"", "(", ")", ";", "#", " ", "\t", "\n", "\r", "\0", "é", "😀", "IN", "A",
    "SOA", "$ORIGIN", "$INCLUDE", "300", "99999999999",
];
const HOSTS_ALPHABET: [&str; 14] = [
    "a", "1", ".", ":", "#", "%", " ", "\t", "\n", "\r", "\0", "é", "127.0.0.1", "fe80::2",
];

#[derive(Copy, Clone, PartialEq, Eq, Debug)]
enum Parser {
    ZoneP,
    HostsP,
}
impl Parser {
    fn name(self) -> &'static str {
        match self {
            Parser::ZoneP => "zone",
            Parser::HostsP => "hosts",
        }
    }
    fn from(s: &str) -> Option<Parser> {
        match s {
            "zone" => Some(Parser::ZoneP),
            "hosts" => Some(Parser::HostsP),
            _ => None,
        }
    }
    fn alphabet(self) -> &'static [&'static str] {
        match self {
            Parser::ZoneP => &ZONE_ALPHABET,
            Parser::HostsP => &HOSTS_ALPHABET,
        }
    }
}

/// Outcome class of one call (never formats the error: errors may hold the
/// whole input).
fn classify(p: Parser, text: &str) -> &'static str {
    match p {
        Parser::ZoneP => {
            use dns_types::zones::deserialise::Error as E;
            match Zone::deserialise(text) {
                Ok(z) => {
                    if z.all_records().is_empty() && z.all_wildcard_records().is_empty() {
                        "ok-empty"
                    } else {
                        "ok-records"
                    }
                }
                Err(e) => match e {
                    E::TokeniserUnexpected { .. } => "err:TokeniserUnexpected",
                    E::TokeniserUnexpectedEscape { .. } => "err:TokeniserUnexpectedEscape",
                    E::IncludeNotSupported { .. } => "err:IncludeNotSupported",
                    E::MultipleSOA => "err:MultipleSOA",
                    E::WildcardSOA => "err:WildcardSOA",
                    E::NotSubdomainOfApex { .. } => "err:NotSubdomainOfApex",
                    E::Unexpected { .. } => "err:Unexpected",
                    E::ExpectedU32 { .. } => "err:ExpectedU32",
                    E::ExpectedOrigin => "err:ExpectedOrigin",
                    E::ExpectedDomainName { .. } => "err:ExpectedDomainName",
                    E::WrongLen { .. } => "err:WrongLen",
                    E::MissingType { .. } => "err:MissingType",
                    E::MissingTTL { .. } => "err:MissingTTL",
                    E::MissingDomainName { .. } => "err:MissingDomainName",
                },
            }
        }
        Parser::HostsP => {
            use dns_types::hosts::deserialise::Error as E;
            match Hosts::deserialise(text) {
                Ok(h) => {
                    if h.v4.is_empty() && h.v6.is_empty() {
                        "ok-empty"
                    } else {
                        "ok-records"
                    }
                }
                Err(e) => match e {
                    E::ExpectedAscii { .. } => "err:ExpectedAscii",
                    E::CouldNotParseAddress { .. } => "err:CouldNotParseAddress",
                    E::CouldNotParseName { .. } => "err:CouldNotParseName",
                },
            }
        }
    }
}

// ---------------------------------------------------------------------------
// input families, all addressed by (family, index)
// ---------------------------------------------------------------------------

fn zone_bases() -> Vec<String> {
    let mut v: Vec<String> = vec![
        "$ORIGIN ex.\n@ 60 IN SOA ns1 admin 1 2 3 4 60\n".into(),
        "www 300 IN A 10.0.0.1\n".into(),
        "* 5 IN TXT \"a b\"\n".into(),
        "$ORIGIN ex.\nwww IN 5 MX 10 mail ; c\n A 10.0.0.1\n".into(),
        "@ IN SOA a b ( 1 2\n 3 4 5 )\n".into(),
        "a.b. 1 IN TXT \\\"\\065\\\\\n".into(),
        "$INCLUDE f.zone ex.\n".into(),
        "*.w.ex. 1 SRV 0 0 80 @\n".into(),
    ];
    v.extend(zonegen::base_corpus());
    v
}

fn hosts_bases() -> Vec<String> {
    vec![
        "127.0.0.1 localhost\n".into(),
        "::1 ip6-localhost ip6-loopback\n".into(),
        "10.0.0.1 a.b c # comment\n".into(),
        "fe80::1%eth0 x\n".into(),
        "# only a comment\n\n1.2.3.4\tfoo.bar.\tbaz\r\n".into(),
        "1.2.3.4 a#b\n".into(),
        "127.0.0.1\tlocalhost localhost.localdomain\n::1\t\tlocalhost ip6-localhost\nff02::1 ip6-allnodes\nff02::2 ip6-allrouters\n\n# The following lines are desirable for IPv6 capable hosts\n192.168.1.10   nas.lan nas   # storage\n0.0.0.0 ads.example.com tracker.example.net\n::ffff:10.1.2.3 mapped.lan\n".into(),
    ]
}

fn bases(p: Parser) -> Vec<String> {
    match p {
        Parser::ZoneP => zone_bases(),
        Parser::HostsP => hosts_bases(),
    }
}

/// Number of single edits of a text of `n` units with `s` symbols:
/// insert at n+1 places, substitute at n places (s symbols each), delete at n.
fn edits(n: usize, s: usize) -> usize {
    (2 * n + 1) * s + n
}

/// Apply edit number `e` to `units`; `None` when the position lies outside.
fn apply_edit(units: &[String], alphabet: &[&str], e: usize) -> Option<Vec<String>> {
    let n = units.len();
    let s = alphabet.len();
    let mut out: Vec<String> = units.to_vec();
    if e < (n + 1) * s {
        let pos = e / s;
        out.insert(pos, alphabet[e % s].to_string());
    } else if e < (2 * n + 1) * s {
        let e = e - (n + 1) * s;
        let pos = e / s;
        if out[pos] == alphabet[e % s] {
            return None; // no change
        }
        out[pos] = alphabet[e % s].to_string();
    } else if e < edits(n, s) {
        let pos = e - (2 * n + 1) * s;
        out.remove(pos);
    } else {
        return None;
    }
    Some(out)
}

const N_EXTREMES: usize = 34;

fn extreme(i: usize) -> Option<(Parser, &'static str, String)> {
    let mib = 1usize << 20;
    let z = Parser::ZoneP;
    let h = Parser::HostsP;
    let rep = |s: &str, n: usize| s.repeat(n);
    Some(match i {
        0 => (z, "one token of 1 MiB", rep("a", mib)),
        1 => (z, "owner of 1 MiB in a record", format!("{} 300 IN A 10.0.0.1\n", rep("a", mib))),
        2 => (z, "one line of 1 MiB (512 Ki tokens)", rep("a ", mib / 2)),
        3 => (z, "TXT string of 1 MiB", format!("a. 300 IN TXT \"{}\"\n", rep("x", mib))),
        4 => (z, "10^5 opening parentheses", rep("(", 100_000)),
        5 => (z, "10^5 opening parentheses on separate lines", rep("(\n", 100_000)),
        6 => (z, "( then 10^5 line breaks then )", format!("a. 300 IN A ({}10.0.0.1 )\n", rep("\n", 100_000))),
        7 => (z, "10^5+1 backslashes at end of input", rep("\\", 100_001)),
        8 => (z, "record followed by 10^5 backslashes", format!("a. 300 IN TXT {}", rep("\\", 100_000))),
        9 => (z, "10^6 blank lines", rep("\n", 1_000_000)),
        10 => (z, "10^6 comment lines", rep("; c\n", 1_000_000)),
        11 => (z, "10^6 identical record lines", rep("a. 300 IN A 10.0.0.1\n", 1_000_000)),
        12 => (z, "10^5 distinct record lines", (0..100_000).map(|i| format!("h{i}.ex. 300 IN A 10.0.0.1\n")).collect()),
        13 => (z, "1 MiB of double quotes", rep("\"", mib)),
        14 => (z, "unterminated quoted string of 1 MiB", format!("a. 300 IN TXT \"{}", rep("x", mib))),
        15 => (z, "1 MiB of semicolons", rep(";", mib)),
        16 => (z, "10^5 decimal escapes in one token", format!("a. 300 IN TXT {}\n", rep("\\000", 100_000))),
        17 => (z, "1 MiB of NUL", rep("\0", mib)),
        18 => (z, "1 MiB of non-ASCII", rep("é", mib / 2)),
        19 => (z, "name of 10^5 labels", format!("{} 300 IN A 10.0.0.1\n", rep("a.", 100_000))),
        20 => (z, "10^5 $ORIGIN lines, each relative to the one before", format!("$ORIGIN a.\n{}", rep("$ORIGIN a\n", 100_000))),
        21 => (z, "10^6 closing parentheses", rep(")", 1_000_000)),
        22 => (z, "record with 10^5 RDATA fields", format!("a. 300 IN TXT{}\n", rep(" x", 100_000))),
        23 => (z, "1 MiB of CR", rep("\r", mib)),
        24 => (h, "address token of 1 MiB", rep("1", mib)),
        25 => (h, "name of 1 MiB", format!("1.2.3.4 {}\n", rep("a", mib))),
        26 => (h, "line of 1 MiB of names", format!("1.2.3.4 {}\n", rep("a ", mib / 2))),
        27 => (h, "10^6 lines", rep("127.0.0.1 a\n", 1_000_000)),
        28 => (h, "10^6 comment lines", rep("# c\n", 1_000_000)),
        29 => (h, "10^5 distinct names", (0..100_000).map(|i| format!("10.0.0.1 h{i}.lan\n")).collect()),
        30 => (h, "1 MiB of #", rep("#", mib)),
        31 => (h, "1 MiB of %", rep("%", mib)),
        32 => (h, "1 MiB of blanks", rep(" \t", mib / 2)),
        33 => (h, "name of 10^5 labels", format!("1.2.3.4 {}\n", rep("a.", 100_000))),
        _ => return None,
    })
}

#[derive(Clone, Debug)]
enum Family {
    /// every string of exactly `len` symbols
    Enum { p: Parser, len: u32 },
    /// single edits of base file `file`
    Edit1 { p: Parser, file: usize },
    /// ordered pairs of edits of base file `file`
    Edit2 { p: Parser, file: usize },
    Extreme,
}

impl Family {
    fn args(&self) -> Vec<String> {
        match self {
            Family::Enum { p, len } => vec!["enum".into(), p.name().into(), len.to_string()],
            Family::Edit1 { p, file } => vec!["edit1".into(), p.name().into(), file.to_string()],
            Family::Edit2 { p, file } => vec!["edit2".into(), p.name().into(), file.to_string()],
            Family::Extreme => vec!["extreme".into(), "-".into(), "0".into()],
        }
    }
    fn parse(args: &[String]) -> Option<Family> {
        let n: usize = args.get(2)?.parse().ok()?;
        match args.first()?.as_str() {
            "enum" => Some(Family::Enum { p: Parser::from(args.get(1)?)?, len: n as u32 }),
            "edit1" => Some(Family::Edit1 { p: Parser::from(args.get(1)?)?, file: n }),
            "edit2" => Some(Family::Edit2 { p: Parser::from(args.get(1)?)?, file: n }),
            "extreme" => Some(Family::Extreme),
            _ => None,
        }
    }
    fn units_of(p: Parser, file: usize) -> Vec<String> {
        bases(p).get(file).map(|t| t.chars().map(|c| c.to_string()).collect()).unwrap_or_default()
    }
    fn size(&self) -> u64 {
        match self {
            Family::Enum { p, len } => (p.alphabet().len() as u64).pow(*len),
            Family::Edit1 { p, file } => edits(Self::units_of(*p, *file).len(), p.alphabet().len()) as u64,
            Family::Edit2 { p, file } => {
                let n = Self::units_of(*p, *file).len();
                let s = p.alphabet().len();
                edits(n, s) as u64 * edits(n + 1, s) as u64
            }
            Family::Extreme => N_EXTREMES as u64,
        }
    }
    fn describe(&self) -> String {
        match self {
            Family::Enum { p, len } => format!("{}:all-strings-of-{len}-symbols", p.name()),
            Family::Edit1 { p, file } => format!("{}:single-edits-of-base-{file}", p.name()),
            Family::Edit2 { p, file } => format!("{}:double-edits-of-base-{file}", p.name()),
            Family::Extreme => "size-extremes".into(),
        }
    }
}

/// Generator with per-family cached state (the child builds it once).
struct Gen {
    fam: Family,
    units: Vec<String>,
}

impl Gen {
    fn new(fam: Family) -> Gen {
        let units = match &fam {
            Family::Edit1 { p, file } | Family::Edit2 { p, file } => Family::units_of(*p, *file),
            _ => Vec::new(),
        };
        Gen { fam, units }
    }
    /// (parser, input) of case `idx`; `None` if the index denotes no input.
    fn input(&self, idx: u64, buf: &mut String) -> Option<Parser> {
        buf.clear();
        match &self.fam {
            Family::Enum { p, len } => {
                let a = p.alphabet();
                let mut i = idx;
                for _ in 0..*len {
                    buf.push_str(a[(i % a.len() as u64) as usize]);
                    i /= a.len() as u64;
                }
                Some(*p)
            }
            Family::Edit1 { p, .. } => {
                let out = apply_edit(&self.units, p.alphabet(), idx as usize)?;
                for u in &out {
                    buf.push_str(u);
                }
                Some(*p)
            }
            Family::Edit2 { p, .. } => {
                let s = p.alphabet().len();
                let e2n = edits(self.units.len() + 1, s) as u64;
                let first = apply_edit(&self.units, p.alphabet(), (idx / e2n) as usize)?;
                let e2 = (idx % e2n) as usize;
                if e2 >= edits(first.len(), s) {
                    return None;
                }
                let out = apply_edit(&first, p.alphabet(), e2)?;
                for u in &out {
                    buf.push_str(u);
                }
                Some(*p)
            }
            Family::Extreme => {
                let (p, _, text) = extreme(idx as usize)?;
                buf.push_str(&text);
                Some(p)
            }
        }
    }
}

// ---------------------------------------------------------------------------
// child process
// ---------------------------------------------------------------------------

fn process_cpu_ms() -> u64 {
    let mut ts = libc::timespec { tv_sec: 0, tv_nsec: 0 };
    // SAFETY: plain syscall wrapper writing into a local struct
    let r = unsafe { libc::clock_gettime(libc::CLOCK_PROCESS_CPUTIME_ID, &mut ts) };
    if r != 0 {
        return 0;
    }
    ts.tv_sec as u64 * 1000 + ts.tv_nsec as u64 / 1_000_000
}

const PROGRESS_EVERY: u64 = 1 << 16;

/// `vcheck worker C17 <family> <parser> <n> <start> <end> <hang_limit_ms>`
pub fn worker(args: &[String]) -> i32 {
    if args.first().map(String::as_str) == Some("loader") {
        // `vcheck worker C17 loader <case index> <directory>`
        let idx: usize = args.get(1).and_then(|s| s.parse().ok()).unwrap_or(usize::MAX);
        let dir = std::path::PathBuf::from(args.get(2).cloned().unwrap_or_default());
        std::panic::set_hook(Box::new(|_| {}));
        return match loader_cases().get(idx) {
            Some(c) => {
                match run_loader_case(&dir, c) {
                    Ok(true) => println!("LOADER some"),
                    Ok(false) => println!("LOADER none"),
                    Err(e) => println!("LOADER error {e}"),
                }
                0
            }
            None => 2,
        };
    }
    if args.first().map(String::as_str) == Some("loaderbatch") {
        // `vcheck worker C17 loaderbatch <directory> <limit ms> <case index>...`
        // one line `LOADER-START <idx>` before and `LOADER <idx> some|none|error ..` after each case;
        // a case that does not return within the limit ends the process with `LOADER <idx> hang`
        let dir = std::path::PathBuf::from(args.get(1).cloned().unwrap_or_default());
        let limit_ms: u64 = args.get(2).and_then(|s| s.parse().ok()).unwrap_or(20_000);
        let idxs: Vec<usize> = args.iter().skip(3).filter_map(|s| s.parse().ok()).collect();
        std::panic::set_hook(Box::new(|_| {}));
        let cases = loader_cases();
        let current = Arc::new(AtomicU64::new(u64::MAX));
        let started = Arc::new(std::sync::Mutex::new(Instant::now()));
        {
            let current = current.clone();
            let started = started.clone();
            std::thread::spawn(move || loop {
                std::thread::sleep(Duration::from_millis(100));
                let c = current.load(Ordering::SeqCst);
                if c != u64::MAX && started.lock().map(|t| t.elapsed()).unwrap_or_default() > Duration::from_millis(limit_ms) {
                    println!("LOADER {c} hang");
                    let _ = std::io::stdout().flush();
                    std::process::exit(3);
                }
            });
        }
        for idx in idxs {
            let Some(c) = cases.get(idx) else { return 2 };
            println!("LOADER-START {idx}");
            let _ = std::io::stdout().flush();
            if let Ok(mut t) = started.lock() {
                *t = Instant::now();
            }
            current.store(idx as u64, Ordering::SeqCst);
            let r = run_loader_case(&dir, c);
            current.store(u64::MAX, Ordering::SeqCst);
            match r {
                Ok(true) => println!("LOADER {idx} some"),
                Ok(false) => println!("LOADER {idx} none"),
                Err(e) => println!("LOADER {idx} error {e}"),
            }
            let _ = std::io::stdout().flush();
        }
        return 0;
    }
    let fam = match Family::parse(args) {
        Some(f) => f,
        None => return 2,
    };
    let start: u64 = args.get(3).and_then(|s| s.parse().ok()).unwrap_or(0);
    let end: u64 = args.get(4).and_then(|s| s.parse().ok()).unwrap_or(0);
    let hang_ms: u64 = args.get(5).and_then(|s| s.parse().ok()).unwrap_or(10_000);
    std::panic::set_hook(Box::new(|_| {}));
    let current = Arc::new(AtomicU64::new(start));
    let done = Arc::new(AtomicBool::new(false));
    let is_extreme = matches!(fam, Family::Extreme);
    let cur2 = current.clone();
    let done2 = done.clone();
    let handle = std::thread::Builder::new()
        .stack_size(2 << 20)
        .spawn(move || {
            let gen = Gen::new(fam);
            let mut hist: BTreeMap<&'static str, u64> = BTreeMap::new();
            let mut panics: Vec<u64> = Vec::new();
            let mut slowest: (u64, u64) = (0, 0);
            let mut none = 0u64;
            let mut buf = String::new();
            let out = std::io::stdout();
            let mut idx = start;
            while idx < end {
                cur2.store(idx, Ordering::Relaxed);
                if idx % PROGRESS_EVERY == 0 || is_extreme {
                    let mut o = out.lock();
                    let _ = writeln!(o, "P {idx}");
                    let _ = o.flush();
                }
                match gen.input(idx, &mut buf) {
                    None => none += 1,
                    Some(p) => {
                        let t0 = Instant::now();
                        let r = std::panic::catch_unwind(|| classify(p, &buf));
                        let us = t0.elapsed().as_micros() as u64;
                        if us > slowest.0 {
                            slowest = (us, idx);
                        }
                        match r {
                            Ok(c) => *hist.entry(c).or_insert(0) += 1,
                            Err(_) => {
                                if panics.len() < 50 {
                                    panics.push(idx);
                                }
                                *hist.entry("PANIC").or_insert(0) += 1;
                            }
                        }
                    }
                }
                idx += 1;
            }
            done2.store(true, Ordering::Relaxed);
            let mut o = out.lock();
            let _ = writeln!(
                o,
                "DONE {}",
                json!({"hist": hist, "panics": panics, "slowest_us": slowest.0, "slowest_idx": slowest.1, "no_input": none})
            );
            let _ = o.flush();
        });
    let handle = match handle {
        Ok(h) => h,
        Err(_) => return 2,
    };
    // watchdog: the same input for longer than the limit is a hang.  The
    // limit is counted in CPU time of this process (only the worker thread
    // computes), so that a machine busy with other work cannot fake a hang; a
    // wall-clock limit twenty times as long catches a thread that sleeps.
    let mut last = (u64::MAX, process_cpu_ms(), Instant::now());
    loop {
        std::thread::sleep(Duration::from_millis(50));
        if handle.is_finished() {
            break;
        }
        let c = current.load(Ordering::Relaxed);
        if c != last.0 {
            last = (c, process_cpu_ms(), Instant::now());
        } else if !done.load(Ordering::Relaxed)
            && (process_cpu_ms().saturating_sub(last.1) > hang_ms || last.2.elapsed() > Duration::from_millis(hang_ms * 20))
        {
            println!("HANG {c}");
            let _ = std::io::stdout().flush();
            std::process::exit(3);
        }
    }
    match handle.join() {
        Ok(()) => 0,
        Err(_) => 4,
    }
}

// ---------------------------------------------------------------------------
// parent side
// ---------------------------------------------------------------------------

#[derive(Debug)]
enum ChildEnd {
    Done(Value),
    Hang(u64),
    /// abnormal exit: description, last progress mark
    Abnormal(String, u64),
    Timeout(u64),
    Spawn(String),
}

fn run_child(fam: &Family, start: u64, end: u64, hang_ms: u64, limit: Duration) -> ChildEnd {
    let exe = match std::env::current_exe() {
        Ok(e) => e,
        Err(e) => return ChildEnd::Spawn(e.to_string()),
    };
    let mut args = vec!["worker".to_string(), "C17".to_string()];
    args.extend(fam.args());
    args.push(start.to_string());
    args.push(end.to_string());
    args.push(hang_ms.to_string());
    let mut child = match Command::new(exe).args(&args).stdin(Stdio::null()).stdout(Stdio::piped()).stderr(Stdio::null()).spawn() {
        Ok(c) => c,
        Err(e) => return ChildEnd::Spawn(e.to_string()),
    };
    let stdout = child.stdout.take();
    let reader = std::thread::spawn(move || {
        let mut last_p = None;
        let mut done = None;
        let mut hang = None;
        if let Some(s) = stdout {
            for line in BufReader::new(s).lines().map_while(Result::ok) {
                if let Some(r) = line.strip_prefix("P ") {
                    last_p = r.trim().parse::<u64>().ok();
                } else if let Some(r) = line.strip_prefix("DONE ") {
                    done = serde_json::from_str::<Value>(r).ok();
                } else if let Some(r) = line.strip_prefix("HANG ") {
                    hang = r.trim().parse::<u64>().ok();
                }
            }
        }
        (last_p, done, hang)
    });
    let t0 = Instant::now();
    let status = loop {
        match child.try_wait() {
            Ok(Some(s)) => break Some(s),
            Ok(None) => {
                if t0.elapsed() > limit {
                    let _ = child.kill();
                    let _ = child.wait();
                    break None;
                }
                std::thread::sleep(Duration::from_millis(20));
            }
            Err(_) => break None,
        }
    };
    let (last_p, done, hang) = reader.join().unwrap_or((None, None, None));
    let mark = last_p.unwrap_or(start);
    match status {
        None => ChildEnd::Timeout(mark),
        Some(s) => {
            if let Some(h) = hang {
                return ChildEnd::Hang(h);
            }
            if s.success() {
                match done {
                    Some(d) => ChildEnd::Done(d),
                    None => ChildEnd::Abnormal("exit 0 without a result line".into(), mark),
                }
            } else {
                use std::os::unix::process::ExitStatusExt;
                let what = match (s.code(), s.signal()) {
                    (Some(c), _) => format!("exit code {c}"),
                    (None, Some(sig)) => format!("killed by signal {sig}"),
                    _ => "unknown exit".into(),
                };
                ChildEnd::Abnormal(what, mark)
            }
        }
    }
}

fn input_hex(fam: &Family, idx: u64) -> (String, String) {
    let g = Gen::new(fam.clone());
    let mut buf = String::new();
    match g.input(idx, &mut buf) {
        Some(p) => (p.name().to_string(), hex(buf.as_bytes())),
        None => ("-".into(), String::new()),
    }
}

fn replay_of(fam: &Family, idx: u64) -> Value {
    if matches!(fam, Family::Extreme) {
        let what = extreme(idx as usize).map(|x| x.1).unwrap_or("?");
        return json!({"kind": "extreme", "index": idx, "what": what});
    }
    let (p, h) = input_hex(fam, idx);
    json!({"kind": "text", "parser": p, "family": fam.describe(), "index": idx, "hex": h})
}

fn shown(fam: &Family, idx: u64) -> String {
    if matches!(fam, Family::Extreme) {
        return extreme(idx as usize).map(|x| format!("{} ({})", x.1, x.0.name())).unwrap_or_default();
    }
    let g = Gen::new(fam.clone());
    let mut buf = String::new();
    g.input(idx, &mut buf);
    let s: String = buf.chars().take(200).collect();
    format!("{:?}", s)
}

/// Narrow an abnormally ending range down to one index by re-running halves.
fn bisect(fam: &Family, mut lo: u64, mut hi: u64, hang_ms: u64, limit: Duration) -> Option<(u64, String)> {
    let mut why = String::new();
    while hi - lo > 1 {
        let mid = lo + (hi - lo) / 2;
        match run_child(fam, lo, mid, hang_ms, limit) {
            ChildEnd::Done(_) => lo = mid,
            ChildEnd::Hang(i) => return Some((i, "no progress (watchdog)".into())),
            ChildEnd::Abnormal(w, _) => {
                why = w;
                hi = mid;
            }
            ChildEnd::Timeout(_) => {
                why = "time limit".into();
                hi = mid;
            }
            ChildEnd::Spawn(_) => return None,
        }
    }
    match run_child(fam, lo, lo + 1, hang_ms, limit) {
        ChildEnd::Done(_) => None, // not reproducible in isolation
        ChildEnd::Hang(i) => Some((i, "no progress (watchdog)".into())),
        ChildEnd::Abnormal(w, _) => Some((lo, w)),
        ChildEnd::Timeout(_) => Some((lo, "time limit".into())),
        ChildEnd::Spawn(_) => {
            let _ = why;
            None
        }
    }
}

#[derive(Default)]
struct Acc {
    inputs: u64,
    no_input: u64,
    hist: BTreeMap<String, u64>,
    machinery: Vec<String>,
    slowest: Vec<(u64, String, u64)>,
    /// family index -> (inputs run, indices covered)
    per_family: BTreeMap<usize, (u64, u64)>,
    jobs_cut: u64,
}

/// One child process worth of work.
struct Job {
    fam: usize,
    start: u64,
    end: u64,
}

fn run_job(ctx: &Ctx, sink: &Sink, fams: &[Family], job: &Job, acc: &mut Acc) {
    let fam = &fams[job.fam];
    let (start, end) = (job.start, job.end);
    let is_extreme = matches!(fam, Family::Extreme);
    let hang_ms: u64 = if is_extreme { 60_000 } else { 10_000 };
    let limit = Duration::from_secs(if is_extreme { 1500 } else { ctx.tier.pick(300, 900) });
    match run_child(fam, start, end, hang_ms, limit) {
        ChildEnd::Done(d) => {
            let mut n_in = 0;
            if let Some(h) = d["hist"].as_object() {
                for (k, v) in h {
                    let n = v.as_u64().unwrap_or(0);
                    n_in += n;
                    *acc.hist.entry(format!("{}:{k}", fam_parser(fam))).or_insert(0) += n;
                }
            }
            acc.inputs += n_in;
            acc.no_input += d["no_input"].as_u64().unwrap_or(0);
            let e = acc.per_family.entry(job.fam).or_insert((0, 0));
            e.0 += n_in;
            e.1 += end - start;
            acc.slowest.push((d["slowest_us"].as_u64().unwrap_or(0), fam.describe(), d["slowest_idx"].as_u64().unwrap_or(0)));
            for p in d["panics"].as_array().cloned().unwrap_or_default() {
                if let Some(i) = p.as_u64() {
                    sink.push(Violation {
                        clause: "panic".into(),
                        summary: format!("{} #{i}: {} makes the parser panic", fam.describe(), shown(fam, i)),
                        replay: replay_of(fam, i),
                        slug: None,
                    });
                }
            }
        }
        ChildEnd::Hang(i) => {
            sink.push(Violation {
                clause: "hang".into(),
                summary: format!("{} #{i}: {} not finished after {hang_ms} ms of CPU time", fam.describe(), shown(fam, i)),
                replay: replay_of(fam, i),
                slug: None,
            });
        }
        ChildEnd::Abnormal(why, mark) => {
            let lo = mark.max(start);
            let hi = (mark + PROGRESS_EVERY).min(end).max(lo + 1);
            match bisect(fam, lo, hi, hang_ms, limit) {
                Some((i, w)) => sink.push(Violation {
                    clause: "abnormal-exit".into(),
                    summary: format!("{} #{i}: {} ends the process: {w} (batch: {why})", fam.describe(), shown(fam, i)),
                    replay: replay_of(fam, i),
                    slug: None,
                }),
                None => sink.push(Violation {
                    clause: "abnormal-exit".into(),
                    summary: format!("{} range {start}..{end}: child ended with {why} after index {mark}; not reproducible on a single input", fam.describe()),
                    replay: json!({"kind": "range", "family": fam.describe(), "args": fam.args(), "start": start, "end": end}),
                    slug: None,
                }),
            }
        }
        ChildEnd::Timeout(mark) => {
            sink.push(Violation {
                clause: "time-limit".into(),
                summary: format!("{} range {start}..{end}: not finished within {:?}, last progress mark {mark}", fam.describe(), limit),
                replay: json!({"kind": "range", "family": fam.describe(), "args": fam.args(), "start": start, "end": end}),
                slug: None,
            });
        }
        ChildEnd::Spawn(e) => acc.machinery.push(e),
    }
}

fn fam_parser(f: &Family) -> &'static str {
    match f {
        Family::Enum { p, .. } | Family::Edit1 { p, .. } | Family::Edit2 { p, .. } => p.name(),
        Family::Extreme => "extreme",
    }
}

// ---------------------------------------------------------------------------
// load_zone_configuration on real files
// ---------------------------------------------------------------------------

struct LoaderCase {
    name: String,
    /// position in a long-token sweep (None: a hand-written case)
    sweep_k: Option<usize>,
    /// (file name, content) written as zone files
    zones: Vec<(&'static str, Vec<u8>)>,
    hosts: Vec<(&'static str, Vec<u8>)>,
    /// also pass a path that does not exist / a directory as a file
    missing_zone_file: bool,
    missing_hosts_dir: bool,
    dir_as_file: bool,
    /// pass the files through a directory (-Z / -A) instead of one by one
    via_dir: bool,
    expect_some: bool,
}

fn loader_cases() -> Vec<LoaderCase> {
    let good_zone: &[u8] = b"$ORIGIN ex.\n@ 60 IN SOA ns1 admin 1 2 3 4 60\nwww 300 IN A 10.0.0.1\n";
    let good_hosts: &[u8] = b"127.0.0.1 localhost\n";
    let z = |name: &str, content: &[u8]| LoaderCase {
        name: name.to_string(),
        sweep_k: None,
        zones: vec![("10-good.zone", good_zone.to_vec()), ("20-bad.zone", content.to_vec())],
        hosts: vec![("hosts", good_hosts.to_vec())],
        missing_zone_file: false,
        missing_hosts_dir: false,
        dir_as_file: false,
        via_dir: false,
        expect_some: false,
    };
    let h = |name: &str, content: &[u8]| LoaderCase {
        name: name.to_string(),
        sweep_k: None,
        zones: vec![("10-good.zone", good_zone.to_vec())],
        hosts: vec![("10-good", good_hosts.to_vec()), ("20-bad", content.to_vec())],
        missing_zone_file: false,
        missing_hosts_dir: false,
        dir_as_file: false,
        via_dir: false,
        expect_some: false,
    };
    let mut v = vec![
        z("zone:TokeniserUnexpected", "www.ex. 300 IN TXT caf\u{e9}\n".as_bytes()),
        z("zone:TokeniserUnexpectedEscape", b"www.ex. 300 IN TXT a\\25b\n"),
        z("zone:IncludeNotSupported", b"$INCLUDE other.zone\n"),
        z("zone:MultipleSOA", b"a. 60 IN SOA a. a. 1 2 3 4 5\na. 60 IN SOA a. a. 1 2 3 4 5\n"),
        z("zone:WildcardSOA", b"*.a. 60 IN SOA a. a. 1 2 3 4 5\n"),
        z("zone:NotSubdomainOfApex", b"a. 60 IN SOA a. a. 1 2 3 4 5\nb. 60 IN A 10.0.0.1\n"),
        z("zone:Unexpected", b"www.ex. 300 CH A 10.0.0.1\n"),
        z("zone:ExpectedU32", b"www.ex. 4294967296 IN A 10.0.0.1\n"),
        z("zone:ExpectedOrigin", b"www 300 IN A 10.0.0.1\n"),
        z("zone:ExpectedDomainName", b"a..b. 300 IN A 10.0.0.1\n"),
        z("zone:WrongLen", b"$ORIGIN\n"),
        z("zone:MissingType", b"www.ex. 300 IN FOO bar\n"),
        z("zone:MissingTTL", b"www.ex. IN A 10.0.0.1\n"),
        z("zone:MissingDomainName", b" 300 IN A 10.0.0.1\n"),
        z("zone:unbalanced-parenthesis", b"www.ex. 300 IN A 10.0.0.1 )\n"),
        z("zone:not-utf8", &[b'w', b'.', b' ', 0xff, 0xfe, b'\n']),
        z("zone:one-MiB-of-parentheses", "(".repeat(1 << 20).as_bytes()),
        h("hosts:ExpectedAscii", "1.2.3.4 caf\u{e9}\n".as_bytes()),
        h("hosts:CouldNotParseAddress", b"1.2.3.999 a\n"),
        h("hosts:CouldNotParseName", b"1.2.3.4 a..b\n"),
        h("hosts:not-utf8", &[b'1', b'.', b'2', b'.', b'3', b'.', b'4', b' ', 0xc3, 0x28, b'\n']),
    ];
    let mut c = z("io:missing-zone-file", good_zone);
    c.missing_zone_file = true;
    v.push(c);
    let mut c = z("io:missing-hosts-directory", good_zone);
    c.missing_hosts_dir = true;
    v.push(c);
    let mut c = z("io:directory-given-as-zone-file", good_zone);
    c.dir_as_file = true;
    v.push(c);
    // the same error classes found inside a directory
    let mut c = z("dir:zone:MissingType", b"www.ex. 300 IN FOO bar\n");
    c.via_dir = true;
    v.push(c);
    let mut c = h("dir:hosts:CouldNotParseAddress", b"1.2.3.999 a\n");
    c.via_dir = true;
    v.push(c);
    // controls: good files load
    let mut c = z("control:good-files", b"other. 300 IN A 10.0.0.2\n");
    c.expect_some = true;
    v.push(c);
    let mut c = z("control:good-files-in-directories", b"other. 300 IN A 10.0.0.2\n");
    c.expect_some = true;
    c.via_dir = true;
    v.push(c);
    // long-token sweeps: an unusable file whose error report quotes a token of
    // every length 0..=SWEEP_MAX that ends in a character which is more than
    // one byte of UTF-8 (written as an escape, so the file itself is ASCII, or
    // raw), so that whatever the loader does with the text of the error - cut
    // it, pad it, index it - meets a character boundary at every offset
    for k in 0..=SWEEP_MAX {
        let a = "a".repeat(k);
        let shapes: [(&str, bool, String); 6] = [
            ("sweep:zone:relative-owner-escape", true, format!("{a}\\233 300 IN A 10.0.0.1\n")),
            ("sweep:zone:unknown-type-rdata-escape", true, format!("www.ex. 300 IN FOO {a}\\233\n")),
            ("sweep:zone:raw-non-ascii", true, format!("{a}\u{e9} 300 IN A 10.0.0.1\n")),
            ("sweep:zone:bad-escape-after-token", true, format!("www.ex. 300 IN TXT {a}\\233\\25b\n")),
            ("sweep:hosts:bad-name", false, format!("1.2.3.4 {a}..b\n")),
            ("sweep:hosts:raw-non-ascii", false, format!("1.2.3.4 {a}\u{e9}\n")),
        ];
        for (name, is_zone, content) in shapes {
            let mut c = if is_zone {
                z(&format!("{name}:{k}"), content.as_bytes())
            } else {
                h(&format!("{name}:{k}"), content.as_bytes())
            };
            c.sweep_k = Some(k);
            v.push(c);
        }
    }
    v
}

/// longest token of the loader sweeps (thorough); quick stops at SWEEP_QUICK
const SWEEP_MAX: usize = 1100;
const SWEEP_QUICK: usize = 300;

/// Ok(true): loaded (Some), Ok(false): refused (None), Err: panic
fn run_loader_case(dir: &std::path::Path, c: &LoaderCase) -> Result<bool, String> {
    let base = dir.join(c.name.replace([':', '/'], "_"));
    let zdir = base.join("zones");
    let hdir = base.join("hosts");
    std::fs::create_dir_all(&zdir).map_err(|e| format!("setup: {e}"))?;
    std::fs::create_dir_all(&hdir).map_err(|e| format!("setup: {e}"))?;
    let mut zone_files = Vec::new();
    let mut hosts_files = Vec::new();
    for (n, content) in &c.zones {
        let p = zdir.join(n);
        std::fs::write(&p, content).map_err(|e| format!("setup: {e}"))?;
        zone_files.push(p);
    }
    for (n, content) in &c.hosts {
        let p = hdir.join(n);
        std::fs::write(&p, content).map_err(|e| format!("setup: {e}"))?;
        hosts_files.push(p);
    }
    let mut zone_dirs = Vec::new();
    let mut hosts_dirs = Vec::new();
    if c.via_dir {
        zone_files.clear();
        hosts_files.clear();
        zone_dirs.push(zdir.clone());
        hosts_dirs.push(hdir.clone());
    }
    if c.missing_zone_file {
        zone_files.push(base.join("does-not-exist.zone"));
    }
    if c.missing_hosts_dir {
        hosts_dirs.push(base.join("no-such-directory"));
    }
    if c.dir_as_file {
        zone_files.push(zdir.clone());
    }
    // a subscriber that formats every event and field, as the server's does
    // (the formatted text goes nowhere): without one, the arguments of the
    // loader's log lines would never be rendered
    let subscriber = tracing_subscriber::fmt()
        .with_max_level(tracing::Level::TRACE)
        .with_writer(std::io::sink)
        .finish();
    let r = std::panic::catch_unwind(std::panic::AssertUnwindSafe(|| {
        tracing::subscriber::with_default(subscriber, || {
            let rt = tokio::runtime::Builder::new_current_thread().enable_all().build().expect("runtime");
            rt.block_on(resolved::fs::load_zone_configuration(&hosts_files, &hosts_dirs, &zone_files, &zone_dirs))
                .is_some()
        })
    }));
    r.map_err(|_| "panic".to_string())
}

/// Run loader case `idx` in a child process; Err = panic, crash or no answer in time.
fn loader_in_child(dir: &std::path::Path, idx: usize, limit: Duration) -> Result<bool, String> {
    let exe = std::env::current_exe().map_err(|e| e.to_string())?;
    let mut child = Command::new(exe)
        .args(["worker", "C17", "loader", &idx.to_string(), &dir.display().to_string()])
        .stdin(Stdio::null())
        .stdout(Stdio::piped())
        .stderr(Stdio::null())
        .spawn()
        .map_err(|e| format!("cannot start the worker: {e}"))?;
    let t0 = Instant::now();
    loop {
        match child.try_wait() {
            Ok(Some(status)) => {
                let mut out = String::new();
                if let Some(mut s) = child.stdout.take() {
                    let _ = s.read_to_string(&mut out);
                }
                return if out.contains("LOADER some") {
                    Ok(true)
                } else if out.contains("LOADER none") {
                    Ok(false)
                } else if out.contains("LOADER error") {
                    Err(out.trim().to_string())
                } else {
                    Err(format!("worker ended abnormally ({status})"))
                };
            }
            Ok(None) => {
                if t0.elapsed() > limit {
                    let _ = child.kill();
                    let _ = child.wait();
                    return Err(format!("no answer within {limit:?}"));
                }
                std::thread::sleep(Duration::from_millis(20));
            }
            Err(e) => return Err(e.to_string()),
        }
    }
}

/// Run the loader cases `idxs` in as few child processes as it takes: a child
/// that dies or hangs in a case yields an error for that case and the rest of
/// the list goes to a fresh child.
fn loader_batch_in_children(dir: &std::path::Path, idxs: &[usize], limit: Duration) -> Vec<(usize, Result<bool, String>)> {
    let mut out: Vec<(usize, Result<bool, String>)> = Vec::new();
    let mut rest: Vec<usize> = idxs.to_vec();
    while !rest.is_empty() {
        let exe = match std::env::current_exe() {
            Ok(e) => e,
            Err(e) => {
                out.extend(rest.iter().map(|&i| (i, Err(format!("cannot start the worker: {e}")))));
                break;
            }
        };
        let mut args: Vec<String> = vec![
            "worker".into(),
            "C17".into(),
            "loaderbatch".into(),
            dir.display().to_string(),
            limit.as_millis().to_string(),
        ];
        args.extend(rest.iter().map(|i| i.to_string()));
        let output = Command::new(exe).args(&args).stdin(Stdio::null()).stderr(Stdio::null()).output();
        let output = match output {
            Ok(o) => o,
            Err(e) => {
                out.extend(rest.iter().map(|&i| (i, Err(format!("cannot start the worker: {e}")))));
                break;
            }
        };
        let text = String::from_utf8_lossy(&output.stdout).to_string();
        let mut done: BTreeMap<usize, Result<bool, String>> = BTreeMap::new();
        let mut last_started: Option<usize> = None;
        for line in text.lines() {
            let mut it = line.splitn(3, ' ');
            match (it.next(), it.next().and_then(|x| x.parse::<usize>().ok()), it.next()) {
                (Some("LOADER-START"), Some(i), _) => last_started = Some(i),
                (Some("LOADER"), Some(i), Some("some")) => {
                    done.insert(i, Ok(true));
                }
                (Some("LOADER"), Some(i), Some("none")) => {
                    done.insert(i, Ok(false));
                }
                (Some("LOADER"), Some(i), Some("hang")) => {
                    done.insert(i, Err(format!("no answer within {limit:?}")));
                }
                (Some("LOADER"), Some(i), Some(e)) => {
                    done.insert(i, Err(e.to_string()));
                }
                _ => {}
            }
        }
        if let Some(i) = last_started {
            done.entry(i).or_insert_with(|| Err(format!("worker ended abnormally ({})", output.status)));
        }
        let before = rest.len();
        rest.retain(|i| !done.contains_key(i));
        out.extend(done);
        if rest.len() == before {
            // the child did not even start the first case
            out.extend(rest.iter().map(|&i| (i, Err(format!("worker ended abnormally ({}) before the case", output.status)))));
            break;
        }
    }
    out
}

// ---------------------------------------------------------------------------

pub fn run(ctx: &Ctx) -> i32 {
    let sink = Sink::new(5000);
    let mut report = Report::new();
    let mut total = Acc::default();
    let mut exhaustive = true;
    let cap = ctx.tier.pick(45.0, 540.0);
    let thorough = ctx.tier == Tier::Thorough;

    // the order: cheap families first, the largest enumeration last
    let mut fams: Vec<Family> = vec![Family::Extreme];
    for p in [Parser::ZoneP, Parser::HostsP] {
        for file in 0..bases(p).len() {
            fams.push(Family::Edit1 { p, file });
        }
    }
    let zone_len = ctx.tier.pick(5, 6);
    let hosts_len = ctx.tier.pick(6, 8);
    for len in 0..=hosts_len {
        fams.push(Family::Enum { p: Parser::HostsP, len });
    }
    for len in 0..=zone_len {
        fams.push(Family::Enum { p: Parser::ZoneP, len });
    }
    if thorough {
        for p in [Parser::ZoneP, Parser::HostsP] {
            for (file, t) in bases(p).iter().enumerate() {
                if t.chars().count() <= 64 {
                    fams.push(Family::Edit2 { p, file });
                }
            }
        }
    }
    // job list: one child process per job; sizes chosen so that a job takes
    // of the order of a second (process creation is the expensive part)
    let mut jobs: Vec<Job> = Vec::new();
    for (fi, fam) in fams.iter().enumerate() {
        let size = fam.size();
        let per_job: u64 = match fam {
            Family::Extreme => 1,
            Family::Enum { .. } => 3_000_000,
            Family::Edit1 { .. } => 30_000,
            Family::Edit2 { .. } => 1_500_000,
        };
        let mut start = 0;
        while start < size {
            let end = (start + per_job).min(size);
            jobs.push(Job { fam: fi, start, end });
            start = end;
        }
    }
    // the long jobs first
    jobs.sort_by_key(|j| std::cmp::Reverse(if matches!(fams[j.fam], Family::Extreme) { u64::MAX } else { j.end - j.start }));
    let parts = zonegen::par_jobs(jobs.len(), ctx.threads, Acc::default, |acc, i| {
        if ctx.elapsed() > cap {
            acc.jobs_cut += 1;
            return;
        }
        run_job(ctx, &sink, &fams, &jobs[i], acc);
    });
    for p in parts {
        total.inputs += p.inputs;
        total.no_input += p.no_input;
        total.jobs_cut += p.jobs_cut;
        for (k, v) in p.hist {
            *total.hist.entry(k).or_insert(0) += v;
        }
        for (k, v) in p.per_family {
            let e = total.per_family.entry(k).or_insert((0, 0));
            e.0 += v.0;
            e.1 += v.1;
        }
        total.machinery.extend(p.machinery);
        total.slowest.extend(p.slowest);
    }
    if total.jobs_cut > 0 {
        exhaustive = false;
    }
    let mut sizes: BTreeMap<String, Value> = BTreeMap::new();
    for (fi, fam) in fams.iter().enumerate() {
        let (inputs, covered) = total.per_family.get(&fi).copied().unwrap_or((0, 0));
        if covered != fam.size() && !sink.is_empty() {
            // a failing job does not report counts; the violation says why
        } else if covered != fam.size() {
            exhaustive = false;
        }
        sizes.insert(
            fam.describe(),
            json!({"index_space": fam.size(), "indices_covered": covered, "inputs_run": inputs, "complete": covered == fam.size()}),
        );
    }
    sizes.insert("jobs".into(), json!({"total": jobs.len(), "cut_by_time_cap": total.jobs_cut, "done_at_s": ctx.elapsed()}));
    if !total.machinery.is_empty() {
        eprintln!("machinery error: cannot run the worker process: {}", total.machinery[0]);
        return 2;
    }

    // load_zone_configuration on real files, each case in a child process
    // with a time limit (a parser that never returns must not stop the check)
    let dir = work_dir("c17");
    let cases = loader_cases();
    let sweep_limit = if ctx.tier == Tier::Thorough { SWEEP_MAX } else { SWEEP_QUICK };
    let selected: Vec<usize> = (0..cases.len()).filter(|&i| cases[i].sweep_k.map_or(true, |k| k <= sweep_limit)).collect();
    let batches: Vec<&[usize]> = selected.chunks(64).collect();
    let loader_results = zonegen::par_jobs(batches.len(), ctx.threads, Vec::new, |acc: &mut Vec<(usize, Result<bool, String>)>, j| {
        acc.extend(loader_batch_in_children(&dir, batches[j], Duration::from_secs(20)));
    });
    let mut results: Vec<(usize, Result<bool, String>)> = loader_results.into_iter().flatten().collect();
    results.sort_by_key(|r| r.0);
    let mut loader_samples = Vec::new();
    for (i, r) in results {
        let c = &cases[i];
        total.inputs += 1;
        let key = match (&r, c.expect_some) {
            (Ok(true), true) => "loader:control-loaded",
            (Ok(false), false) => "loader:refused-as-required",
            _ => "loader:VIOLATION",
        };
        *total.hist.entry(key.into()).or_insert(0) += 1;
        if loader_samples.len() < 2 {
            loader_samples.push(json!({"loader_case": c.name, "returned_some": r.clone().ok()}));
        }
        let bad = match (&r, c.expect_some) {
            (Ok(true), true) | (Ok(false), false) => None,
            (Ok(true), false) => Some("load_zone_configuration returned Some although one file is unusable".to_string()),
            (Ok(false), true) => Some("load_zone_configuration returned None for good files (control)".to_string()),
            (Err(e), _) if e.contains("setup: ") || e.contains("cannot start the worker") => {
                eprintln!("machinery error: loader case {}: {e}", c.name);
                return 2;
            }
            (Err(e), _) => Some(format!("load_zone_configuration: {e}")),
        };
        if let Some(why) = bad {
            sink.push(Violation {
                clause: if r.is_err() { "loader-crash-or-hang".into() } else { "loader".into() },
                summary: format!("loader case {}: {why}", c.name),
                replay: json!({"kind": "loader", "case": c.name}),
                slug: None,
            });
        }
    }
    let _ = std::fs::remove_dir_all(&dir);

    total.slowest.sort_by(|a, b| b.0.cmp(&a.0));
    total.slowest.truncate(5);
    let trivial = total.hist.iter().filter(|(k, _)| k.ends_with(":ok-empty")).map(|(_, v)| *v).sum::<u64>();
    report.evaluations = total.inputs;
    report.states = total.inputs;
    report.transitions = total.inputs;
    report.traces_validated = total.inputs;
    report.distinct_nontrivial = total.inputs - trivial;
    report.rule = format!(
        "every string of 0..={zone_len} symbols over the {}-symbol zone alphabet and of 0..={hosts_len} symbols over the {}-symbol hosts alphabet (distinct by construction: the multi-character symbols share no character with the others), every single symbol insertion/substitution/deletion at every position of {} zone and {} hosts base files{}, {} size extremes, {} loader cases; each input is one call of the real parser in a child process on a 2 MiB stack; an input is non-trivial when the parser did not simply return an empty result (it reached an error path or produced records); edit families may produce the same text twice, they are counted as inputs run",
        ZONE_ALPHABET.len(),
        HOSTS_ALPHABET.len(),
        zone_bases().len(),
        hosts_bases().len(),
        if thorough { ", every ordered pair of such edits of the base files of at most 64 characters" } else { "" },
        N_EXTREMES,
        loader_cases().len()
    );
    let mut samples = vec![
        json!({"family": "zone:all-strings-of-5-symbols", "index": 1234567, "input": shown(&Family::Enum { p: Parser::ZoneP, len: 5 }, 1234567)}),
        json!({"family": "hosts:all-strings-of-6-symbols", "index": 7654321, "input": shown(&Family::Enum { p: Parser::HostsP, len: 6 }, 7654321)}),
        json!({"family": "zone:single-edits-of-base-3", "index": 777, "input": shown(&Family::Edit1 { p: Parser::ZoneP, file: 3 }, 777)}),
        json!({"family": "size-extremes", "index": 7, "input": shown(&Family::Extreme, 7)}),
    ];
    samples.extend(loader_samples);
    report.samples = samples;
    report.bounds = json!({
        "zone_alphabet": ZONE_ALPHABET,
        "hosts_alphabet": HOSTS_ALPHABET,
        "zone_max_symbols": zone_len,
        "hosts_max_symbols": hosts_len,
        "families": sizes,
        "indices_without_input": total.no_input,
        "slowest_inputs_us": total.slowest.iter().map(|(us, f, i)| json!({"us": us, "family": f, "index": i})).collect::<Vec<_>>(),
        "stack_bytes": 2 << 20,
        "watchdog_cpu_ms": {"ordinary": 10_000, "size_extremes": 60_000, "wall_clock_factor": 20},
        "time_cap_s": cap,
    });
    report.exhaustive = exhaustive;
    report.outcome_histogram = total.hist;
    report.assumptions = vec![
        "a hang is an input on which the worker process spends 10 s of CPU time (60 s for the size extremes) or 20 times as much wall-clock time without finishing it".into(),
        "inputs are valid UTF-8 strings (the loader cases add files that are not)".into(),
        "memory exhaustion by huge legal inputs is outside the property (DESIGN section 10)".into(),
    ];
    report.violations = sink.take();
    finish(ctx, report)
}

pub fn replay(ctx: &Ctx, v: &Value) -> i32 {
    let kind = v["kind"].as_str().unwrap_or("");
    let (p, text): (Parser, String) = match kind {
        "text" => {
            let p = match Parser::from(v["parser"].as_str().unwrap_or("")) {
                Some(p) => p,
                None => return 2,
            };
            (p, String::from_utf8_lossy(&unhex(v["hex"].as_str().unwrap_or(""))).to_string())
        }
        "extreme" => match extreme(v["index"].as_u64().unwrap_or(0) as usize) {
            Some((p, what, t)) => {
                println!("size extreme: {what}");
                (p, t)
            }
            None => return 2,
        },
        "loader" => {
            let name = v["case"].as_str().unwrap_or("");
            let dir = work_dir("c17-replay");
            let mut code = 2;
            for c in loader_cases() {
                if c.name == name {
                    let idx = loader_cases().iter().position(|x| x.name == name).unwrap_or(0);
                    let r = loader_in_child(&dir, idx, Duration::from_secs(30));
                    println!("loader case {name}: result {r:?}, expected Some: {}", c.expect_some);
                    code = match (r, c.expect_some) {
                        (Ok(true), true) | (Ok(false), false) => 0,
                        _ => 1,
                    };
                }
            }
            let _ = std::fs::remove_dir_all(&dir);
            if code == 1 {
                println!("VIOLATION property={} replay=(replayed case)", ctx.id);
            } else if code == 0 {
                println!("replay: property holds on this case");
            }
            return code;
        }
        "range" => {
            // re-run the recorded child range
            let args: Vec<String> = v["args"].as_array().map(|a| a.iter().filter_map(|s| s.as_str().map(String::from)).collect()).unwrap_or_default();
            let fam = match Family::parse(&args) {
                Some(f) => f,
                None => return 2,
            };
            let r = run_child(&fam, v["start"].as_u64().unwrap_or(0), v["end"].as_u64().unwrap_or(0), 10_000, Duration::from_secs(900));
            println!("child: {r:?}");
            return match r {
                ChildEnd::Done(d) if d["panics"].as_array().map(|a| a.is_empty()).unwrap_or(true) => {
                    println!("replay: property holds on this case");
                    0
                }
                ChildEnd::Spawn(_) => 2,
                _ => {
                    println!("VIOLATION property={} replay=(replayed case)", ctx.id);
                    1
                }
            };
        }
        _ => return 2,
    };
    let preview: String = text.chars().take(300).collect();
    println!("{} parser, input of {} bytes: {:?}", p.name(), text.len(), preview);
    // on a 2 MiB stack, with a 60 s limit
    let (tx, rx) = std::sync::mpsc::channel();
    let t2 = text.clone();
    let _ = std::thread::Builder::new().stack_size(2 << 20).spawn(move || {
        let r = std::panic::catch_unwind(|| classify(p, &t2));
        let _ = tx.send(r.map_err(|_| ()));
    });
    match rx.recv_timeout(Duration::from_secs(60)) {
        Ok(Ok(c)) => {
            println!("result: {c}");
            println!("replay: property holds on this case");
            0
        }
        Ok(Err(())) => {
            println!("result: panic");
            println!("VIOLATION property={} replay=(replayed case)", ctx.id);
            1
        }
        Err(_) => {
            println!("result: no answer within 60 s");
            println!("VIOLATION property={} replay=(replayed case)", ctx.id);
            1
        }
    }
}
