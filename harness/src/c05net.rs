//! Resolver-level part of C05 (answers served from the cache by
//! `dns_resolver::resolve` honour the TTL) — filled in with the E-NET engine.
use crate::common::*;
use serde_json::Value;

pub fn run_resolver_level(_ctx: &Ctx, _report: &mut Report) {}

pub fn replay(_ctx: &Ctx, _v: &Value) -> i32 {
    2
}
