//! Resolver-level part of C05: answers of `dns_resolver::resolve` that are
//! served from the cache honour the TTL.  History: resolve q; advance the
//! clock by t; upstream goes silent; resolve q again — the record is served
//! iff its TTL has not elapsed, with a TTL not above the time it has left.

use crate::c07::base_spec;
use crate::common::*;
use crate::net::*;
use crate::ugen::*;
use crate::util::*;
use dns_types::protocol::types::*;
use serde_json::{json, Value};
use std::sync::Arc;
use std::time::Duration;

struct Case {
    q: Question,
    /// (record owner, ttl in the universe) of every record whose lifetime matters
    advance_ms: u64,
}

fn judge(u: &Universe, q: &Question, advance_ms: u64, res: &RunResult) -> Vec<(&'static str, String)> {
    let mut out = Vec::new();
    if res.asks.len() != 2 {
        return out;
    }
    let first = outcome_rrs(&res.asks[0].outcome);
    let second = outcome_rrs(&res.asks[1].outcome);
    if let Outcome::Panic(m) = &res.asks[1].outcome {
        out.push(("c05-panic", format!("panicked: {m}")));
    }
    // authoritative TTL of every record of the first answer
    let ttl_of = |r: &ResourceRecord| -> Option<u32> {
        for z in &u.zones {
            for x in z.all() {
                if x.owner == r.name && x.data == r.rtype_with_data {
                    return Some(x.ttl);
                }
            }
        }
        None
    };
    // exchanges of the second question that got an answer: none (upstream is off)
    for r in &second {
        let ttl = match ttl_of(r) {
            Some(t) => t,
            None => {
                out.push(("get-returned-unknown", format!("second answer contains {} which no server holds", show_rr(r))));
                continue;
            }
        };
        let elapsed_ms = advance_ms; // resolution itself takes no virtual time while upstream answers at once
        let left_ms = (u64::from(ttl) * 1000).saturating_sub(elapsed_ms);
        if left_ms == 0 {
            out.push((
                "get-returned-expired",
                format!("{} was served from the cache {} ms after it was obtained with TTL {}", show_rr(r), elapsed_ms, ttl),
            ));
        } else if u64::from(r.ttl) * 1000 > left_ms {
            out.push((
                "get-ttl-exceeds-remaining",
                format!("{} reports TTL {} but only {} ms are left", show_rr(r), r.ttl, left_ms),
            ));
        }
    }
    // completeness: if every record of the first answer has >= 1 s left, the
    // second answer must be the same records
    let all_live = !first.is_empty()
        && first.iter().all(|r| ttl_of(r).map(|t| u64::from(t) * 1000 >= advance_ms + 1000).unwrap_or(false));
    if all_live {
        let a: Vec<_> = canon_rrs_nottl(&first);
        let b: Vec<_> = canon_rrs_nottl(&second);
        if a != b {
            out.push((
                "get-missing-live",
                format!("after {} ms the cached answer {:?} should still be served, got {}", advance_ms, a, show_outcome(&res.asks[1].outcome)),
            ));
        }
    }
    let _ = q;
    out
}

fn universe() -> (GenParams, Arc<Universe>) {
    let mut p = GenParams::simple(2, NsStyle::InZoneGlue, 1);
    p.styles = vec![NsStyle::InZoneGlue, NsStyle::InParent];
    let u = Arc::new(build(&p));
    (p, u)
}

fn steps_for(q: &Question, advance_ms: u64) -> Vec<Step> {
    vec![
        Step::Ask(q.clone()),
        Step::Advance(Duration::from_millis(advance_ms)),
        Step::UpstreamOff,
        Step::Ask(q.clone()),
    ]
}

pub fn run_resolver_level(ctx: &Ctx, report: &mut Report) {
    let (p, u) = universe();
    let leaf = level_apex(p.depth);
    let qs = vec![
        question(&prepend(b"www", &sibling_apex()), qt(RecordType::A)), // TTL 2
        question(&prepend(b"chain", &leaf), qt(RecordType::A)),          // alias TTL 2 -> 300 -> record TTL 2
        question(&prepend(b"www", &leaf), qt(RecordType::A)),            // TTL 300
        question(&prepend(b"www", &leaf), qt(RecordType::TXT)),
    ];
    let advances: Vec<u64> = match ctx.tier {
        Tier::Quick => vec![0, 1000, 1500, 2000, 3000, 299_000, 300_000, 301_000],
        Tier::Thorough => vec![0, 1, 999, 1000, 1001, 1500, 1999, 2000, 2001, 3000, 150_000, 299_000, 299_999, 300_000, 300_001, 301_000],
    };
    let mut runs = 0u64;
    let mut served = 0u64;
    for q in &qs {
        for adv in &advances {
            let spec = base_spec(u.clone(), steps_for(q, *adv));
            let mut stats = ExploreStats::default();
            let mut visit = |res: &RunResult, choices: &[usize]| {
                runs += 1;
                if matches!(res.asks.get(1).map(|a| &a.outcome), Some(Outcome::Ok(_))) {
                    served += 1;
                }
                for (clause, msg) in judge(&u, q, *adv, res) {
                    report.violations.push(Violation {
                        clause: format!("resolver-{clause}"),
                        summary: format!("question {} {} advance {} ms: {}", show_name(&q.name), q.qtype, adv, msg),
                        replay: json!({
                            "kind": "resolver-ttl",
                            "question": {"name": q.name.to_dotted_string(), "qtype": u16::from(q.qtype)},
                            "advance_ms": adv,
                            "choices": choices,
                        }),
                        slug: None,
                    });
                }
            };
            explore(&spec, 0, 64, &mut stats, &mut visit);
            report.evaluations += stats.executions;
            report.transitions += stats.exchanges;
            report.traces_validated += stats.executions;
        }
    }
    report.distinct_nontrivial += served;
    report.hist("resolver-level runs (resolve; advance; upstream off; resolve)", runs);
    report.hist("resolver-level runs whose second answer was served from the cache", served);
    report.extra.insert(
        "resolver_level".into(),
        json!({"questions": qs.iter().map(|q| format!("{} {}", show_name(&q.name), q.qtype)).collect::<Vec<_>>(), "advances_ms": advances}),
    );
}

pub fn replay(ctx: &Ctx, v: &Value) -> i32 {
    let (_p, u) = universe();
    let q = question(
        &dn(v["question"]["name"].as_str().unwrap_or(".")),
        QueryType::from(v["question"]["qtype"].as_u64().unwrap_or(1) as u16),
    );
    let adv = v["advance_ms"].as_u64().unwrap_or(0);
    let choices: Vec<usize> = v["choices"].as_array().cloned().unwrap_or_default().iter().filter_map(|c| c.as_u64().map(|c| c as usize)).collect();
    let spec = base_spec(u.clone(), steps_for(&q, adv));
    let res = run_once(&spec, &choices);
    println!("question {} {}; advance {} ms; then upstream off", show_name(&q.name), q.qtype, adv);
    println!("exchanges: {}", show_log(&res.log));
    for a in &res.asks {
        println!("answer: {}", show_outcome(&a.outcome));
    }
    let findings = judge(&u, &q, adv, &res);
    for (c, m) in &findings {
        println!("  finding [{c}]: {m}");
    }
    if findings.is_empty() {
        println!("replay: property holds on this case");
        0
    } else {
        println!("VIOLATION property={} replay=(replayed case)", ctx.id);
        1
    }
}
