//! C04 — encoding then decoding a message returns the same message.
//!
//! Every message of the stated spaces is encoded with the real
//! `Message::to_octets`, decoded again with the real `Message::from_octets` *and*
//! with the independent decoder of `refwire`, and the encoded octets are audited
//! structurally: every compression pointer must sit below its own offset, must
//! address the start of a name (or name suffix) that was written out literally
//! earlier, and that earlier name must be identical to the name the encoder was
//! asked to write at the pointer.
//!
//! Spaces: (1) all 2^13 flag/opcode/rcode combinations x 3 IDs, with and without
//! a body; (2) all sequences of <= 3 records from a 40-template pool (all 19
//! `RecordTypeWithData` variants, names shared between question, owner and
//! RDATA, empty / 1-octet RDATA, 63/255-octet names) x section splits x question
//! sets, plus messages with maximal RDATA; (3) an offset sweep: 7 name-reuse
//! patterns, one message per offset placing the first occurrence of the reused
//! name at every offset of stated windows around 16384, 32768, 49152 and below
//! 65535; (4) every input of C03's corpus that the implementation decodes
//! is re-encoded and must decode to the same message again.

use crate::c03;
use crate::common::*;
use crate::refwire::{self, Compress};
use crate::util::*;
use bytes::Bytes;
use dns_types::protocol::types::*;
use serde_json::{json, Value};
use std::collections::{BTreeMap, HashMap};
use std::net::Ipv4Addr;

pub const SLUG_PTR: &str = "compression-pointer-beyond-16383";

// ---------------------------------------------------------------------------------------------
// the oracle
// ---------------------------------------------------------------------------------------------

#[derive(Debug, Clone)]
struct PtrFail {
    at: usize,
    target: usize,
    /// offsets at which the identical name (suffix) had been written literally
    identical_at: Vec<usize>,
    text: String,
}

#[derive(Debug, Default, Clone)]
struct AuditResult {
    pointers: usize,
    ptr_fails: Vec<PtrFail>,
    other: Vec<String>,
}

impl AuditResult {
    fn ok(&self) -> bool {
        self.ptr_fails.is_empty() && self.other.is_empty()
    }
    /// narrow predicate of the known-defect family: every failing pointer's
    /// 14-bit target is the low 14 bits of an offset >= 16384 at which the
    /// identical name was first written, and nothing else is wrong
    fn matches_truncated_offset(&self) -> bool {
        self.other.is_empty()
            && !self.ptr_fails.is_empty()
            && self.ptr_fails.iter().all(|f| {
                f.identical_at
                    .iter()
                    .min()
                    .map(|o| *o >= 16384 && (*o & 0x3fff) == f.target)
                    .unwrap_or(false)
            })
    }
}

/// Expand the name at `pos` (independent mini decoder; hop-limited).
fn expand(b: &[u8], mut pos: usize) -> Option<Vec<Vec<u8>>> {
    let mut out = Vec::new();
    let mut hops = 0;
    loop {
        let c = *b.get(pos)? as usize;
        if c == 0 {
            return Some(out);
        } else if c < 64 {
            out.push(b.get(pos + 1..pos + 1 + c)?.to_vec());
            pos += 1 + c;
        } else if c >= 192 {
            hops += 1;
            if hops > 200 {
                return None;
            }
            pos = ((c & 0x3f) << 8) | *b.get(pos + 1)? as usize;
        } else {
            return None;
        }
    }
}

struct Auditor<'a> {
    b: &'a [u8],
    pos: usize,
    names: Vec<&'a DomainName>,
    /// offset of a literally written label -> (name index, label index)
    starts: HashMap<usize, (usize, usize)>,
    res: AuditResult,
}

impl<'a> Auditor<'a> {
    fn name(&mut self, expected: &'a DomainName) -> Result<(), ()> {
        let ni = self.names.len();
        self.names.push(expected);
        let mut k = 0usize;
        loop {
            let c = match self.b.get(self.pos) {
                Some(c) => *c as usize,
                None => {
                    self.res.other.push(format!("encoding ends inside a name at offset {}", self.pos));
                    return Err(());
                }
            };
            if c >= 192 {
                let at = self.pos;
                let lo = match self.b.get(at + 1) {
                    Some(l) => *l as usize,
                    None => {
                        self.res.other.push(format!("encoding ends inside a pointer at offset {at}"));
                        return Err(());
                    }
                };
                let target = ((c & 0x3f) << 8) | lo;
                self.res.pointers += 1;
                let rest = &expected.labels[k..];
                let mut problem = None;
                if target >= at {
                    problem = Some(format!("pointer at offset {at} targets {target}, not below its own offset"));
                } else {
                    match self.starts.get(&target) {
                        None => {
                            problem = Some(format!(
                                "pointer at offset {at} targets {target}, which is not the start of a name written earlier"
                            ));
                        }
                        Some((tn, tk)) => {
                            if self.names[*tn].labels[*tk..] != *rest {
                                problem = Some(format!(
                                    "pointer at offset {at} targets {target} where `{}` was written, but the name to write is `{}`",
                                    show_labels(&self.names[*tn].labels[*tk..]),
                                    show_labels(rest)
                                ));
                            }
                        }
                    }
                    if problem.is_none() {
                        let want: Vec<Vec<u8>> = rest
                            .iter()
                            .filter(|l| !l.is_empty())
                            .map(|l| l.octets().to_vec())
                            .collect();
                        if expand(self.b, target) != Some(want) {
                            problem = Some(format!(
                                "pointer at offset {at} targets {target}, whose expansion is not `{}`",
                                show_labels(rest)
                            ));
                        }
                    }
                }
                if let Some(text) = problem {
                    let mut identical_at: Vec<usize> = self
                        .starts
                        .iter()
                        .filter(|(_, (tn, tk))| self.names[*tn].labels[*tk..] == *rest)
                        .map(|(o, _)| *o)
                        .collect();
                    identical_at.sort_unstable();
                    self.res.ptr_fails.push(PtrFail { at, target, identical_at, text });
                }
                self.pos += 2;
                return Ok(());
            } else if c == 0 {
                if k + 1 != expected.labels.len() {
                    self.res.other.push(format!("name at offset {} ends after {k} labels, expected `{}`", self.pos, show_name(expected)));
                    return Err(());
                }
                self.pos += 1;
                return Ok(());
            } else if c < 64 {
                let lab = self.b.get(self.pos + 1..self.pos + 1 + c);
                let exp = expected.labels.get(k);
                match (lab, exp) {
                    (Some(l), Some(e)) if l == &e.octets()[..] => {}
                    _ => {
                        self.res.other.push(format!("literal label at offset {} differs from label {k} of `{}`", self.pos, show_name(expected)));
                        return Err(());
                    }
                }
                self.starts.insert(self.pos, (ni, k));
                self.pos += 1 + c;
                k += 1;
            } else {
                self.res.other.push(format!("octet {c:#x} at offset {} is neither a label length nor a pointer", self.pos));
                return Err(());
            }
        }
    }
    fn skip(&mut self, n: usize) -> Result<(), ()> {
        if self.pos + n > self.b.len() {
            self.res.other.push(format!("encoding ends early (need {n} octets at offset {})", self.pos));
            return Err(());
        }
        self.pos += n;
        Ok(())
    }
    fn rr(&mut self, r: &'a ResourceRecord) -> Result<(), ()> {
        self.name(&r.name)?;
        self.skip(8)?;
        let at = self.pos;
        self.skip(2)?;
        let rdl = u16::from_be_bytes([self.b[at], self.b[at + 1]]) as usize;
        let start = self.pos;
        match &r.rtype_with_data {
            RecordTypeWithData::A { .. } => self.skip(4)?,
            RecordTypeWithData::AAAA { .. } => self.skip(16)?,
            RecordTypeWithData::NS { nsdname: n }
            | RecordTypeWithData::MD { madname: n }
            | RecordTypeWithData::MF { madname: n }
            | RecordTypeWithData::CNAME { cname: n }
            | RecordTypeWithData::MB { madname: n }
            | RecordTypeWithData::MG { mdmname: n }
            | RecordTypeWithData::MR { newname: n }
            | RecordTypeWithData::PTR { ptrdname: n } => self.name(n)?,
            RecordTypeWithData::SOA { mname, rname, .. } => {
                self.name(mname)?;
                self.name(rname)?;
                self.skip(20)?;
            }
            RecordTypeWithData::MINFO { rmailbx, emailbx } => {
                self.name(rmailbx)?;
                self.name(emailbx)?;
            }
            RecordTypeWithData::MX { exchange, .. } => {
                self.skip(2)?;
                self.name(exchange)?;
            }
            RecordTypeWithData::SRV { target, .. } => {
                self.skip(6)?;
                self.name(target)?;
            }
            RecordTypeWithData::NULL { octets }
            | RecordTypeWithData::WKS { octets }
            | RecordTypeWithData::HINFO { octets }
            | RecordTypeWithData::TXT { octets }
            | RecordTypeWithData::Unknown { octets, .. } => self.skip(octets.len())?,
        }
        if self.pos != start + rdl {
            self.res.other.push(format!("RDLENGTH at offset {at} says {rdl}, RDATA written is {} octets", self.pos - start));
            return Err(());
        }
        Ok(())
    }
}

fn show_labels(l: &[Label]) -> String {
    let mut s = String::new();
    for x in l {
        if x.is_empty() {
            break;
        }
        s.push_str(&show_bytes(x.octets()));
        s.push('.');
    }
    if s.is_empty() {
        s.push('.');
    }
    s
}

fn audit(b: &[u8], m: &Message) -> AuditResult {
    let mut a = Auditor { b, pos: 12, names: Vec::new(), starts: HashMap::new(), res: AuditResult::default() };
    if b.len() < 12 {
        a.res.other.push("encoding shorter than a header".into());
        return a.res;
    }
    let counts = [m.questions.len(), m.answers.len(), m.authority.len(), m.additional.len()];
    for (i, c) in counts.iter().enumerate() {
        let w = u16::from_be_bytes([b[4 + 2 * i], b[5 + 2 * i]]) as usize;
        if w != *c {
            a.res.other.push(format!("count {i} written as {w}, message has {c}"));
            return a.res;
        }
    }
    let walk = (|| -> Result<(), ()> {
        for q in &m.questions {
            a.name(&q.name)?;
            a.skip(4)?;
        }
        for r in m.answers.iter().chain(&m.authority).chain(&m.additional) {
            a.rr(r)?;
        }
        Ok(())
    })();
    if walk.is_ok() && a.pos != b.len() {
        a.res.other.push(format!("{} octets after the last record", b.len() - a.pos));
    }
    a.res
}

#[derive(Default)]
struct Acc {
    messages: u64,
    octets: u64,
    with_pointer: u64,
    pointers: u64,
    hist: BTreeMap<String, u64>,
    hashes: Vec<u64>,
    hash_overflow: bool,
    viols: Vec<((usize, u64, String), Violation)>,
    viol_counts: BTreeMap<String, u64>,
    known_counts: u64,
    skipped_oversize: u64,
    corpus_inputs: u64,
    samples: Vec<Value>,
}

impl Acc {
    fn h(&mut self, k: &str) {
        *self.hist.entry(k.to_string()).or_insert(0) += 1;
    }
    fn push(&mut self, key: (usize, u64, String), v: Violation) {
        *self.viol_counts.entry(format!("{}|{}", v.clause, v.slug.unwrap_or(""))).or_insert(0) += 1;
        if v.slug.is_some() {
            self.known_counts += 1;
        }
        self.viols.push((key, v));
        if self.viols.len() > 400 {
            self.trim();
        }
    }
    fn trim(&mut self) {
        self.viols.sort_by(|a, b| (a.1.clause.as_str(), &a.0).cmp(&(b.1.clause.as_str(), &b.0)));
        let mut kept: Vec<((usize, u64, String), Violation)> = Vec::new();
        let mut n: BTreeMap<String, usize> = BTreeMap::new();
        for (k, v) in self.viols.drain(..) {
            let c = n.entry(format!("{}|{}", v.clause, v.slug.unwrap_or(""))).or_insert(0);
            *c += 1;
            if *c <= 12 {
                kept.push((k, v));
            }
        }
        self.viols = kept;
    }
    fn merge(&mut self, o: Acc) {
        self.messages += o.messages;
        self.octets += o.octets;
        self.with_pointer += o.with_pointer;
        self.pointers += o.pointers;
        for (k, v) in o.hist {
            *self.hist.entry(k).or_insert(0) += v;
        }
        self.hashes.extend(o.hashes);
        self.hash_overflow |= o.hash_overflow;
        for (k, v) in o.viol_counts {
            *self.viol_counts.entry(k).or_insert(0) += v;
        }
        self.known_counts += o.known_counts;
        self.viols.extend(o.viols);
        self.trim();
        self.skipped_oversize += o.skipped_oversize;
        self.corpus_inputs += o.corpus_inputs;
        for s in o.samples {
            if self.samples.len() < 6 {
                self.samples.push(s);
            }
        }
    }
}

/// One-line rendering of a record that never formats more than a few octets
/// of opaque RDATA (messages here carry up to 65 535 of them).
fn brief_rr(r: &ResourceRecord) -> String {
    let opaque = |tag: String, o: &Bytes| {
        if o.len() > 8 {
            format!("{tag} \"{}\"…({} octets)", show_bytes(&o[..8]), o.len())
        } else {
            format!("{tag} \"{}\"", show_bytes(o))
        }
    };
    let data = match &r.rtype_with_data {
        RecordTypeWithData::NULL { octets } => opaque("NULL".into(), octets),
        RecordTypeWithData::WKS { octets } => opaque("WKS".into(), octets),
        RecordTypeWithData::HINFO { octets } => opaque("HINFO".into(), octets),
        RecordTypeWithData::TXT { octets } => opaque("TXT".into(), octets),
        RecordTypeWithData::Unknown { tag, octets } => opaque(format!("{}", RecordType::Unknown(*tag)), octets),
        other => show_data(other),
    };
    let brief_name = |n: &DomainName| {
        let s = show_name(n);
        if s.len() > 40 {
            let mut cut = 30;
            while !s.is_char_boundary(cut) {
                cut -= 1;
            }
            format!("{}…({} octets)", &s[..cut], n.len)
        } else {
            s
        }
    };
    let mut s = format!("{} {} {} {}", brief_name(&r.name), r.ttl, r.rclass, data);
    if s.len() > 110 {
        let mut cut = 110;
        while !s.is_char_boundary(cut) {
            cut -= 1;
        }
        s.truncate(cut);
        s.push('…');
    }
    s
}

fn describe_message(m: &Message) -> String {
    let mut parts = Vec::new();
    for q in m.questions.iter().take(3) {
        let mut n = show_name(&q.name);
        if n.len() > 40 {
            n = format!("{}…({} octets)", &n[..30], q.name.len);
        }
        parts.push(format!("Q {} {} {}", n, q.qtype, q.qclass));
    }
    if m.questions.len() > 3 {
        parts.push(format!("Q … {} more", m.questions.len() - 3));
    }
    for (tag, sec) in [("AN", &m.answers), ("NS", &m.authority), ("AR", &m.additional)] {
        for r in sec.iter().take(4) {
            parts.push(format!("{tag} {}", brief_rr(r)));
        }
        if sec.len() > 4 {
            parts.push(format!("{tag} … {} more", sec.len() - 4));
        }
    }
    format!("id={:#06x} [{}]", m.header.id, parts.join(" | "))
}

/// The oracle for one message.  `origin` says where the message came from and
/// is stored in the replay file; `order` sorts witnesses of equal size.
fn check_message(acc: &mut Acc, m: &Message, origin: &dyn Fn() -> Value, space: &str, order: u64, judge_size: bool) {
    acc.messages += 1;
    let enc = std::panic::catch_unwind(std::panic::AssertUnwindSafe(|| m.to_octets()));
    let bytes = match enc {
        Err(_) => {
            acc.push(
                (0, order, String::new()),
                Violation {
                    clause: "panic".into(),
                    summary: format!("to_octets panicked for {}", describe_message(m)),
                    replay: origin(),
                    slug: None,
                },
            );
            return;
        }
        Ok(Err(e)) => {
            acc.push(
                (0, order, String::new()),
                Violation {
                    clause: "encode-error".into(),
                    summary: format!("to_octets refused a well-formed message ({e}): {}", describe_message(m)),
                    replay: origin(),
                    slug: None,
                },
            );
            return;
        }
        Ok(Ok(b)) => b,
    };
    if judge_size && bytes.len() > 65535 {
        // D8: outside the claim
        acc.skipped_oversize += 1;
        acc.h(&format!("{space}/skipped-over-65535"));
        return;
    }
    acc.octets += bytes.len() as u64;
    let au = audit(&bytes, m);
    acc.pointers += au.pointers as u64;
    if au.pointers > 0 {
        acc.with_pointer += 1;
        if acc.hashes.len() < 6_000_000 {
            acc.hashes.push(fnv64(&bytes));
        } else {
            acc.hash_overflow = true;
        }
        acc.h(&format!("{space}/round-trip-with-pointers"));
    } else {
        acc.h(&format!("{space}/round-trip-no-pointer"));
    }
    let known = au.matches_truncated_offset();
    let slug = if known { Some(SLUG_PTR) } else { None };
    let key = |t: &str| (bytes.len(), order, t.to_string());
    let ptr_note = au
        .ptr_fails
        .first()
        .map(|f| {
            format!(
                " [{}; identical name written literally at offset(s) {:?}; pointer octets {}]",
                f.text,
                f.identical_at,
                hex(&bytes[f.at..(f.at + 2).min(bytes.len())])
            )
        })
        .unwrap_or_default();
    if !au.ok() {
        let text = au
            .ptr_fails
            .iter()
            .map(|f| f.text.clone())
            .chain(au.other.iter().cloned())
            .take(3)
            .collect::<Vec<_>>()
            .join("; ");
        acc.push(
            key("audit"),
            Violation {
                clause: "pointer-audit".into(),
                summary: format!("{} octets encoded from {}: {text}{}", bytes.len(), describe_message(m), if au.ptr_fails.is_empty() { String::new() } else { ptr_note.clone() }),
                replay: origin(),
                slug,
            },
        );
    }
    let got = std::panic::catch_unwind(std::panic::AssertUnwindSafe(|| Message::from_octets(&bytes)));
    match got {
        Err(_) => acc.push(
            key("impl"),
            Violation {
                clause: "panic".into(),
                summary: format!("from_octets panicked on the {}-octet encoding of {}", bytes.len(), describe_message(m)),
                replay: origin(),
                slug: None,
            },
        ),
        Ok(Ok(ref back)) if back == m => {}
        Ok(other) => {
            let what = match &other {
                Ok(back) => format!("decodes to a different message: {}", describe_message(back)),
                Err(e) => format!("does not decode: {e}"),
            };
            acc.push(
                key("impl"),
                Violation {
                    clause: "roundtrip-implementation-decoder".into(),
                    summary: format!("{} octets encoded from {} — {what}{ptr_note}", bytes.len(), describe_message(m)),
                    replay: origin(),
                    slug,
                },
            );
        }
    }
    match refwire::decode(&bytes) {
        Ok(ref back) if back == m => {}
        other => {
            let what = match &other {
                Ok(back) => format!("decodes to a different message: {}", describe_message(back)),
                Err(e) => format!("does not decode: {:?}", e.kind),
            };
            acc.push(
                key("ref"),
                Violation {
                    clause: "roundtrip-reference-decoder".into(),
                    summary: format!("{} octets encoded from {} — reference decoder: {what}{ptr_note}", bytes.len(), describe_message(m)),
                    replay: origin(),
                    slug,
                },
            );
        }
    }
    if acc.samples.len() < 2 && au.pointers > 0 && (order % 7919 == 3 || space == "sweep") {
        acc.samples.push(json!({
            "space": space,
            "message": describe_message(m),
            "encoded_octets": bytes.len(),
            "pointers": au.pointers,
            "encoding_head": c03::describe_input(&bytes),
        }));
    }
}

// ---------------------------------------------------------------------------------------------
// spaces
// ---------------------------------------------------------------------------------------------

fn header_for(bits: u32, id: u16) -> Header {
    Header {
        id,
        is_response: bits & 1 != 0,
        opcode: Opcode::from(((bits >> 1) & 15) as u8),
        is_authoritative: bits & (1 << 5) != 0,
        is_truncated: bits & (1 << 6) != 0,
        recursion_desired: bits & (1 << 7) != 0,
        recursion_available: bits & (1 << 8) != 0,
        rcode: Rcode::from(((bits >> 9) & 15) as u8),
    }
}

fn plain_header(id: u16) -> Header {
    header_for(0, id)
}

fn n1() -> DomainName {
    dn("a.")
}
fn n2() -> DomainName {
    dn("b.a.")
}
fn n3() -> DomainName {
    dn("www.example.com.")
}
/// Name built through the public fields: the inputs of this check must not
/// depend on `DomainName::from_labels` (judged by C16).
fn raw_name(labels: &[&[u8]]) -> DomainName {
    let mut v: Vec<Label> = labels.iter().map(|l| label(l)).collect();
    v.push(Label::new());
    let len = v.iter().map(|l| 1 + l.len() as usize).sum();
    DomainName { labels: v, len }
}
fn l63() -> DomainName {
    raw_name(&[&[b'x'; 63]])
}
fn n255() -> DomainName {
    raw_name(&[&[b'p'; 63], &[b'q'; 63], &[b'r'; 63], &[b's'; 61]])
}

fn opaque(n: usize) -> Bytes {
    Bytes::from((0..n).map(|i| (i % 251) as u8).collect::<Vec<u8>>())
}

fn rrc(name: &DomainName, data: RecordTypeWithData, class: u16, ttl: u32) -> ResourceRecord {
    ResourceRecord { name: name.clone(), rtype_with_data: data, rclass: RecordClass::from(class), ttl }
}

fn unknown(code: u16, octets: Bytes) -> RecordTypeWithData {
    match RecordType::from(code) {
        RecordType::Unknown(tag) => RecordTypeWithData::Unknown { tag, octets },
        _ => panic!("harness: {code} is a known type"),
    }
}

/// The record-template pool (40 templates, all 19 variants).
fn templates() -> Vec<ResourceRecord> {
    let (a1, b2, w3, x63, big) = (n1(), n2(), n3(), l63(), n255());
    let root = DomainName::root_domain();
    let soa = |m: &DomainName, r: &DomainName| RecordTypeWithData::SOA {
        mname: m.clone(),
        rname: r.clone(),
        serial: 1,
        refresh: 0,
        retry: u32::MAX,
        expire: 4,
        minimum: 5,
    };
    vec![
        rrc(&a1, a([192, 0, 2, 1]), 1, 0),
        rrc(&b2, a([255, 255, 255, 255]), 1, 1),
        rrc(&a1, aaaa(9), 1, u32::MAX),
        rrc(&a1, ns(&b2), 1, 300),
        rrc(&b2, ns(&a1), 1, 300),
        rrc(&b2, cname(&w3), 1, 0),
        rrc(&w3, cname(&w3), 1, 7),
        rrc(&a1, RecordTypeWithData::MD { madname: b2.clone() }, 1, 1),
        rrc(&b2, RecordTypeWithData::MF { madname: w3.clone() }, 1, 2),
        rrc(&w3, RecordTypeWithData::MB { madname: a1.clone() }, 1, 3),
        rrc(&a1, RecordTypeWithData::MG { mdmname: a1.clone() }, 1, 4),
        rrc(&b2, RecordTypeWithData::MR { newname: root.clone() }, 1, 5),
        rrc(&w3, RecordTypeWithData::PTR { ptrdname: a1.clone() }, 1, 6),
        rrc(&a1, soa(&b2, &w3), 1, 60),
        rrc(&root, soa(&a1, &a1), 1, 0),
        rrc(&b2, RecordTypeWithData::MINFO { rmailbx: a1.clone(), emailbx: b2.clone() }, 1, 8),
        rrc(&a1, mx(10, &w3), 1, 9),
        rrc(&w3, mx(65535, &w3), 1, 10),
        rrc(&b2, RecordTypeWithData::SRV { priority: 0, weight: 65535, port: 53, target: a1.clone() }, 1, 11),
        rrc(&a1, RecordTypeWithData::TXT { octets: Bytes::new() }, 1, 12),
        rrc(&a1, txt(b"x"), 1, 13),
        rrc(&b2, txt(&[0xC0, 0x0C, 0x01, b'a', 0x00]), 1, 14),
        rrc(&root, RecordTypeWithData::NULL { octets: Bytes::new() }, 1, 15),
        rrc(&a1, RecordTypeWithData::WKS { octets: opaque(1) }, 1, 16),
        rrc(&w3, RecordTypeWithData::HINFO { octets: opaque(9) }, 1, 17),
        rrc(&a1, unknown(0, Bytes::new()), 1, 18),
        rrc(&b2, unknown(65535, opaque(3)), 1, 19),
        rrc(&w3, unknown(252, opaque(2)), 1, 20),
        rrc(&x63, a([10, 0, 0, 63]), 1, 21),
        rrc(&x63, cname(&big), 1, 22),
        rrc(&big, a([10, 0, 0, 255]), 1, 23),
        rrc(&big, ns(&big), 1, 24),
        rrc(&a1, a([10, 0, 0, 3]), 3, 25),
        rrc(&b2, txt(b"class0"), 0, 26),
        rrc(&w3, a([10, 0, 0, 4]), 255, 27),
        rrc(&root, mx(0, &root), 1, 28),
        rrc(&b2, RecordTypeWithData::PTR { ptrdname: root.clone() }, 65535, 29),
        rrc(&w3, RecordTypeWithData::SRV { priority: 1, weight: 2, port: 3, target: x63.clone() }, 1, 30),
        rrc(&a1, RecordTypeWithData::TXT { octets: opaque(300) }, 1, 31),
        rrc(&w3, RecordTypeWithData::NULL { octets: opaque(1) }, 1, 32),
    ]
}

fn question_sets(tier: Tier) -> Vec<Vec<Question>> {
    let q1 = question(&n1(), QueryType::Record(RecordType::A));
    let q2 = Question { name: n3(), qtype: QueryType::Wildcard, qclass: QueryClass::Wildcard };
    let q3 = Question { name: n255(), qtype: QueryType::AXFR, qclass: QueryClass::Record(RecordClass::from(3)) };
    let q4 = Question { name: DomainName::root_domain(), qtype: QueryType::Record(RecordType::from(65280)), qclass: QueryClass::Record(RecordClass::from(0)) };
    match tier {
        Tier::Quick => vec![vec![], vec![q1.clone()], vec![q2.clone(), q1.clone()]],
        Tier::Thorough => vec![
            vec![],
            vec![q1.clone()],
            vec![q2.clone()],
            vec![q3.clone()],
            vec![q2.clone(), q1.clone()],
            vec![q3, q4],
        ],
    }
}

const SPLITS: [&[[usize; 3]]; 4] = [
    &[[0, 0, 0]],
    &[[1, 0, 0], [0, 1, 0], [0, 0, 1]],
    &[[2, 0, 0], [1, 1, 0], [1, 0, 1], [0, 2, 0], [0, 1, 1], [0, 0, 2]],
    &[
        [3, 0, 0],
        [2, 1, 0],
        [2, 0, 1],
        [1, 2, 0],
        [1, 1, 1],
        [1, 0, 2],
        [0, 3, 0],
        [0, 2, 1],
        [0, 1, 2],
        [0, 0, 3],
    ],
];

struct BodySpace {
    pool: Vec<ResourceRecord>,
    qsets: Vec<Vec<Question>>,
    /// (sequence length, number of splits used, first index)
    blocks: Vec<(usize, usize, u64)>,
    per_qset: u64,
    all_splits_for_triples: bool,
}

impl BodySpace {
    fn new(tier: Tier) -> Self {
        let pool = templates();
        let p = pool.len() as u64;
        let all3 = tier == Tier::Thorough;
        let mut blocks = Vec::new();
        let mut at = 0u64;
        for len in 0..=3usize {
            let nsplit = if len == 3 && !all3 { 1 } else { SPLITS[len].len() };
            blocks.push((len, nsplit, at));
            at += p.pow(len as u32) * nsplit as u64;
        }
        BodySpace { pool, qsets: question_sets(tier), blocks, per_qset: at, all_splits_for_triples: all3 }
    }
    fn total(&self) -> u64 {
        self.per_qset * self.qsets.len() as u64
    }
    fn message(&self, idx: u64) -> Message {
        let qs = (idx / self.per_qset) as usize;
        let r = idx % self.per_qset;
        let mut blk = self.blocks[0];
        for b in &self.blocks {
            if r >= b.2 {
                blk = *b;
            }
        }
        let (len, nsplit, first) = blk;
        let mut k = r - first;
        let split_i = (k % nsplit as u64) as usize;
        k /= nsplit as u64;
        let p = self.pool.len() as u64;
        let mut seq = Vec::with_capacity(len);
        let seq_index = k;
        for _ in 0..len {
            seq.push(self.pool[(k % p) as usize].clone());
            k /= p;
        }
        let split = if len == 3 && !self.all_splits_for_triples {
            SPLITS[3][(seq_index % 10) as usize]
        } else {
            SPLITS[len][split_i]
        };
        let mut it = seq.into_iter();
        let answers: Vec<_> = it.by_ref().take(split[0]).collect();
        let authority: Vec<_> = it.by_ref().take(split[1]).collect();
        let additional: Vec<_> = it.collect();
        Message {
            header: header_for(((idx * 37) % 8192) as u32, (idx % 65536) as u16),
            questions: self.qsets[qs].clone(),
            answers,
            authority,
            additional,
        }
    }
}

/// Explicit messages with extreme RDATA sizes (judged although the 65 535-octet
/// RDATA makes the whole message 23 octets longer than a TCP message can be:
/// the statement names that RDATA size explicitly).
fn big_messages() -> Vec<(Message, bool)> {
    let root = DomainName::root_domain();
    let one = |r: ResourceRecord| Message {
        header: plain_header(0xB160),
        questions: vec![],
        answers: vec![r],
        authority: vec![],
        additional: vec![],
    };
    let mut v = Vec::new();
    for n in [65535usize, 65534, 65512, 65511, 16384, 16383] {
        v.push((one(rrc(&root, RecordTypeWithData::TXT { octets: opaque(n) }, 1, 0)), false));
        v.push((one(rrc(&n1(), RecordTypeWithData::NULL { octets: opaque(n) }, 1, 0)), false));
        v.push((one(rrc(&n1(), unknown(65280, opaque(n)), 1, 0)), false));
    }
    // maximal RDATA followed by a record that shares its owner
    let mut m = one(rrc(&n3(), RecordTypeWithData::TXT { octets: opaque(65000) }, 1, 0));
    m.additional.push(rrc(&n3(), a([1, 2, 3, 4]), 1, 0));
    v.push((m, false));
    // many records: 4000 answers sharing two owners
    let mut many = one(rrc(&n3(), a([0, 0, 0, 0]), 1, 0));
    for i in 0..3999u32 {
        let owner = if i % 2 == 0 { n3() } else { n2() };
        many.answers.push(rrc(&owner, RecordTypeWithData::A { address: Ipv4Addr::from(i) }, 1, i));
    }
    v.push((many, true));
    v
}

// ---- the offset sweep -------------------------------------------------------

pub const N_PATTERNS: u64 = 7;

fn pattern_name(p: u64) -> &'static str {
    match p {
        0 => "owner then owner",
        1 => "CNAME RDATA then owner",
        2 => "second SOA RDATA name then owner",
        3 => "MX RDATA then owner (additional section)",
        4 => "owner, other owner, then the first owner twice",
        5 => "255-octet owner then owner",
        _ => "question name (padding by questions) then owner",
    }
}

/// A name that takes exactly `n` octets on the wire (root included), made
/// distinct by `tag`.
fn name_taking(n: usize, tag: usize) -> DomainName {
    assert!((3..=255).contains(&n));
    let mut labels: Vec<Vec<u8>> = Vec::new();
    let mut rem = n - 1;
    while rem > 0 {
        let take = if rem > 64 && rem != 65 { 64 } else if rem == 65 { 63 } else { rem };
        labels.push(vec![b'f'; take - 1]);
        rem -= take;
    }
    // write the tag into the first label (decimal digits), as far as it has room
    let mut t = tag;
    for c in labels[0].iter_mut() {
        *c = b'0' + (t % 10) as u8;
        t /= 10;
    }
    let refs: Vec<&[u8]> = labels.iter().map(|l| &l[..]).collect();
    raw_name(&refs)
}

/// The message of pattern `p` in which the reused name is first written at
/// offset `x`; None if that offset cannot be produced.
pub fn sweep_message(p: u64, x: usize) -> Option<Message> {
    let root = DomainName::root_domain();
    let n = dn("n.");
    let other = dn("m.");
    // 0xAA is a reserved label type: a stray pointer into the padding is refused
    // at once, and the octets `01 6e 00` of the reused name cannot occur in it
    let pad = |l: usize| rrc(&root, RecordTypeWithData::NULL { octets: Bytes::from(vec![0xAAu8; l]) }, 1, 0);
    let hdr = plain_header(0x1234);
    let empty = RecordTypeWithData::NULL { octets: Bytes::new() };
    let mut m = Message { header: hdr, questions: vec![], answers: vec![], authority: vec![], additional: vec![] };
    // offset at which the record after the padding record starts: 12 + 11 + l
    match p {
        0 | 4 | 5 => {
            let l = x.checked_sub(23)?;
            if l > 65535 {
                return None;
            }
            let name = if p == 5 { n255() } else { n.clone() };
            m.answers.push(pad(l));
            m.answers.push(rrc(&name, empty.clone(), 1, 1));
            if p == 4 {
                m.answers.push(rrc(&other, empty.clone(), 1, 2));
                m.authority.push(rrc(&name, empty.clone(), 1, 3));
            }
            m.additional.push(rrc(&name, empty, 1, 4));
        }
        1 => {
            let l = x.checked_sub(34)?;
            if l > 65535 {
                return None;
            }
            m.answers.push(pad(l));
            m.answers.push(rrc(&root, cname(&n), 1, 1));
            m.answers.push(rrc(&n, empty, 1, 2));
        }
        2 => {
            let l = x.checked_sub(37)?;
            if l > 65535 {
                return None;
            }
            m.answers.push(pad(l));
            m.authority.push(rrc(
                &root,
                RecordTypeWithData::SOA { mname: other.clone(), rname: n.clone(), serial: 1, refresh: 2, retry: 3, expire: 4, minimum: 5 },
                1,
                1,
            ));
            m.additional.push(rrc(&n, empty, 1, 2));
        }
        3 => {
            let l = x.checked_sub(36)?;
            if l > 65535 {
                return None;
            }
            m.answers.push(pad(l));
            m.answers.push(rrc(&root, mx(5, &n), 1, 1));
            m.additional.push(rrc(&n, a([1, 1, 1, 1]), 1, 2));
        }
        _ => {
            // questions of exactly `need` octets in front of the question `n.`
            let mut need = x.checked_sub(12)?;
            let mut tag = 0usize;
            while need > 0 {
                // a question takes name + 4 octets, name between 3 and 255 octets
                let take = if need >= 259 + 7 { 259 } else if need > 259 { need - 7 } else { need };
                if take < 7 {
                    return None;
                }
                m.questions.push(Question {
                    name: name_taking(take - 4, tag),
                    qtype: QueryType::Record(RecordType::A),
                    qclass: QueryClass::Record(RecordClass::IN),
                });
                tag += 1;
                need -= take;
            }
            m.questions.push(question(&n, QueryType::Record(RecordType::A)));
            m.answers.push(rrc(&n, empty, 1, 1));
        }
    }
    Some(m)
}

fn sweep_offsets(tier: Tier) -> Vec<usize> {
    let mut v: Vec<usize> = Vec::new();
    let w = tier.pick(300usize, 2000);
    let w2 = tier.pick(20usize, 300);
    v.extend(16384 - w..=16384 + w);
    v.extend(32768 - w2..=32768 + w2);
    v.extend(49152 - w2..=49152 + w2);
    v.extend(65535 - w..=65535);
    // small offsets as a control (pointers must be emitted and be right)
    v.extend(23..=tier.pick(123usize, 1023));
    v.sort_unstable();
    v.dedup();
    v
}

/// Where the reused name really starts in the reference encoding (sanity of the
/// generator: the sweep must place it at `x`).
fn first_offset_of(m: &Message, name: &DomainName) -> Option<usize> {
    let bytes = refwire::encode(m, Compress::None);
    let mut w = Vec::new();
    for l in &name.labels {
        w.push(l.len());
        w.extend_from_slice(l.octets());
    }
    // walk the structure is overkill here: the names `n.` / 255-octet name do
    // not occur inside padding (zeros) or other names by construction
    bytes.windows(w.len()).position(|s| s == &w[..])
}

// ---------------------------------------------------------------------------------------------
// run
// ---------------------------------------------------------------------------------------------

/// Like `par_fold` but hands out single indices (jobs of very different size).
fn par_jobs<A: Send, M: Fn() -> A + Sync, F: Fn(&mut A, usize) + Sync>(n: usize, threads: usize, seed: u64, init: M, f: F) -> Vec<A> {
    let next = std::sync::atomic::AtomicUsize::new(0);
    let mut out = Vec::new();
    std::thread::scope(|s| {
        let hs: Vec<_> = (0..threads.max(1))
            .map(|_| {
                s.spawn(|| {
                    let mut acc = init();
                    loop {
                        let i = next.fetch_add(1, std::sync::atomic::Ordering::Relaxed);
                        if i >= n {
                            break;
                        }
                        f(&mut acc, (i + seed as usize) % n);
                    }
                    acc
                })
            })
            .collect();
        for h in hs {
            match h.join() {
                Ok(a) => out.push(a),
                Err(_) => {
                    eprintln!("C04: worker thread panicked (machinery error)");
                    std::process::exit(2);
                }
            }
        }
    });
    out
}

fn message_origin(m: &Message) -> Value {
    json!({"kind": "message", "message_hex": hex(&refwire::encode(m, Compress::None))})
}

pub fn run(ctx: &Ctx) -> i32 {
    let tier = ctx.tier;
    let wall_cap = tier.pick(45.0, 560.0);
    let mut total = Acc::default();
    let mut report = Report::new();
    let mut exhaustive = true;
    let mut caps: Vec<String> = Vec::new();

    // (1) headers
    let ids = [0u16, 0x1234, 0xFFFF];
    let body_q = question(&n3(), QueryType::Record(RecordType::MX));
    let body_rr = rrc(&n3(), mx(1, &n3()), 1, 3600);
    let parts = par_fold(8192 * 3 * 2, ctx.threads, ctx.seed, Acc::default, |acc, i| {
        let bits = (i % 8192) as u32;
        let id = ids[(i / 8192) % 3];
        let with_body = i / (8192 * 3) == 1;
        let m = Message {
            header: header_for(bits, id),
            questions: if with_body { vec![body_q.clone()] } else { vec![] },
            answers: if with_body { vec![body_rr.clone()] } else { vec![] },
            authority: vec![],
            additional: vec![],
        };
        check_message(acc, &m, &|| json!({"kind": "header", "bits": bits, "id": id, "with_body": with_body}), "headers", i as u64, true);
    });
    for p in parts {
        total.merge(p);
    }

    // (2) bodies
    let bodies = BodySpace::new(tier);
    let nb = bodies.total();
    let parts = par_fold(nb as usize, ctx.threads, ctx.seed, Acc::default, |acc, i| {
        let m = bodies.message(i as u64);
        check_message(acc, &m, &|| json!({"kind": "body", "tier": tier.name(), "index": i}), "bodies", i as u64, true);
    });
    for p in parts {
        total.merge(p);
    }
    let bigs = big_messages();
    {
        let mut acc = Acc::default();
        for (i, (m, judge)) in bigs.iter().enumerate() {
            check_message(&mut acc, m, &|| json!({"kind": "big", "index": i}), "max-rdata", i as u64, *judge);
        }
        total.merge(acc);
    }

    // (3) offset sweep
    let offsets = sweep_offsets(tier);
    let n_sweep = offsets.len() as u64 * N_PATTERNS;
    let parts = par_fold(n_sweep as usize, ctx.threads, ctx.seed, Acc::default, |acc, i| {
        let p = i as u64 % N_PATTERNS;
        let x = offsets[i / N_PATTERNS as usize];
        match sweep_message(p, x) {
            Some(m) => {
                let reused = if p == 5 { n255() } else { dn("n.") };
                if first_offset_of(&m, &reused) != Some(x) {
                    eprintln!("C04: sweep generator misplaced the name (pattern {p}, offset {x})");
                    std::process::exit(2);
                }
                check_message(acc, &m, &|| json!({"kind": "sweep", "pattern": p, "offset": x, "pattern_name": pattern_name(p)}), "sweep", (x as u64) * 8 + p, true);
            }
            None => acc.h("sweep/offset-not-constructible"),
        }
    });
    for p in parts {
        total.merge(p);
    }

    if std::env::var("VERIF_TIMING").is_ok() {
        eprintln!("C04: parts 1-3 done at {:.1}s", ctx.elapsed());
    }
    // (4) re-encode everything C03's corpus holds that decodes
    let mut corpus_jobs: Vec<(c03::Space, u64, u64)> = Vec::new();
    for space in c03::SCHEDULE {
        let n = c03::space_items(space, tier);
        let step: u64 = match space {
            c03::Space::Short => 70_000,
            c03::Space::Tails => 100_000,
            c03::Space::Subst => 1,
            c03::Space::Extremes => 8,
            c03::Space::Triples => 2048,
            _ => tier.pick(512, 64),
        };
        let mut lo = 0;
        while lo < n {
            corpus_jobs.push((space, lo, (lo + step).min(n)));
            lo += step;
        }
    }
    let capped = std::sync::atomic::AtomicBool::new(false);
    let parts = par_jobs(corpus_jobs.len(), ctx.threads, ctx.seed, Acc::default, |acc, j| {
        if ctx.elapsed() > wall_cap {
            capped.store(true, std::sync::atomic::Ordering::Relaxed);
            return;
        }
        let (space, lo, hi) = corpus_jobs[j];
        let tag = format!("reencode-{}", space.code());
        let mut last: Option<Message> = None;
        let mut same = 0u64;
        for item in lo..hi {
            let mut k = 0u64;
            c03::for_each_input_opt(space, tier, item, false, &mut |b, _| {
                acc.corpus_inputs += 1;
                k += 1;
                // the clause ranges over what the *implementation* decodes
                // (C03 decides whether it should have)
                let decoded = std::panic::catch_unwind(std::panic::AssertUnwindSafe(|| Message::from_octets(b)));
                if let Ok(Ok(m)) = decoded {
                    // consecutive inputs often decode to the same message
                    if last.as_ref() == Some(&m) {
                        same += 1;
                        return;
                    }
                    check_message(acc, &m, &|| json!({"kind": "wire", "input_hex": hex(b)}), &tag, item * 4096 + k, true);
                    last = Some(m);
                }
            });
        }
        if same > 0 {
            *acc.hist.entry(format!("{tag}/same-message-as-previous-input")).or_insert(0) += same;
        }
    });
    for p in parts {
        total.merge(p);
    }
    if capped.load(std::sync::atomic::Ordering::Relaxed) {
        exhaustive = false;
        caps.push(format!("wall clock cap of {wall_cap} s reached while re-encoding C03's corpus"));
    }

    total.hashes.sort_unstable();
    total.hashes.dedup();
    if total.hash_overflow {
        caps.push("distinct count: a worker exceeded 6e6 digests, later ones were not recorded (count is a lower bound)".into());
    }
    total.trim();

    report.evaluations = total.messages;
    report.states = total.messages;
    report.transitions = total.octets;
    report.traces_validated = total.messages - total.skipped_oversize;
    report.distinct_nontrivial = total.hashes.len() as u64;
    report.rule = "a message is non-trivial when its encoding contains at least one compression pointer (found by the structural audit, so the pointer clause was really exercised); distinct = distinct FNV-64 digests of those encodings. states = messages encoded; transitions = octets produced by the encoder".into();
    report.samples = total.samples.clone();
    if let Some(m) = sweep_message(0, 16383) {
        report.samples.push(json!({"space": "sweep", "pattern": pattern_name(0), "first_occurrence_offset": 16383, "message": describe_message(&m)}));
    }
    report.samples.push(json!({"space": "bodies", "index": 4242, "message": describe_message(&bodies.message(4242 % nb))}));
    report.bounds = json!({
        "headers": "2^13 flag/opcode/rcode combinations x ids {0, 0x1234, 0xffff} x {no body, question + MX record}",
        "bodies": {
            "templates": bodies.pool.len(),
            "max_records": 3,
            "question_sets": bodies.qsets.len(),
            "section_splits": if tier == Tier::Thorough { "all (1/3/6/10)" } else { "all for <= 2 records; one per 3-record sequence (rotating)" },
            "messages": nb,
            "max_rdata_messages": bigs.len(),
        },
        "sweep": {
            "patterns": (0..N_PATTERNS).map(pattern_name).collect::<Vec<_>>(),
            "offsets": offsets.len(),
            "windows": format!("16384±{0}, 32768±{1}, 49152±{1}, 65535-{0}..65535, control 23..{2}", tier.pick(300, 2000), tier.pick(20, 300), tier.pick(123, 1023)),
            "messages": n_sweep,
        },
        "reencode": {
            "corpus": "every input of C03's spaces (same tier; truncated inputs left out) that the implementation decodes",
            "inputs_walked": total.corpus_inputs,
        },
        "messages_over_65535_octets_skipped": total.skipped_oversize,
        "pointers_audited": total.pointers,
    });
    report.exhaustive = exhaustive;
    if !caps.is_empty() {
        report.extra.insert("caps".into(), json!(caps));
    }
    report.outcome_histogram = total.hist.clone();
    report.extra.insert("violation_counts".into(), json!(total.viol_counts));
    report.assumptions = vec![
        "D8: well-formed = public constructors, codes from From<u16>, names within limits, counts and RDATA <= 65535, encoded size <= 65535 (the explicit 65535-octet-RDATA messages are judged nevertheless)".into(),
        "which names the encoder compresses is not judged; only that every pointer it emits is right".into(),
        "the corpus of part (4) is regenerated from C03's generator and filtered with the reference decoder; C03 establishes that the implementation accepts the same inputs".into(),
    ];
    // deterministic order: smallest encoding first within a clause
    total.viols.sort_by(|a, b| (a.1.clause.as_str(), &a.0).cmp(&(b.1.clause.as_str(), &b.0)));
    report.violations = total.viols.into_iter().map(|(_, v)| v).collect();
    finish(ctx, report)
}

fn message_from_replay(v: &Value) -> Option<Message> {
    match v["kind"].as_str()? {
        "header" => {
            let with_body = v["with_body"].as_bool().unwrap_or(false);
            Some(Message {
                header: header_for(v["bits"].as_u64()? as u32, v["id"].as_u64()? as u16),
                questions: if with_body { vec![question(&n3(), QueryType::Record(RecordType::MX))] } else { vec![] },
                answers: if with_body { vec![rrc(&n3(), mx(1, &n3()), 1, 3600)] } else { vec![] },
                authority: vec![],
                additional: vec![],
            })
        }
        "body" => {
            let tier = if v["tier"] == "thorough" { Tier::Thorough } else { Tier::Quick };
            let b = BodySpace::new(tier);
            Some(b.message(v["index"].as_u64()? % b.total()))
        }
        "big" => big_messages().into_iter().nth(v["index"].as_u64()? as usize).map(|x| x.0),
        "sweep" => sweep_message(v["pattern"].as_u64()?, v["offset"].as_u64()? as usize),
        "wire" => refwire::decode(&unhex(v["input_hex"].as_str()?)).ok(),
        "message" => refwire::decode(&unhex(v["message_hex"].as_str()?)).ok(),
        _ => None,
    }
}

pub fn replay(ctx: &Ctx, v: &Value) -> i32 {
    let m = match message_from_replay(v) {
        Some(m) => m,
        None => {
            eprintln!("C04: replay file does not describe a message");
            return 2;
        }
    };
    println!("message: {}", describe_message(&m));
    let mut acc = Acc::default();
    check_message(&mut acc, &m, &|| v.clone(), "replay", 0, false);
    match m.to_octets() {
        Ok(b) => {
            println!("encoded: {} octets, head {}", b.len(), c03::describe_input(&b));
            println!("implementation decoder: {}", match Message::from_octets(&b) {
                Ok(back) if back == m => "same message".to_string(),
                Ok(back) => format!("DIFFERENT: {}", describe_message(&back)),
                Err(e) => format!("ERROR: {e}"),
            });
            println!("reference decoder:      {}", match refwire::decode(&b) {
                Ok(back) if back == m => "same message".to_string(),
                Ok(back) => format!("DIFFERENT: {}", describe_message(&back)),
                Err(e) => format!("ERROR: {:?}", e.kind),
            });
            let au = audit(&b, &m);
            println!("pointer audit: {} pointers, {}", au.pointers, if au.ok() { "all address an identical earlier name".to_string() } else { format!("{:?} {:?}", au.ptr_fails.iter().map(|f| &f.text).collect::<Vec<_>>(), au.other) });
        }
        Err(e) => println!("encoder error: {e}"),
    }
    if acc.viols.is_empty() {
        println!("replay: property holds on this case");
        0
    } else {
        for (_, x) in &acc.viols {
            println!("clause {}{}: {}", x.clause, x.slug.map(|s| format!(" [{s}]")).unwrap_or_default(), x.summary);
        }
        println!("VIOLATION property={} replay=(replayed case)", ctx.id);
        1
    }
}

pub fn worker(_args: &[String]) -> i32 {
    2
}
