//! C09 — the server answers every message correctly framed and never goes down.
//!
//! E-SRV: the real `resolved` binary (hooks on, inert) is started on loopback in
//! two modes (authoritative-only; recursion offered, with a forwarder run by
//! this driver) and every message of a stated alphabet is sent to it over UDP
//! and TCP.  Each reply is compared with a small reference responder written
//! from the property statement; the sections/AA/RCODE part of the expectation
//! is what `dns_resolver::resolve` produces in-process for the same zone text.
//!
//! The first part of this file (process plumbing: `Server`, `LogBuf`,
//! `free_port`) is also used by C19.

use crate::common::*;
use crate::refwire;
use dns_resolver::cache::SharedCache;
use dns_resolver::util::types::{ProtocolMode, ResolvedRecord};
use dns_types::hosts::types::Hosts;
use dns_types::protocol::types::*;
use dns_types::zones::types::{Zone, Zones};
use serde_json::{json, Value};
use std::collections::{BTreeMap, BTreeSet, HashMap, HashSet};
use std::io::{BufRead, BufReader, Read, Write};
use std::net::{Ipv4Addr, Shutdown, SocketAddr, TcpListener, TcpStream, UdpSocket};
use std::os::unix::process::CommandExt;
use std::path::{Path, PathBuf};
use std::process::{Child, Command, Stdio};
use std::sync::atomic::{AtomicBool, AtomicU64, Ordering};
use std::sync::{Arc, Condvar, Mutex};
use std::time::{Duration, Instant};

// =====================================================================================
// Process plumbing (shared with C19)
// =====================================================================================

/// A port that is free for both UDP and TCP on 127.0.0.1 at the time of the call.
pub fn free_port() -> u16 {
    for _ in 0..200 {
        let Ok(u) = UdpSocket::bind((Ipv4Addr::LOCALHOST, 0)) else {
            continue;
        };
        let Ok(a) = u.local_addr() else { continue };
        if TcpListener::bind((Ipv4Addr::LOCALHOST, a.port())).is_ok() {
            return a.port();
        }
    }
    0
}

/// Lines of the server's stdout and stderr, in arrival order.
pub struct LogBuf {
    pub lines: Mutex<Vec<String>>,
    pub cv: Condvar,
}

impl LogBuf {
    pub fn new() -> Arc<LogBuf> {
        Arc::new(LogBuf {
            lines: Mutex::new(Vec::new()),
            cv: Condvar::new(),
        })
    }
    pub fn len(&self) -> usize {
        self.lines.lock().unwrap().len()
    }
    /// First line at index >= `from` satisfying `pred`, waiting up to `timeout`.
    pub fn wait_for<F: Fn(&str) -> bool>(
        &self,
        from: usize,
        timeout: Duration,
        pred: F,
    ) -> Option<(usize, String)> {
        let deadline = Instant::now() + timeout;
        let mut scanned = from;
        let mut g = self.lines.lock().unwrap();
        loop {
            while scanned < g.len() {
                if pred(&g[scanned]) {
                    return Some((scanned, g[scanned].clone()));
                }
                scanned += 1;
            }
            let now = Instant::now();
            if now >= deadline {
                return None;
            }
            let (ng, _) = self.cv.wait_timeout(g, deadline - now).unwrap();
            g = ng;
        }
    }
    pub fn tail(&self, n: usize) -> Vec<String> {
        let g = self.lines.lock().unwrap();
        g[g.len().saturating_sub(n)..].to_vec()
    }
    fn pump<R: Read + Send + 'static>(self: &Arc<Self>, r: R) {
        let me = self.clone();
        std::thread::spawn(move || {
            let rd = BufReader::new(r);
            for line in rd.split(b'\n') {
                let Ok(line) = line else { break };
                let s = String::from_utf8_lossy(&line).to_string();
                let mut g = me.lines.lock().unwrap();
                g.push(s);
                // keep memory bounded on very chatty runs
                if g.len() > 2_000_000 {
                    g.clear();
                }
                me.cv.notify_all();
            }
        });
    }
}

/// The `resolved` process under test.  Killed when dropped.
pub struct Server {
    child: Child,
    pub addr: SocketAddr,
    pub log: Arc<LogBuf>,
}

impl Server {
    /// Start `resolved -i 127.0.0.1:<free> --metrics-address 127.0.0.1:<free> <args>`
    /// and wait until it answers.  Must be called from a thread that outlives the
    /// server (the child is asked to die with the spawning thread).
    pub fn start(args: &[String], envs: &[(String, String)], rust_log: &str) -> Result<Server, String> {
        let bin = bin_dir().join("resolved");
        if !bin.exists() {
            return Err(format!("server binary {} missing", bin.display()));
        }
        let mut last = String::new();
        for _attempt in 0..5 {
            let port = free_port();
            let mport = free_port();
            if port == 0 || mport == 0 || port == mport {
                last = "no free port".into();
                continue;
            }
            let addr = SocketAddr::from((Ipv4Addr::LOCALHOST, port));
            let mut cmd = Command::new(&bin);
            cmd.arg("-i")
                .arg(addr.to_string())
                .arg("--metrics-address")
                .arg(format!("127.0.0.1:{mport}"))
                .args(args)
                .env("RUST_LOG", rust_log)
                .env("RUST_LOG_FORMAT", "no-ansi,no-time")
                .env_remove("RESOLVED_VERIF_GATE")
                .stdin(Stdio::null());
            if rust_log == "trace" {
                // rendered, then discarded: a pipe that the harness drains more slowly
                // than a trace-level server fills it would throttle the server
                cmd.stdout(Stdio::null()).stderr(Stdio::null());
            } else {
                cmd.stdout(Stdio::piped()).stderr(Stdio::piped());
            }
            for (k, v) in envs {
                cmd.env(k, v);
            }
            unsafe {
                cmd.pre_exec(|| {
                    libc::prctl(libc::PR_SET_PDEATHSIG, libc::SIGKILL);
                    Ok(())
                });
            }
            let mut child = match cmd.spawn() {
                Ok(c) => c,
                Err(e) => {
                    last = format!("spawn: {e}");
                    continue;
                }
            };
            let log = LogBuf::new();
            if let Some(o) = child.stdout.take() {
                log.pump(o);
            }
            if let Some(e) = child.stderr.take() {
                log.pump(e);
            }
            let mut srv = Server { child, addr, log };
            // readiness: a header-only STATUS request is answered NOTIMP without
            // touching the resolver (and hence without touching any gate)
            let deadline = Instant::now() + Duration::from_secs(15);
            let mut ready = false;
            if let Ok(sock) = UdpSocket::bind((Ipv4Addr::LOCALHOST, 0)) {
                let _ = sock.set_read_timeout(Some(Duration::from_millis(20)));
                let probe = [0xff, 0xff, 0x10, 0, 0, 0, 0, 0, 0, 0, 0, 0];
                let mut buf = [0u8; 600];
                while Instant::now() < deadline {
                    if !srv.alive() {
                        break;
                    }
                    let _ = sock.send_to(&probe, addr);
                    if let Ok((n, _)) = sock.recv_from(&mut buf) {
                        if n >= 2 && buf[0] == 0xff && buf[1] == 0xff {
                            ready = true;
                            break;
                        }
                    }
                }
            }
            if ready {
                // TCP listener is bound before the UDP task is spawned; make sure anyway
                if TcpStream::connect_timeout(&addr, Duration::from_secs(2)).is_ok() {
                    return Ok(srv);
                }
            }
            last = format!(
                "server did not become ready on {addr}; log tail: {:?}",
                srv.log.tail(8)
            );
            drop(srv);
        }
        Err(last)
    }

    pub fn alive(&mut self) -> bool {
        matches!(self.child.try_wait(), Ok(None))
    }

    pub fn pid(&self) -> i32 {
        self.child.id() as i32
    }

    pub fn signal(&self, sig: i32) {
        unsafe {
            libc::kill(self.pid(), sig);
        }
    }

    pub fn exit_status(&mut self) -> String {
        match self.child.try_wait() {
            Ok(Some(s)) => format!("{s}"),
            Ok(None) => "running".into(),
            Err(e) => format!("unknown ({e})"),
        }
    }
}

impl Drop for Server {
    fn drop(&mut self) {
        let _ = self.child.kill();
        let _ = self.child.wait();
    }
}

/// Removes a work directory when dropped.
pub struct DirGuard(pub PathBuf);
impl Drop for DirGuard {
    fn drop(&mut self) {
        let _ = std::fs::remove_dir_all(&self.0);
    }
}

// =====================================================================================
// UDP exchange engine
// =====================================================================================

const SENTINEL_LO: u16 = 0xff00;

/// `www.c9.test. A IN`, RD=0, with the given ID.
fn sentinel_query(id: u16) -> Vec<u8> {
    build_msg(id, 0, &[q_www_a()], &[], None)
}

/// Bounds the number of datagrams in flight towards one server (its socket buffer is
/// finite and the kernel drops what does not fit).
pub struct Sem {
    free: Mutex<usize>,
    cv: Condvar,
}

impl Sem {
    pub fn new(n: usize) -> Sem {
        Sem {
            free: Mutex::new(n),
            cv: Condvar::new(),
        }
    }
    fn acquire(&self, n: usize) {
        let mut g = self.free.lock().unwrap();
        while *g < n {
            g = self.cv.wait(g).unwrap();
        }
        *g -= n;
    }
    fn release(&self, n: usize) {
        *self.free.lock().unwrap() += n;
        self.cv.notify_all();
    }
}

pub struct BatchObs {
    /// Datagrams attributed (by ID) to each probe, in arrival order.
    pub replies: Vec<Vec<Vec<u8>>>,
    /// Datagrams that belong to no probe of the batch.
    pub strays: Vec<Vec<u8>>,
    /// Probes answered only when sent again on their own.
    pub retried: u64,
    /// The server stopped answering sentinels.
    pub dead: bool,
}

/// Send `msgs` (IDs already final, unique among messages of length >= 2 and below
/// `SENTINEL_LO`) in chunks of `window`, each chunk followed by a sentinel query; wait for the
/// sentinel and for one reply to every message with `expect[i]`.  After the last chunk a
/// final sentinel and a grace period establish "no reply" for everything else.
/// How long a batch waits for its sentinel's reply.  A responsive server answers in
/// milliseconds; the limit only decides when a server counts as slow or gone, so it is
/// generous (a loaded machine, a server that logs at trace level).
const SENTINEL_WAIT_MS: u64 = 6000;

pub fn udp_batch(addr: SocketAddr, msgs: &[Vec<u8>], expect: &[bool], window: usize, grace_ms: u64) -> BatchObs {
    udp_batch_sem(addr, msgs, expect, window, grace_ms, None)
}

pub fn udp_batch_sem(addr: SocketAddr, msgs: &[Vec<u8>], expect: &[bool], window: usize, grace_ms: u64, sem: Option<&Sem>) -> BatchObs {
    let n = msgs.len();
    let mut obs = BatchObs {
        replies: vec![Vec::new(); n],
        strays: Vec::new(),
        retried: 0,
        dead: false,
    };
    let sock = match UdpSocket::bind((Ipv4Addr::LOCALHOST, 0)) {
        Ok(s) => s,
        Err(_) => {
            obs.dead = true;
            return obs;
        }
    };
    let _ = sock.connect(addr);
    let mut by_id: HashMap<u16, usize> = HashMap::with_capacity(n);
    for (i, m) in msgs.iter().enumerate() {
        if m.len() >= 2 {
            by_id.insert(u16::from_be_bytes([m[0], m[1]]), i);
        }
    }
    let mut buf = vec![0u8; 70000];
    let mut sid_counter: u16 = 0;
    let mut next_sid = || {
        sid_counter = (sid_counter + 1) % 255;
        SENTINEL_LO + sid_counter
    };

    // receive until `need` hits zero or the deadline passes
    fn pump(
        sock: &UdpSocket,
        buf: &mut [u8],
        by_id: &HashMap<u16, usize>,
        expect: &[bool],
        obs: &mut BatchObs,
        sid: u16,
        need: &mut usize,
        sentinel_seen: &mut bool,
        deadline: Instant,
        until_deadline: bool,
    ) {
        loop {
            if !until_deadline && *need == 0 && *sentinel_seen {
                return;
            }
            let now = Instant::now();
            if now >= deadline {
                return;
            }
            let _ = sock.set_read_timeout(Some((deadline - now).max(Duration::from_millis(1))));
            match sock.recv(buf) {
                Ok(k) => {
                    let d = buf[..k].to_vec();
                    if k >= 2 {
                        let id = u16::from_be_bytes([d[0], d[1]]);
                        if id >= SENTINEL_LO {
                            if id == sid {
                                *sentinel_seen = true;
                            }
                            // late sentinel replies of earlier chunks are harmless
                            continue;
                        }
                        if let Some(&i) = by_id.get(&id) {
                            obs.replies[i].push(d);
                            if expect[i] && obs.replies[i].len() == 1 && *need > 0 {
                                *need -= 1;
                            }
                            continue;
                        }
                    }
                    obs.strays.push(d);
                }
                Err(_) => {}
            }
        }
    }

    let mut start = 0usize;
    while start < n {
        let end = (start + window).min(n);
        let mut need = 0usize;
        if let Some(sm) = sem {
            sm.acquire(window + 1);
        }
        for i in start..end {
            let _ = sock.send(&msgs[i]);
            if expect[i] && obs.replies[i].is_empty() {
                need += 1;
            }
        }
        let sid = next_sid();
        let _ = sock.send(&sentinel_query(sid));
        let mut seen = false;
        pump(
            &sock,
            &mut buf,
            &by_id,
            expect,
            &mut obs,
            sid,
            &mut need,
            &mut seen,
            Instant::now() + Duration::from_millis(SENTINEL_WAIT_MS),
            false,
        );
        if let Some(sm) = sem {
            sm.release(window + 1);
        }
        if need > 0 || !seen {
            // retry what is missing, one at a time (a lost datagram would be a property of
            // the sandbox, a missing reply of the server: the latter repeats)
            if !seen {
                let mut ok = false;
                for _ in 0..2 {
                    let sid2 = next_sid();
                    let _ = sock.send(&sentinel_query(sid2));
                    let mut zero = 0usize;
                    let mut s2 = false;
                    pump(
                        &sock,
                        &mut buf,
                        &by_id,
                        expect,
                        &mut obs,
                        sid2,
                        &mut zero,
                        &mut s2,
                        Instant::now() + Duration::from_millis(SENTINEL_WAIT_MS),
                        false,
                    );
                    if s2 {
                        ok = true;
                        break;
                    }
                }
                if !ok {
                    obs.dead = true;
                    return obs;
                }
            }
            for i in start..end {
                if expect[i] && obs.replies[i].is_empty() {
                    let _ = sock.send(&msgs[i]);
                    let sid3 = next_sid();
                    let _ = sock.send(&sentinel_query(sid3));
                    let mut one = 1usize;
                    let mut s3 = false;
                    pump(
                        &sock,
                        &mut buf,
                        &by_id,
                        expect,
                        &mut obs,
                        sid3,
                        &mut one,
                        &mut s3,
                        Instant::now() + Duration::from_millis(SENTINEL_WAIT_MS),
                        false,
                    );
                    if !obs.replies[i].is_empty() {
                        obs.retried += 1;
                    }
                    // the message went out twice: a late reply to the first copy next to
                    // the reply to the second is not a duplicate reply of the server
                    // (duplicates are judged on the messages that were sent once)
                    obs.replies[i].truncate(1);
                }
            }
        }
        start = end;
    }
    // final sentinel + grace
    let sid = next_sid();
    let _ = sock.send(&sentinel_query(sid));
    let mut zero = 0usize;
    let mut seen = false;
    pump(
        &sock,
        &mut buf,
        &by_id,
        expect,
        &mut obs,
        sid,
        &mut zero,
        &mut seen,
        Instant::now() + Duration::from_millis(2000),
        false,
    );
    if !seen {
        obs.dead = true;
        return obs;
    }
    pump(
        &sock,
        &mut buf,
        &by_id,
        expect,
        &mut obs,
        sid,
        &mut zero,
        &mut seen,
        Instant::now() + Duration::from_millis(grace_ms),
        true,
    );
    obs
}

// =====================================================================================
// Message construction
// =====================================================================================

pub fn name_wire(dotted: &str) -> Vec<u8> {
    let mut v = Vec::new();
    for l in dotted.split('.') {
        if l.is_empty() {
            continue;
        }
        v.push(l.len() as u8);
        v.extend_from_slice(l.as_bytes());
    }
    v.push(0);
    v
}

#[derive(Clone, Debug)]
pub struct Q {
    pub name: Vec<u8>,
    pub qtype: u16,
    pub qclass: u16,
}

pub fn q(name: &str, qtype: u16, qclass: u16) -> Q {
    Q {
        name: name_wire(name),
        qtype,
        qclass,
    }
}

fn q_www_a() -> Q {
    q("www.c9.test.", 1, 1)
}

/// Header (`flags` = the whole second 16-bit word) + questions + `extra` raw bytes.  Counts
/// are (questions, 0, 0, 0) unless overridden.
pub fn build_msg(id: u16, flags: u16, qs: &[Q], extra: &[u8], counts: Option<[u16; 4]>) -> Vec<u8> {
    let mut v = Vec::with_capacity(12 + 32 * qs.len() + extra.len());
    v.extend_from_slice(&id.to_be_bytes());
    v.extend_from_slice(&flags.to_be_bytes());
    let c = counts.unwrap_or([qs.len() as u16, 0, 0, 0]);
    for x in c {
        v.extend_from_slice(&x.to_be_bytes());
    }
    for qq in qs {
        v.extend_from_slice(&qq.name);
        v.extend_from_slice(&qq.qtype.to_be_bytes());
        v.extend_from_slice(&qq.qclass.to_be_bytes());
    }
    v.extend_from_slice(extra);
    v
}

fn set_id(m: &mut [u8], id: u16) {
    if m.len() >= 2 {
        m[0] = (id >> 8) as u8;
        m[1] = id as u8;
    } else if m.len() == 1 {
        m[0] = (id >> 8) as u8;
    }
}

const FLAG_RD: u16 = 0x0100;

// =====================================================================================
// The configuration served, and the in-process resolver used for expectations
// =====================================================================================

const BIG_FAMILY: usize = 48;
const BIG_T0: usize = 372;
const HUGE_RECORDS: usize = 290;

fn filler(seed: usize, len: usize) -> String {
    // distinct per seed, only [a-z0-9]
    let head = format!("r{seed}x");
    let mut s = String::with_capacity(len);
    s.push_str(&head);
    let alphabet = b"abcdefghijklmnopqrstuvwxyz0123456789";
    let mut i = 0usize;
    while s.len() < len {
        s.push(alphabet[(seed * 7 + i) % alphabet.len()] as char);
        i += 1;
    }
    s.truncate(len);
    s
}

pub fn zone_text() -> String {
    let mut z = String::new();
    z.push_str("$ORIGIN c9.test.\n");
    z.push_str("@ 300 IN SOA ns.c9.test. admin.c9.test. 1 3600 600 86400 300\n");
    z.push_str("@ 300 IN NS ns.c9.test.\n");
    z.push_str("@ 300 IN MX 10 mail.c9.test.\n");
    z.push_str("ns 300 IN A 192.0.2.1\n");
    z.push_str("mail 300 IN A 192.0.2.2\n");
    z.push_str("www 300 IN A 192.0.2.10\n");
    z.push_str("www 300 IN A 192.0.2.11\n");
    z.push_str("www 300 IN TXT hello\n");
    z.push_str("alias1 300 IN CNAME alias2.c9.test.\n");
    z.push_str("alias2 300 IN CNAME www.c9.test.\n");
    z.push_str("ext 300 IN CNAME www.other.test.\n");
    z.push_str("dangling 300 IN CNAME nowhere.c9.test.\n");
    z.push_str("*.wild 300 IN A 192.0.2.20\n");
    z.push_str("sub 300 IN NS ns.elsewhere.test.\n");
    z.push_str("sub 300 IN NS ns2.elsewhere.test.\n");
    for i in 0..BIG_FAMILY {
        z.push_str(&format!("s{i:02} 300 IN TXT {}\n", filler(i, BIG_T0 + i)));
    }
    for i in 0..HUGE_RECORDS {
        z.push_str(&format!("huge 300 IN TXT {}\n", filler(1000 + i, 230)));
    }
    z
}

pub fn hosts_text() -> String {
    "192.0.2.77 host1.lan\nfd00::77 host1.lan\n0.0.0.0 blocked.lan\n".to_string()
}

#[derive(Clone, Copy, Debug, Eq, PartialEq, Hash, Ord, PartialOrd)]
pub enum Mode {
    Auth,
    Rec,
    /// the same two configurations with RUST_LOG=trace, so that every log line
    /// of the server and the resolver is rendered (small alphabets only)
    AuthTrace,
    RecTrace,
}

impl Mode {
    fn name(self) -> &'static str {
        match self {
            Mode::Auth => "authoritative-only",
            Mode::Rec => "recursive+forwarder",
            Mode::AuthTrace => "authoritative-only, RUST_LOG=trace",
            Mode::RecTrace => "recursive+forwarder, RUST_LOG=trace",
        }
    }
    fn from_name(s: &str) -> Mode {
        match (s.starts_with("rec"), s.contains("trace")) {
            (true, false) => Mode::Rec,
            (true, true) => Mode::RecTrace,
            (false, false) => Mode::Auth,
            (false, true) => Mode::AuthTrace,
        }
    }
    /// the configuration without the log level
    fn base(self) -> Mode {
        match self {
            Mode::Auth | Mode::AuthTrace => Mode::Auth,
            Mode::Rec | Mode::RecTrace => Mode::Rec,
        }
    }
    fn log_level(self) -> &'static str {
        match self {
            Mode::Auth | Mode::Rec => "warn",
            Mode::AuthTrace | Mode::RecTrace => "trace",
        }
    }
}

/// What the resolver produced for a question, mapped to reply fields as the statement says
/// ("the answer and authority sections, AA and RCODE are those the resolver produced";
/// SERVFAIL when it produced nothing).
#[derive(Clone, Debug, Eq, PartialEq)]
pub struct Outcome {
    pub rcode: u8,
    pub aa: bool,
    pub answers: Vec<ResourceRecord>,
    pub authority: Vec<ResourceRecord>,
    /// Records came from upstream/cache: TTLs may have counted down.
    pub ttl_slack: bool,
}

fn outcome_of(res: Result<ResolvedRecord, dns_resolver::util::types::ResolutionError>, slack: bool) -> Outcome {
    let mut o = Outcome {
        rcode: 0,
        aa: false,
        answers: Vec::new(),
        authority: Vec::new(),
        ttl_slack: slack,
    };
    match res {
        Ok(ResolvedRecord::Authoritative { rrs, soa_rr }) => {
            o.answers = rrs;
            o.authority = vec![soa_rr];
            o.aa = true;
        }
        Ok(ResolvedRecord::AuthoritativeNameError { soa_rr }) => {
            o.authority = vec![soa_rr];
            o.rcode = 3;
            o.aa = true;
        }
        Ok(ResolvedRecord::NonAuthoritative { rrs, soa_rr }) => {
            o.answers = rrs;
            if let Some(s) = soa_rr {
                o.authority = vec![s];
            }
        }
        Ok(ResolvedRecord::Referral { ns_rrs }) => {
            o.authority = ns_rrs;
        }
        Err(_) => {}
    }
    if o.answers.is_empty() && o.authority.is_empty() && o.rcode == 0 {
        o.rcode = 2;
        o.aa = false;
    }
    o.answers.sort();
    o.authority.sort();
    o
}

pub struct World {
    zones: Zones,
    rt: tokio::runtime::Runtime,
    fwd: Option<SocketAddr>,
    memo: Mutex<HashMap<(Question, Mode, bool), Vec<Outcome>>>,
}

impl World {
    pub fn new(zone_text: &str, hosts_text: &str, fwd: Option<SocketAddr>) -> Result<World, String> {
        let zone = Zone::deserialise(zone_text).map_err(|e| format!("zone text does not load: {e:?}"))?;
        let hosts = Hosts::deserialise(hosts_text).map_err(|e| format!("hosts text does not load: {e:?}"))?;
        let mut zones = Zones::new();
        zones.insert_merge(zone);
        zones.insert_merge(hosts.into());
        let rt = tokio::runtime::Builder::new_current_thread()
            .enable_all()
            .build()
            .map_err(|e| format!("runtime: {e}"))?;
        Ok(World {
            zones,
            rt,
            fwd,
            memo: Mutex::new(HashMap::new()),
        })
    }

    /// Every outcome the resolver can produce for `q` in `mode` with RD = `rd`
    /// (several only where the shared cache's content matters).
    pub fn outcomes(&self, q: &Question, mode: Mode, rd: bool) -> Vec<Outcome> {
        let key = (q.clone(), mode, rd);
        let mut memo = self.memo.lock().unwrap();
        if let Some(v) = memo.get(&key) {
            return v.clone();
        }
        let run = |recursive: bool, cache: &SharedCache| -> Outcome {
            let (metrics, res) = self.rt.block_on(dns_resolver::resolve(
                recursive,
                ProtocolMode::OnlyV4,
                53,
                self.fwd,
                &self.zones,
                cache,
                q,
            ));
            outcome_of(res, metrics.cache_hits > 0 || metrics.nameserver_hits > 0)
        };
        let mut alts: Vec<Outcome> = Vec::new();
        match mode.base() {
            Mode::Auth | Mode::AuthTrace => alts.push(run(false, &SharedCache::new())),
            Mode::Rec | Mode::RecTrace => {
                let cache = SharedCache::new();
                if rd {
                    alts.push(run(true, &cache));
                    let warm = run(true, &cache);
                    if !alts.contains(&warm) {
                        alts.push(warm);
                    }
                } else {
                    alts.push(run(false, &cache));
                    let _ = run(true, &cache);
                    let warm = run(false, &cache);
                    if !alts.contains(&warm) {
                        alts.push(warm);
                    }
                }
            }
        }
        memo.insert(key, alts.clone());
        alts
    }
}

// =====================================================================================
// Reference responder (written from the property statement)
// =====================================================================================

#[derive(Clone, Debug)]
pub enum Expect {
    /// No datagram / no TCP payload may come back.
    NoReply(&'static str),
    FormErr {
        id: u16,
    },
    NotImp {
        id: u16,
        opcode: u8,
        rd: bool,
        questions: Vec<Question>,
    },
    Std {
        id: u16,
        rd: bool,
        questions: Vec<Question>,
        ra: bool,
        alts: Vec<Outcome>,
        refused: bool,
    },
}

impl Expect {
    fn wants_reply(&self) -> bool {
        !matches!(self, Expect::NoReply(_))
    }
    fn label(&self) -> String {
        match self {
            Expect::NoReply(w) => format!("no-reply({w})"),
            Expect::FormErr { .. } => "FORMERR".into(),
            Expect::NotImp { .. } => "NOTIMP".into(),
            Expect::Std { alts, refused, .. } => {
                if *refused {
                    "REFUSED".into()
                } else {
                    let o = &alts[0];
                    format!(
                        "rcode{}{}{}",
                        o.rcode,
                        if o.aa { "+AA" } else { "" },
                        if o.answers.is_empty() { "" } else { "+answers" }
                    )
                }
            }
        }
    }
}

/// Types and classes this server knows (RFC 1035 types 1..16, AAAA, SRV, the four QTYPEs;
/// class IN and QCLASS *).
fn known_qtype(t: u16) -> bool {
    (1..=16).contains(&t) || t == 28 || t == 33 || (252..=255).contains(&t)
}
fn known_qclass(c: u16) -> bool {
    c == 1 || c == 255
}

/// `short_read`: TCP only, fewer octets arrived than the length prefix announced.
pub fn reference(world: &World, mode: Mode, msg: &[u8], short_read: bool) -> Expect {
    if msg.len() < 2 {
        return Expect::NoReply("too short to hold an ID");
    }
    let id = u16::from_be_bytes([msg[0], msg[1]]);
    if msg.len() >= 3 && msg[2] & 0x80 != 0 {
        return Expect::NoReply("flagged as a response");
    }
    if short_read {
        return Expect::FormErr { id };
    }
    let m = match refwire::decode(msg) {
        Ok(m) => m,
        Err(_) => return Expect::FormErr { id },
    };
    let opcode = (msg[2] >> 3) & 0x0f;
    let rd = msg[2] & 1 != 0;
    if opcode != 0 {
        return Expect::NotImp {
            id,
            opcode,
            rd,
            questions: m.questions,
        };
    }
    let ra = mode.base() == Mode::Rec;
    let nothing = Outcome {
        rcode: 2,
        aa: false,
        answers: vec![],
        authority: vec![],
        ttl_slack: false,
    };
    let mut refused = false;
    let alts = if m.questions.len() > 1 {
        refused = true;
        vec![Outcome { rcode: 5, ..nothing }]
    } else if m.questions.is_empty() {
        vec![nothing]
    } else {
        let qq = &m.questions[0];
        if !known_qtype(qq.qtype.into()) || !known_qclass(qq.qclass.into()) {
            refused = true;
            vec![Outcome { rcode: 5, ..nothing }]
        } else {
            world.outcomes(qq, mode, rd)
        }
    };
    Expect::Std {
        id,
        rd,
        questions: m.questions,
        ra,
        alts,
        refused,
    }
}

#[derive(Clone, Copy, Debug, Eq, PartialEq)]
pub enum Transport {
    Udp,
    Tcp,
}

/// Records of a reply: all of them when it decodes, else (cut reply) the whole records it holds.
struct Decoded {
    flags1: u8,
    flags2: u8,
    questions: Option<Vec<Question>>,
    answers: Vec<ResourceRecord>,
    rest: Vec<ResourceRecord>,
    complete: bool,
}

fn decode_reply(reply: &[u8]) -> Decoded {
    let flags1 = reply[2];
    let flags2 = reply[3];
    match refwire::decode(reply) {
        Ok(m) => {
            let mut rest = m.authority;
            rest.extend(m.additional);
            Decoded {
                flags1,
                flags2,
                questions: Some(m.questions),
                answers: m.answers,
                rest,
                complete: true,
            }
        }
        Err(_) => {
            let an = u16::from_be_bytes([reply[6], reply[7]]) as usize;
            let recs = refwire::decode_prefix_records(reply);
            let k = an.min(recs.len());
            Decoded {
                flags1,
                flags2,
                questions: None,
                answers: recs[..k].to_vec(),
                rest: recs[k..].to_vec(),
                complete: false,
            }
        }
    }
}

fn sub_multiset(small: &[ResourceRecord], big: &[ResourceRecord], slack: bool) -> bool {
    let mut pool: Vec<Option<&ResourceRecord>> = big.iter().map(Some).collect();
    'outer: for r in small {
        for slot in pool.iter_mut() {
            if let Some(b) = slot {
                if rr_matches(r, b, slack) {
                    *slot = None;
                    continue 'outer;
                }
            }
        }
        return false;
    }
    true
}

fn rr_matches(actual: &ResourceRecord, expected: &ResourceRecord, slack: bool) -> bool {
    actual.name == expected.name
        && actual.rtype_with_data == expected.rtype_with_data
        && actual.rclass == expected.rclass
        && if slack {
            actual.ttl <= expected.ttl
        } else {
            actual.ttl == expected.ttl
        }
}

fn same_multiset(a: &[ResourceRecord], b: &[ResourceRecord], slack: bool) -> bool {
    a.len() == b.len() && sub_multiset(a, b, slack)
}

/// The statement's last clause: owners in the answer section are the question name or
/// names reached from it through CNAME records of that same section.
fn answer_owner_outsiders(qname: &DomainName, answers: &[ResourceRecord]) -> Vec<ResourceRecord> {
    let mut allowed: Vec<DomainName> = vec![qname.clone()];
    loop {
        let mut grew = false;
        for r in answers {
            if let RecordTypeWithData::CNAME { cname } = &r.rtype_with_data {
                if allowed.contains(&r.name) && !allowed.contains(cname) {
                    allowed.push(cname.clone());
                    grew = true;
                }
            }
        }
        if !grew {
            break;
        }
    }
    answers.iter().filter(|r| !allowed.contains(&r.name)).cloned().collect()
}

pub type Finding = (&'static str, String);

fn show_rr(r: &ResourceRecord) -> String {
    format!(
        "{} {} {} {:?}",
        r.name.to_dotted_string(),
        r.ttl,
        r.rtype_with_data.rtype(),
        r.rtype_with_data
    )
    .chars()
    .take(160)
    .collect()
}

/// Compare what came back for one message with the expectation.
pub fn judge(expect: &Expect, transport: Transport, replies: &[Vec<u8>]) -> Vec<Finding> {
    let mut f: Vec<Finding> = Vec::new();
    if let Expect::NoReply(why) = expect {
        if !replies.is_empty() {
            let clause = if why.starts_with("flagged") {
                "reply-to-response"
            } else {
                "reply-to-short"
            };
            f.push((clause, format!("{} reply(ies) to a message {why}: {}", replies.len(), hex(&replies[0][..replies[0].len().min(40)]))));
        }
        return f;
    }
    if replies.is_empty() {
        f.push(("no-reply", format!("no reply; expected {}", expect.label())));
        return f;
    }
    if replies.len() > 1 {
        f.push(("duplicate-reply", format!("{} replies to one message", replies.len())));
    }
    let reply = &replies[0];
    if transport == Transport::Udp && reply.len() > 512 {
        f.push(("udp-over-512", format!("UDP reply of {} bytes", reply.len())));
    }
    if reply.len() < 12 {
        f.push(("reply-malformed", format!("reply of {} bytes", reply.len())));
        return f;
    }
    let (eid, _) = match expect {
        Expect::FormErr { id } | Expect::NotImp { id, .. } | Expect::Std { id, .. } => (*id, ()),
        Expect::NoReply(_) => unreachable!(),
    };
    let rid = u16::from_be_bytes([reply[0], reply[1]]);
    if rid != eid {
        f.push(("id", format!("reply ID {rid:#06x}, request ID {eid:#06x}")));
    }
    let d = decode_reply(reply);
    if d.flags1 & 0x80 == 0 {
        f.push(("qr", "reply without the response flag".into()));
    }
    let tc = d.flags1 & 0x02 != 0;
    let limit = if transport == Transport::Udp { 512 } else { 65535 };
    if tc && reply.len() != limit {
        f.push(("tc", format!("TC set on a {}-byte {:?} reply (nothing was cut)", reply.len(), transport)));
    }
    if !tc && !d.complete {
        f.push(("tc", format!("{}-byte reply does not hold the records its header counts announce, TC clear", reply.len())));
    }
    let rcode = d.flags2 & 0x0f;
    let opcode = (d.flags1 >> 3) & 0x0f;
    let rd = d.flags1 & 1 != 0;
    let ra = d.flags2 & 0x80 != 0;
    let aa = d.flags1 & 0x04 != 0;
    match expect {
        Expect::NoReply(_) => {}
        Expect::FormErr { .. } => {
            if rcode != 1 {
                f.push(("formerr", format!("unparseable input answered with RCODE {rcode}")));
            }
            if !d.answers.is_empty() || !d.rest.is_empty() {
                f.push(("formerr", "FORMERR reply carries records".into()));
            }
        }
        Expect::NotImp {
            opcode: eop,
            rd: erd,
            questions,
            ..
        } => {
            if rcode != 4 {
                f.push(("notimp", format!("opcode {eop} answered with RCODE {rcode}")));
            }
            if opcode != *eop {
                f.push(("echo-opcode", format!("opcode {opcode} in reply to opcode {eop}")));
            }
            if rd != *erd {
                f.push(("echo-rd", format!("RD {rd} in reply to RD {erd}")));
            }
            if d.complete && d.questions.as_ref() != Some(questions) {
                f.push(("echo-question", format!("question section {:?} in reply to {:?}", d.questions, questions)));
            }
        }
        Expect::Std {
            rd: erd,
            questions,
            ra: era,
            alts,
            refused,
            ..
        } => {
            if opcode != 0 {
                f.push(("echo-opcode", format!("opcode {opcode} in reply to a standard query")));
            }
            if rd != *erd {
                f.push(("echo-rd", format!("RD {rd} in reply to RD {erd}")));
            }
            if d.complete && d.questions.as_ref() != Some(questions) {
                f.push(("echo-question", format!("question section {:?} in reply to {:?}", d.questions, questions)));
            }
            if ra != *era {
                f.push(("ra", format!("RA {ra}, recursion offered {era}")));
            }
            let fits = |o: &Outcome| -> bool {
                if o.rcode != rcode || o.aa != aa {
                    return false;
                }
                if d.complete {
                    let auth: Vec<ResourceRecord> = d.rest.clone();
                    same_multiset(&d.answers, &o.answers, o.ttl_slack) && same_multiset(&auth, &o.authority, o.ttl_slack)
                } else {
                    sub_multiset(&d.answers, &o.answers, o.ttl_slack) && sub_multiset(&d.rest, &o.authority, o.ttl_slack)
                }
            };
            if !alts.iter().any(fits) {
                let o = &alts[0];
                let clause = if *refused { "refused" } else { "sections" };
                f.push((
                    clause,
                    format!(
                        "reply rcode={rcode} aa={aa} answers={} other={} [{}]; resolver produced rcode={} aa={} answers={} authority={} [{}]",
                        d.answers.len(),
                        d.rest.len(),
                        d.answers.iter().chain(&d.rest).take(3).map(show_rr).collect::<Vec<_>>().join(" | "),
                        o.rcode,
                        o.aa,
                        o.answers.len(),
                        o.authority.len(),
                        o.answers.iter().chain(&o.authority).take(3).map(show_rr).collect::<Vec<_>>().join(" | "),
                    ),
                ));
            }
            if let Some(q0) = questions.first() {
                let outsiders = answer_owner_outsiders(&q0.name, &d.answers);
                if !outsiders.is_empty() {
                    f.push((
                        "answer-owner",
                        format!(
                            "answer section of the reply to `{} {}` (AA={aa}) holds {} record(s) not owned by the question name or its CNAME chain, first: {}",
                            q0.name.to_dotted_string(),
                            q0.qtype,
                            outsiders.len(),
                            show_rr(&outsiders[0])
                        ),
                    ));
                }
            }
        }
    }
    f
}

// =====================================================================================
// TCP exchange
// =====================================================================================

#[derive(Clone, Copy, Debug, Eq, PartialEq)]
pub enum CloseMode {
    /// write, then close both directions at once (the reply cannot be observed)
    Close,
    /// write, shut down the sending side, read to end of stream
    HalfClose,
    /// write, keep the connection open and read; only then shut down and read the rest
    KeepOpen,
}

impl CloseMode {
    fn name(self) -> &'static str {
        match self {
            CloseMode::Close => "close",
            CloseMode::HalfClose => "half-close",
            CloseMode::KeepOpen => "keep-open",
        }
    }
    fn from_name(s: &str) -> CloseMode {
        match s {
            "close" => CloseMode::Close,
            "keep-open" => CloseMode::KeepOpen,
            _ => CloseMode::HalfClose,
        }
    }
}

#[derive(Debug, Default, Clone)]
pub struct TcpObs {
    pub stream: Vec<u8>,
    pub connect_failed: bool,
    pub reset: bool,
    /// bytes received while our sending side was still open
    pub early: usize,
}

/// What the server has been given, from the octets written to the connection:
/// (message, short_read).  `None`: not even a complete length prefix.
pub fn tcp_delivered(sent: &[u8]) -> Option<(Vec<u8>, bool)> {
    if sent.len() < 2 {
        return None;
    }
    let declared = u16::from_be_bytes([sent[0], sent[1]]) as usize;
    let have = sent.len() - 2;
    if have < declared {
        Some((sent[2..].to_vec(), true))
    } else {
        Some((sent[2..2 + declared].to_vec(), false))
    }
}

fn read_all(s: &mut TcpStream, out: &mut Vec<u8>, total: Duration, reset: &mut bool) {
    let deadline = Instant::now() + total;
    let mut buf = vec![0u8; 70000];
    loop {
        let now = Instant::now();
        if now >= deadline {
            return;
        }
        let _ = s.set_read_timeout(Some((deadline - now).max(Duration::from_millis(1))));
        match s.read(&mut buf) {
            Ok(0) => return,
            Ok(k) => out.extend_from_slice(&buf[..k]),
            Err(e) => match e.kind() {
                std::io::ErrorKind::WouldBlock | std::io::ErrorKind::TimedOut => return,
                std::io::ErrorKind::Interrupted => {}
                _ => {
                    *reset = true;
                    return;
                }
            },
        }
    }
}

/// How long a connection is read for the reply (the read ends as soon as the server
/// closes, which it does after one message): generous, so that a slow server - a loaded
/// machine, trace-level logging of a 16 KiB message - is not mistaken for a silent one.
const TCP_REPLY_WAIT: Duration = Duration::from_secs(15);

pub fn tcp_exchange(addr: SocketAddr, segments: &[Vec<u8>], gap_ms: u64, mode: CloseMode) -> TcpObs {
    let mut obs = TcpObs::default();
    let mut s = match TcpStream::connect_timeout(&addr, Duration::from_secs(10)) {
        Ok(s) => s,
        Err(_) => {
            obs.connect_failed = true;
            return obs;
        }
    };
    let _ = s.set_nodelay(true);
    let _ = s.set_write_timeout(Some(Duration::from_secs(3)));
    let mut sent: Vec<u8> = Vec::new();
    for (i, seg) in segments.iter().enumerate() {
        if i > 0 && gap_ms > 0 {
            std::thread::sleep(Duration::from_millis(gap_ms));
        }
        let _ = s.write_all(seg);
        let _ = s.flush();
        sent.extend_from_slice(seg);
    }
    match mode {
        CloseMode::Close => {
            let _ = s.shutdown(Shutdown::Both);
        }
        CloseMode::HalfClose => {
            let _ = s.shutdown(Shutdown::Write);
            read_all(&mut s, &mut obs.stream, TCP_REPLY_WAIT, &mut obs.reset);
        }
        CloseMode::KeepOpen => {
            let complete = matches!(tcp_delivered(&sent), Some((_, false)));
            if complete {
                // the server has the whole message: whatever it answers must come now
                read_all(&mut s, &mut obs.stream, TCP_REPLY_WAIT, &mut obs.reset);
                obs.early = obs.stream.len();
            } else {
                let mut r = false;
                read_all(&mut s, &mut obs.stream, Duration::from_millis(25), &mut r);
                obs.early = obs.stream.len();
            }
            let _ = s.shutdown(Shutdown::Write);
            if !obs.reset {
                read_all(&mut s, &mut obs.stream, TCP_REPLY_WAIT, &mut obs.reset);
            }
        }
    }
    obs
}

/// Judge one TCP connection.  `sent` = all octets written.
pub fn judge_tcp(world: &World, mode: Mode, sent: &[u8], close: CloseMode, obs: &TcpObs) -> (Expect, Vec<Finding>) {
    let expect = match tcp_delivered(sent) {
        None => Expect::NoReply("too short to hold an ID"),
        Some((msg, short)) => reference(world, mode, &msg, short),
    };
    let mut f = Vec::new();
    if obs.connect_failed {
        f.push(("liveness", "TCP connection refused / timed out".to_string()));
        return (expect, f);
    }
    if close == CloseMode::Close {
        return (expect, f);
    }
    let mut replies: Vec<Vec<u8>> = Vec::new();
    if !obs.stream.is_empty() {
        if obs.stream.len() < 2 {
            f.push(("tcp-length-prefix", format!("{} octet(s) came back", obs.stream.len())));
            return (expect, f);
        }
        let declared = u16::from_be_bytes([obs.stream[0], obs.stream[1]]) as usize;
        let have = obs.stream.len() - 2;
        if declared != have {
            f.push((
                "tcp-length-prefix",
                format!("length prefix {declared}, {have} octets follow"),
            ));
        }
        replies.push(obs.stream[2..2 + declared.min(have)].to_vec());
    }
    f.extend(judge(&expect, Transport::Tcp, &replies));
    (expect, f)
}

// =====================================================================================
// Alphabets
// =====================================================================================

pub const N_SHAPES: usize = 12;
const SHAPE_NAMES: [&str; N_SHAPES] = [
    "0 questions",
    "1 known (www A IN)",
    "1 unknown type (TYPE65280)",
    "1 unknown class (CLASS2)",
    "qtype ANY",
    "2 questions",
    "qtype AXFR",
    "missing name (nx A)",
    "name below a delegation (deep.sub A)",
    "alias chain (alias1 A)",
    "hosts-file name (host1.lan A)",
    "www A with an OPT record",
];

fn shape_msg(shape: usize, flags: u16, id: u16) -> Vec<u8> {
    let w = "www.c9.test.";
    match shape {
        0 => build_msg(id, flags, &[], &[], None),
        1 => build_msg(id, flags, &[q(w, 1, 1)], &[], None),
        2 => build_msg(id, flags, &[q(w, 65280, 1)], &[], None),
        3 => build_msg(id, flags, &[q(w, 1, 2)], &[], None),
        4 => build_msg(id, flags, &[q(w, 255, 1)], &[], None),
        5 => build_msg(id, flags, &[q(w, 1, 1), q("ns.c9.test.", 1, 1)], &[], None),
        6 => build_msg(id, flags, &[q(w, 252, 1)], &[], None),
        7 => build_msg(id, flags, &[q("nx.c9.test.", 1, 1)], &[], None),
        8 => build_msg(id, flags, &[q("deep.sub.c9.test.", 1, 1)], &[], None),
        9 => build_msg(id, flags, &[q("alias1.c9.test.", 1, 1)], &[], None),
        10 => build_msg(id, flags, &[q("host1.lan.", 1, 1)], &[], None),
        _ => build_msg(id, flags, &[q(w, 1, 1)], &raw_rr(&[0], 41, 1232, 0, 0, &[]), Some([1, 0, 0, 1])),
    }
}

/// A record in wire form with an uncompressed owner.
fn raw_rr(owner: &[u8], rtype: u16, class: u16, ttl: u32, rdlength: u16, rdata: &[u8]) -> Vec<u8> {
    let mut v = owner.to_vec();
    v.extend_from_slice(&rtype.to_be_bytes());
    v.extend_from_slice(&class.to_be_bytes());
    v.extend_from_slice(&ttl.to_be_bytes());
    v.extend_from_slice(&rdlength.to_be_bytes());
    v.extend_from_slice(rdata);
    v
}

/// The deepest pointer ladder that fits below offset `limit` (pointer targets are 14-bit),
/// carried in the RDATA of a NULL record and entered from the owner of a second record.
pub fn ladder_msg(id: u16, limit: usize) -> (Vec<u8>, usize) {
    let mut m = build_msg(id, 0, &[q_www_a()], &[], Some([1, 0, 0, 2]));
    // NULL record, owner root
    m.push(0);
    m.extend_from_slice(&10u16.to_be_bytes());
    m.extend_from_slice(&1u16.to_be_bytes());
    m.extend_from_slice(&0u32.to_be_bytes());
    let rdlen_at = m.len();
    m.extend_from_slice(&[0, 0]);
    let rd_start = m.len();
    m.push(0); // a root name: the foot of the ladder
    let mut prev = rd_start;
    let mut hops = 0usize;
    while m.len() + 2 <= limit.min(0x3fff) {
        let at = m.len();
        m.push(0xc0 | (prev >> 8) as u8);
        m.push(prev as u8);
        prev = at;
        hops += 1;
    }
    let rdlen = m.len() - rd_start;
    m[rdlen_at] = (rdlen >> 8) as u8;
    m[rdlen_at + 1] = rdlen as u8;
    // second record: owner = pointer to the top of the ladder
    let owner = [0xc0 | (prev >> 8) as u8, prev as u8];
    m.extend_from_slice(&raw_rr(&owner, 1, 1, 0, 4, &[192, 0, 2, 99]));
    (m, hops + 1)
}

fn long_name(total: usize) -> Vec<u8> {
    // labels of 63 octets until `total` wire octets (incl. the root octet) are reached
    let mut v = Vec::new();
    let mut left = total - 1;
    while left > 0 {
        let l = (left - 1).min(63);
        if l == 0 {
            // cannot place a zero-length label: extend the previous one instead
            break;
        }
        v.push(l as u8);
        v.extend(std::iter::repeat(b'a').take(l));
        left -= l + 1;
    }
    v.push(0);
    v
}

pub const QUESTION_NAMES: [&str; 22] = [
    "www.c9.test.",
    "c9.test.",
    "ns.c9.test.",
    "alias1.c9.test.",
    "alias2.c9.test.",
    "ext.c9.test.",
    "dangling.c9.test.",
    "x.wild.c9.test.",
    "a.b.wild.c9.test.",
    "wild.c9.test.",
    "nx.c9.test.",
    "sub.c9.test.",
    "deep.sub.c9.test.",
    "WwW.C9.TeSt.",
    "www.other.test.",
    "other.test.",
    ".",
    "host1.lan.",
    "blocked.lan.",
    "nohost.lan.",
    "huge.c9.test.",
    "test.",
];
const QTYPES: [u16; 9] = [1, 2, 5, 6, 15, 16, 28, 255, 252];

/// (class label, message with ID 0).  Every message is at most 512 octets.
pub fn misc_messages(tier: Tier) -> Vec<(String, Vec<u8>)> {
    let mut out: Vec<(String, Vec<u8>)> = Vec::new();
    let base = build_msg(0, FLAG_RD, &[q_www_a()], &[], None);
    // every prefix of a valid query, of a two-question message and of a query with an OPT record
    let opt = raw_rr(&[0], 41, 1232, 0, 0, &[]);
    let with_opt = build_msg(0, FLAG_RD, &[q_www_a()], &opt, Some([1, 0, 0, 1]));
    let two = build_msg(0, 0, &[q_www_a(), q("ns.c9.test.", 16, 1)], &[], None);
    let mut resp_like = build_msg(0, 0x8000, &[q_www_a()], &[], None);
    resp_like.extend_from_slice(&[]);
    for (tag, m) in [("query", &base), ("query+OPT", &with_opt), ("two-questions", &two), ("response", &resp_like)] {
        for l in 0..=m.len() {
            out.push((format!("prefix {l}/{} of {tag}", m.len()), m[..l].to_vec()));
        }
    }
    // questions about the served configuration
    for name in QUESTION_NAMES {
        for qt in QTYPES {
            for rd in [0u16, FLAG_RD] {
                out.push((
                    format!("question {name} TYPE{qt} rd={}", rd != 0),
                    build_msg(0, rd, &[q(name, qt, 1)], &[], None),
                ));
            }
        }
        out.push((format!("question {name} A class ANY"), build_msg(0, 0, &[q(name, 1, 255)], &[], None)));
    }
    for i in 0..BIG_FAMILY {
        let name = format!("s{i:02}.c9.test.");
        out.push((format!("question {name} TXT (size family)"), build_msg(0, 0, &[q(&name, 16, 1)], &[], None)));
    }
    // unknown types / classes beyond the one of the flag sweep
    for t in [0u16, 17, 41, 99, 251, 256, 65535] {
        out.push((format!("qtype {t}"), build_msg(0, 0, &[q("www.c9.test.", t, 1)], &[], None)));
    }
    for c in [0u16, 2, 3, 4, 254, 256, 65535] {
        out.push((format!("qclass {c}"), build_msg(0, 0, &[q("www.c9.test.", 1, c)], &[], None)));
    }
    // malformed classes (C03's deviation classes, once each)
    let w = name_wire("www.c9.test.");
    let hdr = |counts: [u16; 4]| build_msg(0, 0, &[], &[], Some(counts));
    let mut add = |label: &str, mut m: Vec<u8>, tail: &[u8]| {
        m.extend_from_slice(tail);
        out.push((format!("malformed: {label}"), m));
    };
    for lt in [0x40u8, 0x7f, 0x80, 0xbf] {
        add(&format!("label type {lt:#04x}"), hdr([1, 0, 0, 0]), &[lt, b'a', 0, 0, 1, 0, 1]);
    }
    add("pointer to itself", hdr([1, 0, 0, 0]), &[0xc0, 12, 0, 1, 0, 1]);
    add("pointer forwards", hdr([1, 0, 0, 0]), &[0xc0, 20, 0, 1, 0, 1, 0, 0, 0, 0]);
    add("pointer into the header", hdr([1, 0, 0, 0]), &[0xc0, 0, 0, 1, 0, 1]);
    add("pointer into the header (count field)", hdr([1, 0, 0, 0]), &[0xc0, 4, 0, 1, 0, 1]);
    add("pointer past the end", hdr([1, 0, 0, 0]), &[0xc0, 0xff, 0, 1, 0, 1]);
    add("pointer loop of two", hdr([1, 0, 0, 0]), &[0xc0, 14, 0xc0, 12, 0, 1, 0, 1]);
    add("label then pointer into own label", hdr([1, 0, 0, 0]), &[1, b'a', 0xc0, 12, 0, 1, 0, 1]);
    add("label runs past the end", hdr([1, 0, 0, 0]), &[9, b'a', b'b']);
    add("name without terminator", hdr([1, 0, 0, 0]), &[1, b'a', 1, b'b']);
    add("question without type/class", hdr([1, 0, 0, 0]), &w);
    add("question with half a class", hdr([1, 0, 0, 0]), &[w.as_slice(), &[0, 1, 0]].concat());
    add("qdcount 1, no question", hdr([1, 0, 0, 0]), &[]);
    add("qdcount 65535, no payload", hdr([65535, 0, 0, 0]), &[]);
    add("all counts 65535, no payload", hdr([65535, 65535, 65535, 65535]), &[]);
    add("ancount 1, no record", build_msg(0, 0, &[q_www_a()], &[], Some([1, 1, 0, 0])), &[]);
    add("arcount 1, no record", build_msg(0, 0, &[q_www_a()], &[], Some([1, 0, 0, 1])), &[]);
    let q256 = Q { name: long_name(256), qtype: 1, qclass: 1 };
    let q255 = Q { name: long_name(255), qtype: 1, qclass: 1 };
    add("name of 256 octets", build_msg(0, 0, &[q256], &[], None), &[]);
    add("name of 255 octets (valid)", build_msg(0, 0, &[q255], &[], None), &[]);
    for (label, rdlen, rdata) in [
        ("A with RDLENGTH 3", 3u16, vec![1u8, 2, 3]),
        ("A with RDLENGTH 5", 5, vec![1, 2, 3, 4, 5]),
        ("A with RDLENGTH 0", 0, vec![]),
        ("A with RDLENGTH 65535", 65535, vec![1, 2, 3, 4]),
        ("A with RDLENGTH 4 (valid)", 4, vec![1, 2, 3, 4]),
    ] {
        let r = raw_rr(&w, 1, 1, 0, rdlen, &rdata);
        add(label, build_msg(0, 0, &[q_www_a()], &r, Some([1, 0, 0, 1])), &[]);
    }
    let mx_bad = raw_rr(&w, 15, 1, 0, 3, &[0, 10, 0xc0]);
    add("MX whose exchange is cut by RDLENGTH", build_msg(0, 0, &[q_www_a()], &mx_bad, Some([1, 0, 0, 1])), &[]);
    let soa_short = raw_rr(&w, 6, 1, 0, 6, &[0, 0, 0, 0, 0, 1]);
    add("SOA with 6 octets of RDATA", build_msg(0, 0, &[q_www_a()], &soa_short, Some([1, 0, 0, 1])), &[]);
    let unk = raw_rr(&w, 65280, 7, 5, 3, &[9, 9, 9]);
    add("unknown-type record in additional (valid)", build_msg(0, 0, &[q_www_a()], &unk, Some([1, 0, 0, 1])), &[]);
    add("trailing garbage after the question (valid)", build_msg(0, 0, &[q_www_a()], &[0xde, 0xad, 0xbe, 0xef], None), &[]);
    let mut padded = build_msg(0, 0, &[q_www_a()], &[], None);
    padded.resize(512, 0);
    add("query padded with zeros to 512 octets (valid)", padded, &[]);
    let mut ff = build_msg(0, 0, &[q_www_a()], &[], None);
    ff.resize(512, 0xff);
    add("query padded with 0xff to 512 octets (valid)", ff, &[]);
    add("512 octets of 0xff after the ID", {
        let mut m = vec![0u8, 0];
        m.resize(512, 0xff);
        m[2] = 0x7f; // QR clear
        m
    }, &[]);
    add("512 zero octets", vec![0u8; 512], &[]);
    let (lad, _) = ladder_msg(0, 512 - 16);
    add("pointer ladder filling a datagram (valid)", lad, &[]);
    // questions in compressed form: second question name points at the first
    let mut cq = build_msg(0, 0, &[q_www_a()], &[], Some([2, 0, 0, 0]));
    cq.extend_from_slice(&[0xc0, 12, 0, 16, 0, 1]);
    add("two questions, second name compressed (valid)", cq, &[]);
    let mut cq1 = build_msg(0, 0, &[], &[], Some([1, 0, 0, 0]));
    cq1.extend_from_slice(&[3, b'w', b'w', b'w', 0xc0, 18, 2, b'c', b'9', 4, b't', b'e', b's', b't', 0, 0, 1, 0, 1]);
    add("question name with a forward pointer", cq1, &[]);
    if tier == Tier::Thorough {
        // every single-octet truncation and every bit flip of the OPT query
        for i in 0..with_opt.len() {
            for bit in 0..8 {
                let mut m = with_opt.clone();
                m[i] ^= 1 << bit;
                if i < 2 {
                    continue;
                }
                out.push((format!("bit flip {i}.{bit} of query+OPT"), m));
            }
        }
        // every single-octet substitution of the plain query (ID octets excepted)
        for i in 2..base.len() {
            for v in 0..=255u8 {
                if v == base[i] {
                    continue;
                }
                let mut m = base.clone();
                m[i] = v;
                out.push((format!("octet {i} of the query set to {v:#04x}"), m));
            }
        }
    }
    out
}

/// The 40 message classes whose ordered pairs are sent back to back.
pub fn pair_alphabet() -> Vec<(String, Vec<u8>)> {
    let mut v: Vec<(String, Vec<u8>)> = Vec::new();
    let mut add = |l: &str, m: Vec<u8>| v.push((l.to_string(), m));
    let qq = |n: &str, t: u16, f: u16| build_msg(0, f, &[q(n, t, 1)], &[], None);
    add("www A", qq("www.c9.test.", 1, 0));
    add("www A rd", qq("www.c9.test.", 1, FLAG_RD));
    add("www TXT", qq("www.c9.test.", 16, 0));
    add("www ANY", qq("www.c9.test.", 255, 0));
    add("www AXFR", qq("www.c9.test.", 252, 0));
    add("www MX (nodata)", qq("www.c9.test.", 15, 0));
    add("nx A (nxdomain)", qq("nx.c9.test.", 1, 0));
    add("alias1 A (chain)", qq("alias1.c9.test.", 1, 0));
    add("ext A rd (chain leaving)", qq("ext.c9.test.", 1, FLAG_RD));
    add("wildcard A", qq("x.wild.c9.test.", 1, 0));
    add("delegation A", qq("deep.sub.c9.test.", 1, 0));
    add("apex SOA", qq("c9.test.", 6, 0));
    add("apex NS", qq("c9.test.", 2, 0));
    add("hosts A", qq("host1.lan.", 1, 0));
    add("outside A", qq("nohost.lan.", 1, 0));
    add("outside A rd", qq("www.other.test.", 1, FLAG_RD));
    add("s20 TXT (cut)", qq("s20.c9.test.", 16, 0));
    add("s00 TXT (fits)", qq("s00.c9.test.", 16, 0));
    add("huge TXT (cut)", qq("huge.c9.test.", 16, 0));
    add("mixed case", qq("WwW.C9.TeSt.", 1, 0));
    add("0 questions", build_msg(0, 0, &[], &[], None));
    add("2 questions", build_msg(0, 0, &[q_www_a(), q("ns.c9.test.", 1, 1)], &[], None));
    add("unknown type", qq("www.c9.test.", 65280, 0));
    add("unknown class", build_msg(0, 0, &[q("www.c9.test.", 1, 2)], &[], None));
    add("class ANY", build_msg(0, 0, &[q("www.c9.test.", 1, 255)], &[], None));
    add("opcode 1", qq("www.c9.test.", 1, 1 << 11));
    add("opcode 2 rd", qq("www.c9.test.", 1, (2 << 11) | FLAG_RD));
    add("opcode 15, no question", build_msg(0, 15 << 11, &[], &[], None));
    add("response", qq("www.c9.test.", 1, 0x8000));
    add("response, opcode 5, rcode 3", qq("www.c9.test.", 1, 0x8000 | (5 << 11) | 3));
    add("query with AA TC RA Z rcode bits", qq("www.c9.test.", 1, 0x06ff));
    add("empty datagram", vec![]);
    add("one octet", vec![0]);
    add("two octets", vec![0, 0]);
    add("eleven octets", vec![0; 11]);
    add("header promising a question", build_msg(0, 0, &[], &[], Some([1, 0, 0, 0])));
    let mut cutq = qq("www.c9.test.", 1, 0);
    cutq.truncate(cutq.len() - 3);
    add("question cut short", cutq);
    let mut bad = build_msg(0, 0, &[], &[], Some([1, 0, 0, 0]));
    bad.extend_from_slice(&[0x40, b'a', 0, 0, 1, 0, 1]);
    add("label type 0x40", bad);
    let mut selfp = build_msg(0, 0, &[], &[], Some([1, 0, 0, 0]));
    selfp.extend_from_slice(&[0xc0, 12, 0, 1, 0, 1]);
    add("pointer to itself", selfp);
    let opt = raw_rr(&[0], 41, 1232, 0, 0, &[]);
    add("query with OPT", build_msg(0, FLAG_RD, &[q_www_a()], &opt, Some([1, 0, 0, 1])));
    v
}

pub struct TcpCase {
    pub label: String,
    pub segments: Vec<Vec<u8>>,
    pub gap_ms: u64,
    pub close: CloseMode,
}

fn framed(m: &[u8]) -> Vec<u8> {
    let mut v = (m.len() as u16).to_be_bytes().to_vec();
    v.extend_from_slice(m);
    v
}

/// TCP framing cases; IDs are assigned from `id0` upwards so that every connection
/// carries its own.
pub fn tcp_cases(tier: Tier, id0: u16) -> Vec<TcpCase> {
    let mut out = Vec::new();
    let mut id = id0;
    let mut next_id = || {
        id = id.wrapping_add(1);
        if id >= SENTINEL_LO {
            id = 1;
        }
        id
    };
    let l = build_msg(0, FLAG_RD, &[q_www_a()], &[], None).len();
    let declared: Vec<usize> = vec![0, 1, 2, 11, 12, l - 1, l, l + 1, 65535];
    let bases: Vec<(&str, u16)> = if tier == Tier::Thorough {
        vec![("query", FLAG_RD), ("response", 0x8000 | FLAG_RD), ("opcode-2", 2 << 11)]
    } else {
        vec![("query", FLAG_RD), ("response", 0x8000 | FLAG_RD)]
    };
    for (tag, flags) in &bases {
        for &d in &declared {
            for sent in 0..=l {
                for close in [CloseMode::Close, CloseMode::HalfClose, CloseMode::KeepOpen] {
                    if *tag != "query" && (close == CloseMode::Close || ![0usize, 2, 3, 12, l - 1, l].contains(&sent)) && tier == Tier::Quick {
                        continue;
                    }
                    let m = build_msg(next_id(), *flags, &[q_www_a()], &[], None);
                    let mut s = (d as u16).to_be_bytes().to_vec();
                    s.extend_from_slice(&m[..sent]);
                    out.push(TcpCase {
                        label: format!("{tag}: declared {d}, sent {sent} of {l}, {}", close.name()),
                        segments: vec![s],
                        gap_ms: 0,
                        close,
                    });
                }
            }
        }
    }
    // nothing / half a length prefix
    for close in [CloseMode::Close, CloseMode::HalfClose, CloseMode::KeepOpen] {
        out.push(TcpCase { label: format!("no octets, {}", close.name()), segments: vec![vec![]], gap_ms: 0, close });
        out.push(TcpCase { label: format!("one octet of the length prefix, {}", close.name()), segments: vec![vec![0]], gap_ms: 0, close });
    }
    // every two-segment split of a framed valid query
    let fr_len = l + 2;
    for k in 1..fr_len {
        let fr = framed(&build_msg(next_id(), FLAG_RD, &[q_www_a()], &[], None));
        out.push(TcpCase {
            label: format!("framed query split after {k} of {fr_len} octets"),
            segments: vec![fr[..k].to_vec(), fr[k..].to_vec()],
            gap_ms: 3,
            close: if k % 2 == 0 { CloseMode::HalfClose } else { CloseMode::KeepOpen },
        });
    }
    // the deepest pointer ladder
    let (lad, hops) = ladder_msg(next_id(), 0x3fff);
    out.push(TcpCase {
        label: format!("pointer ladder of {hops} hops in a {}-octet message", lad.len()),
        segments: vec![framed(&lad)],
        gap_ms: 0,
        close: CloseMode::HalfClose,
    });
    // a maximal message: 65535 octets, valid query followed by padding
    let mut maxm = build_msg(next_id(), 0, &[q_www_a()], &[], None);
    maxm.resize(65535, 0);
    out.push(TcpCase {
        label: "valid query padded to 65535 octets".into(),
        segments: vec![framed(&maxm)],
        gap_ms: 0,
        close: CloseMode::HalfClose,
    });
    // two messages on one connection (D10: only the first is judged, through tcp_delivered)
    let mut twice = framed(&build_msg(next_id(), 0, &[q_www_a()], &[], None));
    twice.extend_from_slice(&framed(&build_msg(next_id(), 0, &[q("ns.c9.test.", 1, 1)], &[], None)));
    out.push(TcpCase {
        label: "two framed queries on one connection (first judged, D10)".into(),
        segments: vec![twice],
        gap_ms: 0,
        close: CloseMode::HalfClose,
    });
    out
}

// =====================================================================================
// The forwarder the recursive-capable server is pointed at
// =====================================================================================

pub struct Forwarder {
    pub addr: SocketAddr,
    stop: Arc<AtomicBool>,
    pub served: Arc<AtomicU64>,
}

impl Drop for Forwarder {
    fn drop(&mut self) {
        self.stop.store(true, Ordering::SeqCst);
    }
}

/// Answers every query: `qname A 192.0.2.53` (TTL 300) for qtype A / ANY, an empty NOERROR
/// reply otherwise.
pub fn start_forwarder() -> Result<Forwarder, String> {
    let sock = UdpSocket::bind((Ipv4Addr::LOCALHOST, 0)).map_err(|e| format!("forwarder: {e}"))?;
    let addr = sock.local_addr().map_err(|e| format!("forwarder: {e}"))?;
    let _ = sock.set_read_timeout(Some(Duration::from_millis(100)));
    let stop = Arc::new(AtomicBool::new(false));
    let served = Arc::new(AtomicU64::new(0));
    let (stop2, served2) = (stop.clone(), served.clone());
    std::thread::spawn(move || {
        let mut buf = [0u8; 1500];
        while !stop2.load(Ordering::SeqCst) {
            let Ok((n, peer)) = sock.recv_from(&mut buf) else {
                continue;
            };
            let Ok(m) = refwire::decode(&buf[..n]) else {
                continue;
            };
            if m.header.is_response {
                continue;
            }
            let mut r = m.make_response();
            r.header.recursion_available = true;
            if let Some(q0) = m.questions.first() {
                let t: u16 = q0.qtype.into();
                if t == 1 || t == 255 {
                    r.answers.push(ResourceRecord {
                        name: q0.name.clone(),
                        rtype_with_data: RecordTypeWithData::A {
                            address: Ipv4Addr::new(192, 0, 2, 53),
                        },
                        rclass: RecordClass::IN,
                        ttl: 300,
                    });
                }
            }
            let bytes = refwire::encode(&r, refwire::Compress::None);
            let _ = sock.send_to(&bytes, peer);
            served2.fetch_add(1, Ordering::Relaxed);
        }
    });
    Ok(Forwarder { addr, stop, served })
}

// =====================================================================================
// Work items
// =====================================================================================

#[derive(Clone, Debug)]
enum Item {
    Flags { mode: Mode, shape: usize, lo: u32, hi: u32 },
    Misc { mode: Mode, lo: usize, hi: usize },
    Tcp { mode: Mode, lo: usize, hi: usize },
    /// ordered tuples (pairs, triples) of the pair alphabet, back to back on one socket
    Pairs { mode: Mode, arity: usize, lo: usize, hi: usize },
}

#[derive(Default)]
struct ItemResult {
    messages: u64,
    pairs: u64,
    compared: u64,
    nontrivial: u64,
    retried: u64,
    not_judged_reset: u64,
    hist: BTreeMap<String, u64>,
    violations: Vec<Violation>,
    samples: Vec<Value>,
    dead: bool,
    distinct: HashSet<u64>,
    /// full (TCP) reply length per size-family question
    family_sizes: BTreeMap<String, usize>,
    /// messages of the item, for the search after a crash
    sent_for_bisect: Vec<(Transport, Vec<u8>)>,
    /// violations of the item per clause (only the first few are materialised)
    vcount: BTreeMap<String, u64>,
}

const PER_ITEM_CLAUSE_CAP: u64 = 4;

impl ItemResult {
    /// True when a violation of this clause should still be written out in full.
    fn admit(&mut self, clause: &str) -> bool {
        let n = self.vcount.entry(clause.to_string()).or_insert(0);
        *n += 1;
        *n <= PER_ITEM_CLAUSE_CAP
    }
}

struct Env<'a> {
    world: &'a World,
    addr: BTreeMap<Mode, SocketAddr>,
    misc: &'a [(String, Vec<u8>)],
    tcp: &'a [TcpCase],
    pairs: &'a [(String, Vec<u8>)],
    deadline: Instant,
    sems: BTreeMap<Mode, Sem>,
    window: usize,
    /// set once a server stopped answering: the rest of its work is pointless
    down: BTreeMap<Mode, AtomicBool>,
}

fn slug_for(clause: &str, msg: &[u8], short: bool) -> Option<&'static str> {
    match clause {
        "referral-in-answer-section" => Some("referral-in-answer-section"),
        "reply-to-response" => {
            if short || refwire::decode(msg).is_err() {
                Some("formerr-reply-to-malformed-response")
            } else {
                None
            }
        }
        _ => None,
    }
}

/// Narrow the generic owner clause to the anticipated family: the outsiders are the NS
/// set of one proper ancestor of the question name, sent with AA in a NOERROR reply.
fn refine_findings(expect: &Expect, replies: &[Vec<u8>], findings: Vec<Finding>) -> Vec<Finding> {
    let mut out = Vec::new();
    for (clause, text) in findings {
        if clause == "answer-owner" {
            if let (Expect::Std { questions, .. }, Some(reply)) = (expect, replies.first()) {
                if let (Some(q0), true) = (questions.first(), reply.len() >= 12) {
                    let d = decode_reply(reply);
                    let outsiders = answer_owner_outsiders(&q0.name, &d.answers);
                    let one_owner = outsiders.iter().all(|r| r.name == outsiders[0].name);
                    let all_ns = outsiders.iter().all(|r| matches!(r.rtype_with_data, RecordTypeWithData::NS { .. }));
                    let ancestor = q0.name != outsiders[0].name && q0.name.is_subdomain_of(&outsiders[0].name);
                    let aa = d.flags1 & 0x04 != 0;
                    let noerror = d.flags2 & 0x0f == 0;
                    if one_owner && all_ns && ancestor && aa && noerror && outsiders.len() == d.answers.len() {
                        out.push(("referral-in-answer-section", text));
                        continue;
                    }
                }
            }
        }
        out.push((clause, text));
    }
    out
}

fn udp_violation(mode: Mode, label: &str, msgs: &[&Vec<u8>], which: usize, clause: &'static str, text: &str) -> Violation {
    Violation {
        clause: clause.to_string(),
        summary: format!("[{} UDP] {label}: {text} (message {})", mode.name(), hex(&msgs[which][..msgs[which].len().min(48)])),
        replay: json!({
            "mode": mode.name(),
            "transport": "udp",
            "label": label,
            "msgs": msgs.iter().map(|m| hex(m)).collect::<Vec<_>>(),
        }),
        slug: slug_for(clause, msgs[which], false),
    }
}

fn note_distinct(res: &mut ItemResult, mode: Mode, t: Transport, m: &[u8]) {
    let mut k = vec![mode as u8, t as u8];
    k.extend_from_slice(m);
    if k.len() >= 4 {
        k[2] = 0;
        k[3] = 0;
    }
    res.distinct.insert(fnv64(&k));
}

fn is_nontrivial(e: &Expect) -> bool {
    match e {
        Expect::Std { alts, refused, .. } => *refused || alts[0].rcode != 0 || alts.len() > 1,
        _ => true,
    }
}

fn env_down(env: &Env, mode: Mode) -> bool {
    env.down.get(&mode).map(|d| d.load(Ordering::SeqCst)).unwrap_or(false)
}

fn run_item(env: &Env, item: &Item) -> ItemResult {
    let mut res = ItemResult::default();
    if Instant::now() > env.deadline {
        res.hist.insert("skipped (wall-clock cap)".into(), 1);
        return res;
    }
    let item_mode = match item {
        Item::Flags { mode, .. } | Item::Misc { mode, .. } | Item::Tcp { mode, .. } | Item::Pairs { mode, .. } => *mode,
    };
    if env.down[&item_mode].load(Ordering::SeqCst) {
        res.hist.insert(format!("{}/skipped (server down)", item_mode.name()), 1);
        return res;
    }
    let res = run_item_inner(env, item);
    if res.dead {
        env.down[&item_mode].store(true, Ordering::SeqCst);
    }
    res
}

fn run_item_inner(env: &Env, item: &Item) -> ItemResult {
    let mut res = ItemResult::default();
    match item {
        Item::Flags { mode, shape, lo, hi } => {
            let addr = env.addr[mode];
            let msgs: Vec<Vec<u8>> = (*lo..*hi).map(|f| shape_msg(*shape, f as u16, (f - lo) as u16)).collect();
            let expects: Vec<Expect> = msgs.iter().map(|m| reference(env.world, *mode, m, false)).collect();
            let want: Vec<bool> = expects.iter().map(Expect::wants_reply).collect();
            let obs = udp_batch_sem(addr, &msgs, &want, env.window, 60, Some(&env.sems[mode]));
            res.retried += obs.retried;
            res.dead = obs.dead;
            res.messages += msgs.len() as u64;
            for (i, m) in msgs.iter().enumerate() {
                let findings = refine_findings(&expects[i], &obs.replies[i], judge(&expects[i], Transport::Udp, &obs.replies[i]));
                res.compared += 1;
                if is_nontrivial(&expects[i]) {
                    res.nontrivial += 1;
                }
                *res.hist.entry(format!("{}/udp/flags/{}", mode.name(), expects[i].label())).or_insert(0) += 1;
                for (clause, text) in findings {
                    if obs.dead && clause == "no-reply" {
                        continue;
                    }
                    if !res.admit(clause) {
                        continue;
                    }
                    let label = format!("flags {:#06x}, {}", lo + i as u32, SHAPE_NAMES[*shape]);
                    res.violations.push(udp_violation(*mode, &label, &[m], 0, clause, &text));
                }
            }
            for s in &obs.strays {
                push_counted(&mut res, Violation {
                    clause: "stray-datagram".into(),
                    summary: format!("[{} UDP] datagram with an ID no message of the batch carries: {}", mode.name(), hex(&s[..s.len().min(32)])),
                    replay: json!({"mode": mode.name(), "transport": "udp", "label": "stray", "msgs": msgs.iter().take(64).map(|m| hex(m)).collect::<Vec<_>>()}),
                    slug: None,
                });
            }
            if *lo == 0 && *shape == 1 {
                res.samples.push(json!({"mode": mode.name(), "message": hex(&msgs[0x0100.min(msgs.len() - 1)]), "expected": expects[0x0100.min(msgs.len() - 1)].label(), "reply": obs.replies[0x0100.min(msgs.len() - 1)].first().map(|r| hex(r))}));
            }
            if obs.dead {
                res.sent_for_bisect = msgs.into_iter().map(|m| (Transport::Udp, m)).collect();
            }
        }
        Item::Misc { mode, lo, hi } => {
            let addr = env.addr[mode];
            let slice = &env.misc[*lo..*hi];
            let msgs: Vec<Vec<u8>> = slice
                .iter()
                .enumerate()
                .map(|(i, (_, m))| {
                    let mut m = m.clone();
                    set_id(&mut m, (lo + i + 1) as u16);
                    m
                })
                .collect();
            let expects: Vec<Expect> = msgs.iter().map(|m| reference(env.world, *mode, m, false)).collect();
            let want: Vec<bool> = expects.iter().map(Expect::wants_reply).collect();
            let obs = udp_batch_sem(addr, &msgs, &want, 16, 120, Some(&env.sems[mode]));
            res.retried += obs.retried;
            res.dead = obs.dead;
            for (i, m) in msgs.iter().enumerate() {
                let label = &slice[i].0;
                res.messages += 1;
                note_distinct(&mut res, *mode, Transport::Udp, m);
                let findings = refine_findings(&expects[i], &obs.replies[i], judge(&expects[i], Transport::Udp, &obs.replies[i]));
                res.compared += 1;
                if is_nontrivial(&expects[i]) {
                    res.nontrivial += 1;
                }
                *res.hist.entry(format!("{}/udp/{}", mode.name(), expects[i].label())).or_insert(0) += 1;
                if let Some(r) = obs.replies[i].first() {
                    if r.len() >= 3 && r[2] & 2 != 0 {
                        *res.hist.entry(format!("{}/udp/reply cut at 512 with TC", mode.name())).or_insert(0) += 1;
                    }
                }
                for (clause, text) in findings {
                    push_counted(&mut res, udp_violation(*mode, label, &[m], 0, clause, &text));
                }
                // the same message over TCP, on its own connection
                if Instant::now() > env.deadline {
                    continue;
                }
                let mut mt = m.clone();
                set_id(&mut mt, (lo + i + 1) as u16);
                let fr = framed(&mt);
                let mut tobs = tcp_exchange(addr, &[fr.clone()], 0, CloseMode::HalfClose);
                if tobs.reset && tobs.stream.is_empty() {
                    tobs = tcp_exchange(addr, &[fr.clone()], 0, CloseMode::HalfClose);
                }
                let (texp, tf) = judge_tcp(env.world, *mode, &fr, CloseMode::HalfClose, &tobs);
                res.messages += 1;
                res.compared += 1;
                note_distinct(&mut res, *mode, Transport::Tcp, &mt);
                *res.hist.entry(format!("{}/tcp/{}", mode.name(), texp.label())).or_insert(0) += 1;
                let treplies: Vec<Vec<u8>> = if tobs.stream.len() >= 2 { vec![tobs.stream[2..].to_vec()] } else { vec![] };
                for (clause, text) in refine_findings(&texp, &treplies, tf) {
                    push_counted(&mut res, tcp_violation(*mode, label, &[fr.clone()], 0, CloseMode::HalfClose, clause, &text));
                }
                // UDP length against the full (TCP) encoding of the same reply
                if let (Expect::Std { alts, .. }, Some(u), true) = (&expects[i], obs.replies[i].first(), tobs.stream.len() >= 2) {
                    let full = tobs.stream.len() - 2;
                    let stable = alts.len() == 1 && !alts[0].ttl_slack;
                    if stable {
                        let want_len = full.min(512);
                        let want_tc = full > 512;
                        let tc = u.len() >= 3 && u[2] & 2 != 0;
                        if u.len() != want_len || tc != want_tc {
                            push_counted(&mut res, udp_violation(
                                *mode,
                                label,
                                &[m],
                                0,
                                "udp-length",
                                &format!("full reply is {full} octets (TCP); UDP reply has {} octets, TC={tc}", u.len()),
                            ));
                        }
                        if label.contains("size family") {
                            res.family_sizes.insert(label.clone(), full);
                        }
                        if full > 65000 {
                            *res.hist.entry(format!("{}/tcp/reply cut at 65535 with TC", mode.name())).or_insert(0) += u64::from(tobs.stream.len() >= 5 && tobs.stream[4] & 2 != 0);
                        }
                    }
                }
                if res.samples.len() < 2 && (label.contains("deep.sub") || label.contains("s20")) {
                    res.samples.push(json!({"mode": mode.name(), "case": label, "message": hex(m), "expected": expects[i].label(), "udp_reply_len": obs.replies[i].first().map(|r| r.len()), "tcp_reply_len": tobs.stream.len().saturating_sub(2)}));
                }
            }
            for s in &obs.strays {
                push_counted(&mut res, Violation {
                    clause: "stray-datagram".into(),
                    summary: format!("[{} UDP] datagram with an ID no message of the batch carries: {}", mode.name(), hex(&s[..s.len().min(32)])),
                    replay: json!({"mode": mode.name(), "transport": "udp", "label": "stray", "msgs": msgs.iter().map(|m| hex(m)).collect::<Vec<_>>()}),
                    slug: None,
                });
            }
            if obs.dead {
                res.sent_for_bisect = msgs.into_iter().map(|m| (Transport::Udp, m)).collect();
            }
        }
        Item::Tcp { mode, lo, hi } => {
            let addr = env.addr[mode];
            for case in &env.tcp[*lo..*hi] {
                if Instant::now() > env.deadline {
                    *res.hist.entry("skipped (wall-clock cap)".into()).or_insert(0) += 1;
                    continue;
                }
                let sent: Vec<u8> = case.segments.concat();
                let mut obs = tcp_exchange(addr, &case.segments, case.gap_ms, case.close);
                let expect_probe = match tcp_delivered(&sent) {
                    None => Expect::NoReply("too short to hold an ID"),
                    Some((m, short)) => reference(env.world, *mode, &m, short),
                };
                // When fewer octets were declared than sent the server closes with unread input and
                // the kernel answers with a reset, which can destroy a reply that is still in
                // flight: a connection reset before the announced reply is complete is not a
                // verdict about the server.  Try again, then count the case as not judged.
                let torn = |o: &TcpObs| -> bool {
                    o.reset
                        && (o.stream.len() < 2
                            || o.stream.len() < 2 + u16::from_be_bytes([o.stream[0], o.stream[1]]) as usize)
                };
                let mut tries = 0;
                while case.close != CloseMode::Close && expect_probe.wants_reply() && torn(&obs) && tries < 3 {
                    obs = tcp_exchange(addr, &case.segments, case.gap_ms, case.close);
                    tries += 1;
                }
                if case.close != CloseMode::Close && expect_probe.wants_reply() && torn(&obs) {
                    res.not_judged_reset += 1;
                    continue;
                }
                let (expect, f) = judge_tcp(env.world, *mode, &sent, case.close, &obs);
                res.messages += 1;
                note_distinct(&mut res, *mode, Transport::Tcp, &sent);
                if case.close != CloseMode::Close {
                    res.compared += 1;
                }
                res.nontrivial += 1;
                *res.hist.entry(format!("{}/tcp-framing/{}/{}", mode.name(), case.close.name(), expect.label())).or_insert(0) += 1;
                if obs.connect_failed {
                    res.dead = true;
                }
                let replies: Vec<Vec<u8>> = if obs.stream.len() >= 2 { vec![obs.stream[2..].to_vec()] } else { vec![] };
                for (clause, text) in refine_findings(&expect, &replies, f) {
                    let short = matches!(tcp_delivered(&sent), Some((_, true)));
                    let mut v = tcp_violation(*mode, &case.label, &case.segments, case.gap_ms, case.close, clause, &text);
                    if clause == "reply-to-response" && short {
                        v.slug = Some("formerr-reply-to-malformed-response");
                    }
                    push_counted(&mut res, v);
                }
                if case.label.contains("ladder") || (res.samples.is_empty() && case.label.contains("declared 65535, sent 30")) {
                    res.samples.push(json!({"mode": mode.name(), "case": case.label, "expected": expect.label(), "reply_octets": obs.stream.len()}));
                }
                res.sent_for_bisect.push((Transport::Tcp, sent));
            }
            if !res.dead {
                res.sent_for_bisect.clear();
            }
        }
        Item::Pairs { mode, arity, lo, hi } => {
            let arity = *arity;
            let addr = env.addr[mode];
            let n = env.pairs.len();
            // each message alone first
            let alone_msgs: Vec<Vec<u8>> = env
                .pairs
                .iter()
                .enumerate()
                .map(|(i, (_, m))| {
                    let mut m = m.clone();
                    set_id(&mut m, 0x7000 + i as u16);
                    m
                })
                .collect();
            let alone_exp: Vec<Expect> = alone_msgs.iter().map(|m| reference(env.world, *mode, m, false)).collect();
            let alone_want: Vec<bool> = alone_exp.iter().map(Expect::wants_reply).collect();
            let alone = udp_batch_sem(addr, &alone_msgs, &alone_want, 1, 80, Some(&env.sems[mode]));
            if alone.dead {
                res.dead = true;
                return res;
            }
            let norm = |r: &Vec<u8>| -> Vec<u8> {
                let mut r = r.clone();
                set_id(&mut r, 0);
                r
            };
            let mut msgs: Vec<Vec<u8>> = Vec::new();
            let mut idx: Vec<usize> = Vec::new();
            for p in *lo..*hi {
                let mut digits: Vec<usize> = Vec::new();
                let mut rest = p;
                for _ in 0..arity {
                    digits.push(rest % n);
                    rest /= n;
                }
                digits.reverse();
                for (k, which) in digits.into_iter().enumerate() {
                    let mut m = env.pairs[which].1.clone();
                    set_id(&mut m, ((p - lo) * arity + k + 1) as u16);
                    msgs.push(m);
                    idx.push(which);
                }
            }
            let expects: Vec<Expect> = msgs.iter().map(|m| reference(env.world, *mode, m, false)).collect();
            let want: Vec<bool> = expects.iter().map(Expect::wants_reply).collect();
            let obs = udp_batch_sem(addr, &msgs, &want, arity, 120, Some(&env.sems[mode]));
            res.dead = obs.dead;
            res.retried += obs.retried;
            for (i, m) in msgs.iter().enumerate() {
                let which = idx[i];
                let first = i - (i % arity);
                let label = format!(
                    "{} back to back: {}; message {}",
                    if arity == 2 { "pair" } else { "tuple" },
                    (first..first + arity).map(|j| format!("({})", env.pairs[idx[j]].0)).collect::<Vec<_>>().join(" then "),
                    i % arity + 1
                );
                let both: Vec<&Vec<u8>> = (first..first + arity).map(|j| &msgs[j]).collect();
                res.messages += 1;
                res.compared += 1;
                if i % arity == 0 {
                    res.pairs += 1;
                    res.nontrivial += 1;
                }
                for (clause, text) in refine_findings(&expects[i], &obs.replies[i], judge(&expects[i], Transport::Udp, &obs.replies[i])) {
                    if !res.admit(clause) {
                        continue;
                    }
                    let mut v = udp_violation(*mode, &label, &both, i % arity, clause, &text);
                    v.slug = slug_for(clause, m, false);
                    res.violations.push(v);
                }
                // no cross-talk: same reply as when sent alone
                let stable = match &expects[i] {
                    Expect::Std { alts, .. } => alts.len() == 1 && !alts[0].ttl_slack,
                    _ => true,
                };
                if stable {
                    let a: Vec<Vec<u8>> = alone.replies[which].iter().map(norm).collect();
                    let b: Vec<Vec<u8>> = obs.replies[i].iter().map(norm).collect();
                    if a != b {
                        push_counted(&mut res, udp_violation(
                            *mode,
                            &label,
                            &both,
                            i % arity,
                            "cross-talk",
                            &format!(
                                "reply differs from the reply to the same message sent alone: alone {:?}, in the pair {:?}",
                                a.first().map(|r| hex(&r[..r.len().min(24)])),
                                b.first().map(|r| hex(&r[..r.len().min(24)]))
                            ),
                        ));
                    }
                }
            }
            *res.hist.entry(format!("{}/udp/{}", mode.name(), if arity == 2 { "pairs" } else { "triples" })).or_insert(0) += (hi - lo) as u64;
            for s in &obs.strays {
                push_counted(&mut res, Violation {
                    clause: "stray-datagram".into(),
                    summary: format!("[{} UDP] pairs: datagram with an ID no message of the batch carries: {}", mode.name(), hex(&s[..s.len().min(32)])),
                    replay: json!({"mode": mode.name(), "transport": "udp", "label": "stray", "msgs": []}),
                    slug: None,
                });
            }
            if obs.dead {
                res.sent_for_bisect = msgs.into_iter().map(|m| (Transport::Udp, m)).collect();
            }
        }
    }
    res
}

fn push_counted(res: &mut ItemResult, v: Violation) {
    if res.admit(&v.clause) {
        res.violations.push(v);
    }
}

fn tcp_violation(mode: Mode, label: &str, segments: &[Vec<u8>], gap_ms: u64, close: CloseMode, clause: &'static str, text: &str) -> Violation {
    let sent: Vec<u8> = segments.concat();
    let (msg, short) = tcp_delivered(&sent).unwrap_or((Vec::new(), false));
    let show: Vec<String> = segments
        .iter()
        .map(|s| if s.len() > 600 { format!("{}..({} octets)", hex(&s[..64]), s.len()) } else { hex(s) })
        .collect();
    Violation {
        clause: clause.to_string(),
        summary: format!("[{} TCP {}] {label}: {text} (octets written: {})", mode.name(), close.name(), show.join(" + ").chars().take(200).collect::<String>()),
        replay: json!({
            "mode": mode.name(),
            "transport": "tcp",
            "label": label,
            "segments": segments.iter().map(|s| hex(s)).collect::<Vec<_>>(),
            "gap_ms": gap_ms,
            "close": close.name(),
        }),
        slug: slug_for(clause, &msg, short),
    }
}

// =====================================================================================
// Set-up, run, replay
// =====================================================================================

pub struct Rig {
    pub dir: DirGuard,
    pub fwd: Forwarder,
    pub servers: BTreeMap<Mode, Server>,
    pub world: World,
    args: BTreeMap<Mode, Vec<String>>,
}

fn server_args(mode: Mode, dir: &Path, fwd: SocketAddr) -> Vec<String> {
    let mut a: Vec<String> = Vec::new();
    match mode.base() {
        Mode::Auth | Mode::AuthTrace => a.push("--authoritative-only".into()),
        Mode::Rec | Mode::RecTrace => {
            a.push("-f".into());
            a.push(fwd.to_string());
        }
    }
    a.extend(["-s".into(), "1".into()]);
    a.extend(["-z".into(), dir.join("c9.zone").display().to_string()]);
    a.extend(["-a".into(), dir.join("c9.hosts").display().to_string()]);
    a
}

pub fn build_rig(modes: &[Mode]) -> Result<Rig, String> {
    let dir = work_dir("c09");
    let guard = DirGuard(dir.clone());
    let zt = zone_text();
    let ht = hosts_text();
    std::fs::write(dir.join("c9.zone"), &zt).map_err(|e| format!("write zone: {e}"))?;
    std::fs::write(dir.join("c9.hosts"), &ht).map_err(|e| format!("write hosts: {e}"))?;
    let fwd = start_forwarder()?;
    let world = World::new(&zt, &ht, Some(fwd.addr))?;
    let mut servers = BTreeMap::new();
    let mut args = BTreeMap::new();
    for &m in modes {
        let a = server_args(m, &dir, fwd.addr);
        servers.insert(m, Server::start(&a, &[], m.log_level())?);
        args.insert(m, a);
    }
    Ok(Rig {
        dir: guard,
        fwd,
        servers,
        world,
        args,
    })
}

/// Pipelined bursts: `rounds` x `n` datagrams sent from four sockets without waiting
/// for anything.  Every datagram is 2..=11 octets long with QR clear (each is owed a
/// FORMERR), or a valid query, alternating.  Replies are drained and counted but not
/// judged (the kernel may drop datagrams of a burst on either side); what is judged
/// afterwards is that the server still answers.  Returns (sent, replies seen).
pub fn udp_bursts(addr: SocketAddr, rounds: usize, n: usize) -> (u64, u64) {
    let mut sent = 0u64;
    let mut seen = 0u64;
    let valid = build_msg(0x4242, 0, &[q("www.c9.test.", 1, 1)], &[], None);
    for round in 0..rounds {
        let socks: Vec<UdpSocket> = (0..4)
            .filter_map(|_| {
                let s = UdpSocket::bind((Ipv4Addr::LOCALHOST, 0)).ok()?;
                s.connect(addr).ok()?;
                s.set_nonblocking(true).ok()?;
                Some(s)
            })
            .collect();
        if socks.is_empty() {
            return (sent, seen);
        }
        let mut buf = [0u8; 1024];
        for i in 0..n {
            let s = &socks[i % socks.len()];
            // round 0: runts only; later rounds: runts and valid queries mixed
            let m: Vec<u8> = if round > 0 && i % 3 == 0 {
                valid.clone()
            } else {
                let len = 2 + (i % 10);
                let mut v = vec![0u8; len];
                v[0] = 0x52;
                v[1] = (i % 251) as u8;
                v
            };
            if s.send(&m).is_ok() {
                sent += 1;
            }
            while s.recv(&mut buf).is_ok() {
                seen += 1;
            }
        }
        // drain what is still coming
        let until = Instant::now() + Duration::from_millis(300);
        while Instant::now() < until {
            let mut any = false;
            for s in &socks {
                while s.recv(&mut buf).is_ok() {
                    seen += 1;
                    any = true;
                }
            }
            if !any {
                std::thread::sleep(Duration::from_millis(10));
            }
        }
    }
    (sent, seen)
}

/// Many slow requests in flight: a server that forwards to an upstream which never
/// answers receives `n_slow` questions it has to forward (each stays in flight until its
/// upstream timeouts expire) and then one question its own zone answers.  That one is
/// owed a prompt reply whatever else is pending.  Ok(None) = held; Ok(Some(text)) =
/// violation; Err = machinery.
pub fn slow_upstream_scenario(dir: &Path, n_slow: usize) -> Result<Option<String>, String> {
    let silent = UdpSocket::bind((Ipv4Addr::LOCALHOST, 0)).map_err(|e| format!("silent upstream: {e}"))?;
    let silent_addr = silent.local_addr().map_err(|e| format!("silent upstream: {e}"))?;
    let args = server_args(Mode::Rec, dir, silent_addr);
    let mut srv = Server::start(&args, &[], "warn")?;
    let sock = UdpSocket::bind((Ipv4Addr::LOCALHOST, 0)).map_err(|e| e.to_string())?;
    sock.connect(srv.addr).map_err(|e| e.to_string())?;
    for i in 0..n_slow {
        let name = format!("slow{i}.elsewhere.test.");
        let _ = sock.send(&build_msg(0x3000 + i as u16, FLAG_RD, &[q(&name, 1, 1)], &[], None));
    }
    // let the server take them in
    std::thread::sleep(Duration::from_millis(300));
    let local = build_msg(0xbeef, 0, &[q("www.c9.test.", 1, 1)], &[], None);
    let _ = sock.send(&local);
    let _ = sock.set_read_timeout(Some(Duration::from_millis(200)));
    let deadline = Instant::now() + Duration::from_millis(SENTINEL_WAIT_MS);
    let mut buf = [0u8; 1024];
    let mut answered = false;
    while Instant::now() < deadline {
        if let Ok(n) = sock.recv(&mut buf) {
            if n >= 2 && buf[0] == 0xbe && buf[1] == 0xef {
                answered = true;
                break;
            }
        }
    }
    let verdict = if answered {
        None
    } else if !srv.alive() {
        Some(format!("the server went down with {n_slow} forwarded questions in flight ({})", srv.exit_status()))
    } else {
        Some(format!(
            "with {n_slow} forwarded questions in flight (upstream silent) a question the local zone answers got no reply within {SENTINEL_WAIT_MS} ms"
        ))
    };
    drop(srv);
    drop(silent);
    Ok(verdict)
}

fn alive_and_answering(srv: &mut Server) -> Result<(), String> {
    if !srv.alive() {
        return Err(format!("process gone ({}); log tail {:?}", srv.exit_status(), srv.log.tail(6)));
    }
    let obs = udp_batch(srv.addr, &[], &[], 1, 1);
    if obs.dead {
        return Err(format!("no answer to the UDP sentinel; log tail {:?}", srv.log.tail(6)));
    }
    let fr = framed(&sentinel_query(0xff77));
    let t = tcp_exchange(srv.addr, &[fr], 0, CloseMode::HalfClose);
    if t.connect_failed || t.stream.len() < 14 {
        return Err(format!("no answer to the TCP sentinel; log tail {:?}", srv.log.tail(6)));
    }
    Ok(())
}

/// After a crash: find one message that brings a fresh server down, by halving the list of
/// suspects (each half is fed to a server that is known to be up).
fn find_killer(args: &[String], level: &str, suspects: &[(Transport, Vec<u8>)], budget: Duration) -> Option<(Transport, Vec<u8>, String)> {
    let start = Instant::now();
    let mut srv = Server::start(args, &[], level).ok()?;
    let feed = |srv: &mut Server, part: &[(Transport, Vec<u8>)]| -> Result<(), String> {
        let sock = UdpSocket::bind((Ipv4Addr::LOCALHOST, 0)).map_err(|e| e.to_string())?;
        let _ = sock.connect(srv.addr);
        let mut buf = vec![0u8; 70000];
        let udp: Vec<&Vec<u8>> = part.iter().filter(|(t, _)| *t == Transport::Udp).map(|(_, m)| m).collect();
        for (k, chunk) in udp.chunks(32).enumerate() {
            for m in chunk {
                let _ = sock.send(m);
            }
            let sid = SENTINEL_LO + (k % 250) as u16;
            let _ = sock.send(&sentinel_query(sid));
            let mut seen = false;
            for patience in [400u64, 1500] {
                let deadline = Instant::now() + Duration::from_millis(patience);
                while !seen && Instant::now() < deadline {
                    let _ = sock.set_read_timeout(Some(Duration::from_millis(20)));
                    if let Ok(n) = sock.recv(&mut buf) {
                        seen = n >= 2 && u16::from_be_bytes([buf[0], buf[1]]) == sid;
                    } else if !srv.alive() {
                        return Err(format!("process gone ({})", srv.exit_status()));
                    }
                }
                if seen {
                    break;
                }
            }
            if !seen {
                return Err("no answer to the UDP sentinel".into());
            }
        }
        for (t, m) in part {
            if *t == Transport::Tcp {
                let _ = tcp_exchange(srv.addr, &[m.clone()], 0, CloseMode::HalfClose);
                if !srv.alive() {
                    return Err(format!("process gone ({})", srv.exit_status()));
                }
            }
        }
        alive_and_answering(srv)
    };
    let (mut lo, mut hi) = (0usize, suspects.len());
    if hi == 0 || feed(&mut srv, suspects).is_ok() {
        return None;
    }
    let mut why = String::new();
    while hi - lo > 1 {
        if start.elapsed() > budget {
            return None;
        }
        if !srv.alive() || alive_and_answering(&mut srv).is_err() {
            srv = Server::start(args, &[], level).ok()?;
        }
        let mid = lo + (hi - lo) / 2;
        match feed(&mut srv, &suspects[lo..mid]) {
            Err(w) => {
                hi = mid;
                why = w;
            }
            Ok(()) => lo = mid,
        }
    }
    // confirm on a fresh server
    let mut fresh = Server::start(args, &[], level).ok()?;
    match feed(&mut fresh, &suspects[lo..hi]) {
        Err(w) => Some((suspects[lo].0, suspects[lo].1.clone(), if w.is_empty() { why } else { w })),
        Ok(()) => None,
    }
}

pub fn run(ctx: &Ctx) -> i32 {
    let budget = ctx.tier.pick(90.0, 900.0);
    let mut rig = match build_rig(&[Mode::Auth, Mode::Rec, Mode::AuthTrace, Mode::RecTrace]) {
        Ok(r) => r,
        Err(e) => {
            eprintln!("C09: machinery error: {e}");
            return 2;
        }
    };
    let misc = misc_messages(ctx.tier);
    let tcp = tcp_cases(ctx.tier, 0x2000);
    let pairs = pair_alphabet();
    let modes = [Mode::Auth, Mode::Rec];
    let all_modes = [Mode::Auth, Mode::Rec, Mode::AuthTrace, Mode::RecTrace];

    // work items, largest first
    let mut items: Vec<Item> = Vec::new();
    let flag_chunk = 4096u32;
    for &mode in &modes {
        let shapes: Vec<usize> = match (ctx.tier, mode) {
            (Tier::Thorough, _) => (0..N_SHAPES).collect(),
            (Tier::Quick, _) => (0..6).collect(),
        };
        for shape in shapes {
            let mut lo = 0u32;
            while lo < 65536 {
                items.push(Item::Flags { mode, shape, lo, hi: lo + flag_chunk });
                lo += flag_chunk;
            }
        }
    }
    let mut small: Vec<Item> = Vec::new();
    for &mode in &[Mode::Auth, Mode::Rec, Mode::AuthTrace, Mode::RecTrace] {
        let step = 48usize;
        let mut lo = 0;
        while lo < misc.len() {
            small.push(Item::Misc { mode, lo, hi: (lo + step).min(misc.len()) });
            lo += step;
        }
        let step = 64usize;
        let mut lo = 0;
        while lo < tcp.len() {
            small.push(Item::Tcp { mode, lo, hi: (lo + step).min(tcp.len()) });
            lo += step;
        }
        if mode != mode.base() {
            continue;
        }
        let np = pairs.len() * pairs.len();
        let step = 100usize;
        let mut lo = 0;
        while lo < np {
            small.push(Item::Pairs { mode, arity: 2, lo, hi: (lo + step).min(np) });
            lo += step;
        }
    }
    let mut triples: Vec<Item> = Vec::new();
    if ctx.tier == Tier::Thorough {
        for &mode in &modes {
            let nt = pairs.len() * pairs.len() * pairs.len();
            let step = 800usize;
            let mut lo = 0;
            while lo < nt {
                triples.push(Item::Pairs { mode, arity: 3, lo, hi: (lo + step).min(nt) });
                lo += step;
            }
        }
    }
    // the small alphabets first (so that a wall-clock cap can only cut the flag sweep short),
    // alternating between the two servers
    let mut all: Vec<Item> = Vec::new();
    let half = small.len() / 2;
    for i in 0..half {
        all.push(small[i].clone());
        all.push(small[half + i].clone());
    }
    if small.len() > 2 * half {
        all.push(small[2 * half].clone());
    }
    let fa: Vec<Item> = items.iter().filter(|i| matches!(i, Item::Flags { mode: Mode::Auth, .. })).cloned().collect();
    let fr: Vec<Item> = items.iter().filter(|i| matches!(i, Item::Flags { mode: Mode::Rec, .. })).cloned().collect();
    let (mut i, mut j) = (0, 0);
    while i < fa.len() || j < fr.len() {
        for _ in 0..3 {
            if i < fa.len() {
                all.push(fa[i].clone());
                i += 1;
            }
        }
        if j < fr.len() {
            all.push(fr[j].clone());
            j += 1;
        }
    }
    all.extend(triples);

    let env = Env {
        world: &rig.world,
        addr: rig.servers.iter().map(|(m, s)| (*m, s.addr)).collect(),
        misc: &misc,
        tcp: &tcp,
        pairs: &pairs,
        deadline: ctx.start + Duration::from_secs_f64(budget),
        sems: all_modes.iter().map(|m| (*m, Sem::new(128))).collect(),
        window: 24,
        down: all_modes.iter().map(|m| (*m, AtomicBool::new(false))).collect(),
    };
    let next = std::sync::atomic::AtomicUsize::new(0);
    let results: Mutex<Vec<(usize, ItemResult)>> = Mutex::new(Vec::new());
    // at most workers x (window + 1) datagrams are in flight towards a server: keep that
    // below what its socket buffer holds, or the kernel drops queries
    let workers = ctx.threads.clamp(2, 12);
    std::thread::scope(|s| {
        for _ in 0..workers {
            s.spawn(|| loop {
                let k = next.fetch_add(1, Ordering::Relaxed);
                if k >= all.len() {
                    break;
                }
                let r = run_item(&env, &all[k]);
                results.lock().unwrap().push((k, r));
            });
        }
    });
    let mut results = results.into_inner().unwrap();
    results.sort_by_key(|(k, _)| *k);

    let mut report = Report::new();
    let sink = Sink::new(6);
    let mut distinct: HashSet<u64> = HashSet::new();
    let mut flag_msgs = 0u64;
    let mut pairs_n = 0u64;
    let mut retried = 0u64;
    let mut reset_unjudged = 0u64;
    let mut family: BTreeMap<String, usize> = BTreeMap::new();
    let mut suspects: BTreeMap<Mode, Vec<(Transport, Vec<u8>)>> = BTreeMap::new();
    let mut skipped = 0u64;
    let mut occurrences: BTreeMap<String, u64> = BTreeMap::new();
    for (k, r) in results {
        report.evaluations += r.messages;
        report.traces_validated += r.compared;
        report.distinct_nontrivial += r.nontrivial;
        pairs_n += r.pairs;
        retried += r.retried;
        reset_unjudged += r.not_judged_reset;
        if let Item::Flags { .. } = &all[k] {
            flag_msgs += r.messages;
        }
        skipped += r.hist.get("skipped (wall-clock cap)").copied().unwrap_or(0);
        report.merge_hist(&r.hist);
        distinct.extend(r.distinct);
        family.extend(r.family_sizes);
        for (c, n) in &r.vcount {
            *occurrences.entry(c.clone()).or_insert(0) += n;
        }
        for v in r.violations {
            sink.push(v);
        }
        for s in r.samples {
            if report.samples.len() < 6 {
                report.samples.push(s);
            }
        }
        if r.dead {
            let mode = match &all[k] {
                Item::Flags { mode, .. } | Item::Misc { mode, .. } | Item::Tcp { mode, .. } | Item::Pairs { mode, .. } => *mode,
            };
            suspects.entry(mode).or_default().extend(r.sent_for_bisect);
        }
    }
    if skipped > 0 {
        report.exhaustive = false;
        report.extra.insert("cap".into(), json!(format!("wall-clock cap of {budget} s hit: {skipped} work items / cases skipped")));
    }

    // pipelined bursts against the two main servers (only if still up), then liveness
    let mut burst_stats = serde_json::Map::new();
    for &mode in &modes {
        let srv = rig.servers.get_mut(&mode).unwrap();
        if env_down(&env, mode) || alive_and_answering(srv).is_err() {
            continue;
        }
        let addr = srv.addr;
        let (sent, seen) = udp_bursts(addr, 3, ctx.tier.pick(4000, 20000));
        burst_stats.insert(mode.name().to_string(), json!({"datagrams_sent": sent, "replies_seen_not_judged": seen}));
        if let Err(why) = alive_and_answering(rig.servers.get_mut(&mode).unwrap()) {
            sink.push(Violation {
                clause: "liveness".into(),
                summary: format!("[{}] the server answered before, and no longer after, three pipelined bursts of runt datagrams and queries ({sent} datagrams): {why}", mode.name()),
                replay: json!({"mode": mode.name(), "transport": "udp", "label": "pipelined bursts", "bursts": {"rounds": 3, "n": ctx.tier.pick(4000, 20000)}, "msgs": []}),
                slug: None,
            });
        }
    }
    report.extra.insert("pipelined_bursts".into(), Value::Object(burst_stats));
    // a local question behind 31 / 32 / 33 / 64 forwarded questions that hang
    let mut slow_runs = 0u64;
    for n_slow in [31usize, 32, 33, 64] {
        match slow_upstream_scenario(&rig.dir.0, n_slow) {
            Ok(None) => slow_runs += 1,
            Ok(Some(text)) => {
                slow_runs += 1;
                sink.push(Violation {
                    clause: "no-reply".into(),
                    summary: format!("[recursive, silent upstream] {text}"),
                    replay: json!({"mode": Mode::Rec.name(), "transport": "udp", "label": "slow upstream", "slow_upstream": n_slow, "msgs": []}),
                    slug: None,
                });
            }
            Err(e) => {
                eprintln!("C09: machinery error: {e}");
                return 2;
            }
        }
    }
    report.extra.insert("local_question_behind_hanging_forwarded_questions".into(), json!({"scenarios": slow_runs, "in_flight": [31, 32, 33, 64]}));

    // liveness at the end (and the search for the killer if a server went down)
    let mut down: Vec<(Mode, String, Vec<(Transport, Vec<u8>)>)> = Vec::new();
    for &mode in &all_modes {
        let verdict = alive_and_answering(rig.servers.get_mut(&mode).unwrap());
        if let Err(why) = verdict {
            down.push((mode, why, suspects.remove(&mode).unwrap_or_default()));
        } else if suspects.contains_key(&mode) {
            // a batch lost its sentinel although the process lives and answers now
            sink.push(Violation {
                clause: "liveness".into(),
                summary: format!("[{}] the server stopped answering sentinel queries during a batch but answers again now", mode.name()),
                replay: json!({"mode": mode.name(), "transport": "udp", "label": "liveness", "msgs": []}),
                slug: None,
            });
        }
    }
    let killer_budget = Duration::from_secs(ctx.tier.pick(12, 120));
    std::thread::scope(|s| {
        for (mode, why, sus) in &down {
            let args = &rig.args[mode];
            let sink = &sink;
            s.spawn(move || {
                let killer = find_killer(args, mode.log_level(), sus, killer_budget);
                let (summary, replay) = match killer {
                    Some((t, m, why2)) => (
                        format!("[{}] server down after one {:?} message ({} octets: {}...): {why2}", mode.name(), t, m.len(), hex(&m[..m.len().min(40)])),
                        match t {
                            Transport::Udp => json!({"mode": mode.name(), "transport": "udp", "label": "kills the server", "msgs": [hex(&m)]}),
                            Transport::Tcp => json!({"mode": mode.name(), "transport": "tcp", "label": "kills the server", "segments": [hex(&m)], "gap_ms": 0, "close": "half-close"}),
                        },
                    ),
                    None => (
                        format!("[{}] server down at the end of the run: {why} (no single message of the {} suspects reproduces it within the search budget)", mode.name(), sus.len()),
                        json!({"mode": mode.name(), "transport": "udp", "label": "liveness", "msgs": []}),
                    ),
                };
                sink.push(Violation {
                    clause: "liveness".into(),
                    summary,
                    replay,
                    slug: None,
                });
            });
        }
    });

    // the size family must straddle the 512-octet boundary, else the TC clause was not exercised
    let sizes: BTreeSet<usize> = family.values().copied().collect();
    let straddles = [511usize, 512, 513].iter().all(|s| sizes.contains(s));
    if !straddles && report.exhaustive {
        eprintln!("C09: machinery error: size family gives full reply sizes {sizes:?}, which do not include 511, 512 and 513");
        return 2;
    }

    report.states = flag_msgs + distinct.len() as u64;
    report.transitions = report.evaluations + pairs_n;
    report.rule = "a compared message is counted as non-trivial when the reference responder expects anything but a complete NOERROR answer (no reply, FORMERR, NOTIMP, REFUSED, SERVFAIL, NXDOMAIN, cache-dependent outcome), plus every TCP framing case and every ordered pair sent back to back".into();
    report.bounds = json!({
        "modes": ["authoritative-only (-s 1)", "recursion offered, forwarder on loopback (-s 1)"],
        "flag_words": 65536,
        "question_shapes": if ctx.tier == Tier::Thorough { &SHAPE_NAMES[..] } else { &SHAPE_NAMES[..6] },
        "misc_messages_per_mode_each_over_udp_and_tcp": misc.len(),
        "tcp_framing_cases_per_mode": tcp.len(),
        "pair_alphabet": pairs.len(),
        "ordered_pairs_per_mode": pairs.len() * pairs.len(),
        "ordered_triples_per_mode": if ctx.tier == Tier::Thorough { pairs.len() * pairs.len() * pairs.len() } else { 0 },
        "size_family_full_reply_octets": sizes,
        "huge_rrset_records": HUGE_RECORDS,
        "forwarder_queries_served": rig.fwd.served.load(Ordering::Relaxed),
        "udp_probes_answered_only_on_retry": retried,
        "tcp_cases_not_judged_reset_before_reply": reset_unjudged,
    });
    report.assumptions = vec![
        "D10: one message per TCP connection; a second message on the same connection is not judged".into(),
        "a message with the QR bit readable (>= 3 octets) and set counts as 'flagged as a response' whether or not the rest parses".into(),
        "zero questions: nothing is resolved, SERVFAIL expected (anchor 'SERVFAIL when nothing was resolved')".into(),
        "non-standard opcode takes precedence over the REFUSED rules (DESIGN section 6 C09)".into(),
        "sections/AA/RCODE expectations come from dns_resolver::resolve run in-process on the same zone and hosts text; where the shared cache matters (recursion offered, RD=0 after RD=1) both the cold and the warm outcome are accepted and TTLs may have counted down".into(),
        "TCP 'close' cases (both directions closed at once) cannot observe the reply; they count towards liveness only".into(),
        "UDP datagrams above 512 octets and zones whose record counts overflow 16 bits are outside the explored space".into(),
    ];
    report.violations = sink.take();
    report.extra.insert("violation_counts".into(), json!(sink.counts()));
    report.extra.insert("violation_occurrences_by_clause".into(), json!(occurrences));
    drop(env);
    drop(rig);
    finish(ctx, report)
}

pub fn replay(_ctx: &Ctx, v: &Value) -> i32 {
    let mode = Mode::from_name(v["mode"].as_str().unwrap_or("auth"));
    let mut rig = match build_rig(&[mode]) {
        Ok(r) => r,
        Err(e) => {
            eprintln!("C09: machinery error: {e}");
            return 2;
        }
    };
    let addr = rig.servers[&mode].addr;
    let mut bad = false;
    println!("C09 replay: {} [{}]", v["label"].as_str().unwrap_or(""), mode.name());
    if v["transport"].as_str() == Some("tcp") {
        let segments: Vec<Vec<u8>> = v["segments"].as_array().cloned().unwrap_or_default().iter().map(|s| unhex(s.as_str().unwrap_or(""))).collect();
        let close = CloseMode::from_name(v["close"].as_str().unwrap_or("half-close"));
        let gap = v["gap_ms"].as_u64().unwrap_or(0);
        let sent: Vec<u8> = segments.concat();
        let obs = tcp_exchange(addr, &segments, gap, close);
        let (expect, f) = judge_tcp(&rig.world, mode, &sent, close, &obs);
        let replies: Vec<Vec<u8>> = if obs.stream.len() >= 2 { vec![obs.stream[2..].to_vec()] } else { vec![] };
        let f = refine_findings(&expect, &replies, f);
        println!("  written  : {} octets in {} segment(s), then {}", sent.len(), segments.len(), close.name());
        println!("  reference: {}", expect.label());
        println!("  server   : {} octets back{}: {}", obs.stream.len(), if obs.reset { " (connection reset)" } else { "" }, hex(&obs.stream[..obs.stream.len().min(64)]));
        for (c, t) in &f {
            println!("  MISMATCH {c}: {t}");
            bad = true;
        }
    } else if v["slow_upstream"].is_u64() {
        let n = v["slow_upstream"].as_u64().unwrap_or(32) as usize;
        match slow_upstream_scenario(&rig.dir.0, n) {
            Ok(None) => println!("  the local question was answered with {n} forwarded questions in flight"),
            Ok(Some(t)) => {
                println!("  MISMATCH no-reply: {t}");
                bad = true;
            }
            Err(e) => {
                eprintln!("C09: machinery error: {e}");
                return 2;
            }
        }
    } else if v["bursts"].is_object() {
        let rounds = v["bursts"]["rounds"].as_u64().unwrap_or(3) as usize;
        let n = v["bursts"]["n"].as_u64().unwrap_or(4000) as usize;
        let (sent, seen) = udp_bursts(addr, rounds, n);
        println!("  {rounds} bursts of {n} datagrams: {sent} sent, {seen} replies seen (not judged)");
    } else {
        let msgs: Vec<Vec<u8>> = v["msgs"].as_array().cloned().unwrap_or_default().iter().map(|s| unhex(s.as_str().unwrap_or(""))).collect();
        let expects: Vec<Expect> = msgs.iter().map(|m| reference(&rig.world, mode, m, false)).collect();
        let want: Vec<bool> = expects.iter().map(Expect::wants_reply).collect();
        let obs = udp_batch(addr, &msgs, &want, msgs.len().max(1), 300);
        for (i, m) in msgs.iter().enumerate() {
            println!("  message {}: {}", i + 1, hex(&m[..m.len().min(64)]));
            println!("    reference: {}", expects[i].label());
            match obs.replies[i].first() {
                Some(r) => println!("    server   : {} reply(ies), first {} octets: {}", obs.replies[i].len(), r.len(), hex(&r[..r.len().min(64)])),
                None => println!("    server   : no reply"),
            }
            for (c, t) in refine_findings(&expects[i], &obs.replies[i], judge(&expects[i], Transport::Udp, &obs.replies[i])) {
                println!("    MISMATCH {c}: {t}");
                bad = true;
            }
        }
        if !obs.strays.is_empty() {
            println!("  MISMATCH stray-datagram: {} datagram(s) with foreign IDs", obs.strays.len());
            bad = true;
        }
    }
    if let Err(why) = alive_and_answering(rig.servers.get_mut(&mode).unwrap()) {
        println!("  MISMATCH liveness: {why}");
        bad = true;
    }
    drop(rig);
    if bad {
        println!("VIOLATION property=C09 replay=(replayed case)");
        1
    } else {
        println!("holds on the replayed case");
        0
    }
}

/// Entry point for `vcheck worker C09 <args...>` (child-process mode): unused.
pub fn worker(_args: &[String]) -> i32 {
    2
}
