//! Real-transport part of C08 (and of C06's header clause): the code *below*
//! the transport hook — socket creation, UDP receive, TCP framing, the two 5 s
//! timeouts — is not reached by E-NET.  Here the real
//! `dns_resolver::util::nameserver::query_nameserver` talks over loopback
//! sockets to a scripted server; every (UDP behaviour x TCP behaviour) pair of
//! a small fault alphabet is one case (fault enumeration at bound 1 per
//! transport on a single exchange).  Real time: only the cheap cases run in
//! the quick tier.

use crate::common::*;
use crate::refwire::{self, Compress};
use crate::util::*;
use dns_resolver::util::nameserver::query_nameserver;
use dns_types::protocol::types::*;
use serde_json::json;
use std::io::{Read, Write};
use std::net::{SocketAddr, TcpListener, UdpSocket};
use std::time::{Duration, Instant};

#[derive(Debug, Clone, Copy, Eq, PartialEq)]
enum Udp {
    Honest,
    /// honest reply without its last two octets (counts promise more than is there)
    CutShort,
    WrongId,
    Tc,
    Rcode2,
    Garbage,
    /// honest reply with so many records that it exceeds 512 octets
    TooBig,
    Silent,
}

#[derive(Debug, Clone, Copy, Eq, PartialEq)]
enum Tcp {
    Honest,
    /// honest reply, length prefix and body written in three separate segments
    HonestSplit,
    /// length prefix announces more than is sent, then the connection closes
    ShortBody,
    WrongId,
    /// accept, read, never answer
    Silent,
    /// nobody listens (connection refused)
    Refused,
}

fn honest_reply(req: &Message, big: bool) -> Message {
    let mut m = req.make_response();
    m.header.recursion_available = false;
    m.header.is_authoritative = true;
    if let Some(q) = req.questions.first() {
        let n = if big { 40 } else { 2 };
        for i in 0..n {
            m.answers.push(rr(&q.name, a([192, 0, 2, i as u8 + 1]), 300));
        }
    }
    m
}

fn udp_bytes(kind: Udp, req: &Message) -> Option<Vec<u8>> {
    let enc = |m: &Message| refwire::encode(m, Compress::WholeName);
    match kind {
        Udp::Honest => Some(enc(&honest_reply(req, false))),
        Udp::CutShort => {
            // the last two octets of the last record's RDATA are missing
            let b = enc(&honest_reply(req, false));
            Some(b[..b.len() - 2].to_vec())
        }
        Udp::WrongId => {
            let mut m = honest_reply(req, false);
            m.header.id = m.header.id.wrapping_add(1);
            Some(enc(&m))
        }
        Udp::Tc => {
            let mut m = honest_reply(req, false);
            m.header.is_truncated = true;
            Some(enc(&m))
        }
        Udp::Rcode2 => {
            let mut m = honest_reply(req, false);
            m.header.rcode = Rcode::ServerFailure;
            Some(enc(&m))
        }
        Udp::Garbage => Some(vec![0x55; 40]),
        Udp::TooBig => Some(enc(&honest_reply(req, true))),
        Udp::Silent => None,
    }
}

/// What the exchange must return: the reply the first transport that gives a
/// complete, matching message supplies.
fn expected(u: Udp, t: Tcp, req: &Message) -> Option<Message> {
    if u == Udp::Honest {
        return Some(honest_reply(req, false));
    }
    let big = u == Udp::TooBig;
    match t {
        Tcp::Honest | Tcp::HonestSplit => Some(honest_reply(req, big)),
        _ => None,
    }
}

struct ServerLog {
    udp_requests: usize,
    tcp_connections: usize,
}

fn serve(udp: UdpSocket, tcp: Option<TcpListener>, u: Udp, t: Tcp, deadline: Duration) -> ServerLog {
    let mut log = ServerLog {
        udp_requests: 0,
        tcp_connections: 0,
    };
    let start = Instant::now();
    udp.set_read_timeout(Some(Duration::from_millis(50))).ok();
    if let Some(l) = &tcp {
        l.set_nonblocking(true).ok();
    }
    let mut buf = [0u8; 2048];
    let mut big = false;
    while start.elapsed() < deadline {
        if let Ok((n, peer)) = udp.recv_from(&mut buf) {
            log.udp_requests += 1;
            if let Ok(req) = refwire::decode(&buf[..n]) {
                big = u == Udp::TooBig;
                if let Some(b) = udp_bytes(u, &req) {
                    let _ = udp.send_to(&b, peer);
                }
            }
        }
        if let Some(l) = &tcp {
            if let Ok((mut s, _)) = l.accept() {
                log.tcp_connections += 1;
                s.set_nonblocking(false).ok();
                s.set_read_timeout(Some(Duration::from_secs(2))).ok();
                let mut len = [0u8; 2];
                if s.read_exact(&mut len).is_ok() {
                    let n = u16::from_be_bytes(len) as usize;
                    let mut body = vec![0u8; n];
                    if s.read_exact(&mut body).is_ok() {
                        if let Ok(req) = refwire::decode(&body) {
                            let mut m = honest_reply(&req, big);
                            if t == Tcp::WrongId {
                                m.header.id = m.header.id.wrapping_add(1);
                            }
                            let b = refwire::encode(&m, Compress::WholeName);
                            let l2 = (b.len() as u16).to_be_bytes();
                            match t {
                                Tcp::Honest | Tcp::WrongId => {
                                    let mut all = l2.to_vec();
                                    all.extend_from_slice(&b);
                                    let _ = s.write_all(&all);
                                }
                                Tcp::HonestSplit => {
                                    let _ = s.write_all(&l2[..1]);
                                    let _ = s.flush();
                                    std::thread::sleep(Duration::from_millis(30));
                                    let _ = s.write_all(&l2[1..]);
                                    let _ = s.write_all(&b[..b.len() / 2]);
                                    let _ = s.flush();
                                    std::thread::sleep(Duration::from_millis(30));
                                    let _ = s.write_all(&b[b.len() / 2..]);
                                }
                                Tcp::ShortBody => {
                                    let _ = s.write_all(&l2);
                                    let _ = s.write_all(&b[..b.len() / 2]);
                                }
                                Tcp::Silent => {
                                    // hold the connection open until the deadline
                                    while start.elapsed() < deadline {
                                        std::thread::sleep(Duration::from_millis(50));
                                    }
                                }
                                Tcp::Refused => {}
                            }
                        }
                    }
                }
                drop(s);
            }
        }
    }
    log
}

pub fn run_real(ctx: &Ctx, report: &mut Report) {
    let udps: Vec<Udp> = match ctx.tier {
        Tier::Quick => vec![Udp::Honest, Udp::CutShort, Udp::WrongId, Udp::Tc, Udp::Rcode2, Udp::Garbage, Udp::TooBig],
        Tier::Thorough => vec![Udp::Honest, Udp::CutShort, Udp::WrongId, Udp::Tc, Udp::Rcode2, Udp::Garbage, Udp::TooBig, Udp::Silent],
    };
    let tcps: Vec<Tcp> = match ctx.tier {
        Tier::Quick => vec![Tcp::Honest, Tcp::HonestSplit, Tcp::ShortBody, Tcp::WrongId, Tcp::Refused],
        Tier::Thorough => vec![Tcp::Honest, Tcp::HonestSplit, Tcp::ShortBody, Tcp::WrongId, Tcp::Refused, Tcp::Silent],
    };
    let q = question(&dn("www.real.test."), qt(RecordType::A));
    let mut cases = Vec::new();
    for u in &udps {
        for t in &tcps {
            if *u == Udp::Honest && *t != Tcp::Honest {
                continue; // TCP is never reached
            }
            cases.push((*u, *t));
        }
    }
    // every case gets its own server and its own thread (they are independent
    // and the slow ones wait for real timeouts)
    let results: Vec<(Udp, Tcp, Result<(Option<Message>, f64, usize, usize), String>)> = std::thread::scope(|s| {
        let handles: Vec<_> = cases
            .iter()
            .map(|(u, t)| {
                let (u, t, q) = (*u, *t, q.clone());
                s.spawn(move || {
                    // one port number free for UDP *and* TCP: the kernel hands out a free
                    // UDP port, the same TCP port may be taken (another check's server, an
                    // outgoing connection) - try again; not finding one is machinery
                    let mut bound: Option<(UdpSocket, SocketAddr, Option<TcpListener>)> = None;
                    let mut last = String::new();
                    for _ in 0..200 {
                        let udp = match UdpSocket::bind("127.0.0.1:0") {
                            Ok(s) => s,
                            Err(e) => {
                                last = format!("udp bind: {e}");
                                continue;
                            }
                        };
                        let addr: SocketAddr = match udp.local_addr() {
                            Ok(a) => a,
                            Err(e) => {
                                last = format!("local_addr: {e}");
                                continue;
                            }
                        };
                        // (for the `Refused` behaviour the TCP port must be free as well, or
                        // somebody else's listener would answer)
                        match TcpListener::bind(addr) {
                            Ok(l) => {
                                bound = Some((udp, addr, if t == Tcp::Refused { None } else { Some(l) }));
                                break;
                            }
                            Err(e) => last = format!("tcp bind {addr}: {e}"),
                        }
                    }
                    let Some((udp, addr, tcp)) = bound else {
                        eprintln!("C08: machinery error: no loopback port free for both UDP and TCP after 200 attempts ({last})");
                        std::process::exit(2);
                    };
                    let slow = u == Udp::Silent || t == Tcp::Silent;
                    let deadline = Duration::from_secs(if slow { 13 } else { 4 });
                    let server = std::thread::spawn(move || serve(udp, tcp, u, t, deadline));
                    let rt = tokio::runtime::Builder::new_current_thread()
                        .enable_all()
                        .build()
                        .expect("runtime");
                    let started = Instant::now();
                    let got = std::panic::catch_unwind(std::panic::AssertUnwindSafe(|| {
                        rt.block_on(async {
                            tokio::time::timeout(Duration::from_secs(20), query_nameserver(addr, q.clone(), false)).await
                        })
                    }));
                    let secs = started.elapsed().as_secs_f64();
                    let log = server.join().unwrap_or(ServerLog { udp_requests: 0, tcp_connections: 0 });
                    match got {
                        Ok(Ok(m)) => (u, t, Ok((m, secs, log.udp_requests, log.tcp_connections))),
                        Ok(Err(_)) => (u, t, Err("query_nameserver did not return within 20 s".into())),
                        Err(_) => (u, t, Err("query_nameserver panicked".into())),
                    }
                })
            })
            .collect();
        handles.into_iter().map(|h| h.join().expect("case thread")).collect()
    });
    let mut ran = 0u64;
    for (u, t, r) in results {
        ran += 1;
        let replay = json!({"kind": "real-transport", "udp": format!("{u:?}"), "tcp": format!("{t:?}")});
        match r {
            Err(e) => report.violations.push(Violation {
                clause: "real-transport-hang-or-panic".into(),
                summary: format!("UDP {u:?} / TCP {t:?}: {e}"),
                replay,
                slug: None,
            }),
            Ok((got, secs, n_udp, n_tcp)) => {
                // the request the server saw has a random ID: compare modulo the ID
                let want = expected(u, t, &Message::from_question(0, q.clone()));
                let strip = |m: Option<Message>| {
                    m.map(|mut m| {
                        m.header.id = 0;
                        m
                    })
                };
                let (g, w) = (strip(got), strip(want));
                if g != w {
                    report.violations.push(Violation {
                        clause: "real-transport-result".into(),
                        summary: format!(
                            "UDP {u:?} / TCP {t:?}: query_nameserver returned {:?}, expected {:?} (server saw {n_udp} datagrams, {n_tcp} connections)",
                            g.as_ref().map(|m| canon_rrs(&m.answers)),
                            w.as_ref().map(|m| canon_rrs(&m.answers))
                        ),
                        replay: replay.clone(),
                        slug: None,
                    });
                }
                let limit = if u == Udp::Silent || t == Tcp::Silent { 10.8 } else { 5.5 };
                if secs > limit {
                    report.violations.push(Violation {
                        clause: "real-transport-too-slow".into(),
                        summary: format!("UDP {u:?} / TCP {t:?}: the exchange took {secs:.1} s of real time"),
                        replay,
                        slug: None,
                    });
                }
                report.hist(
                    &format!(
                        "real transport: {}",
                        if g.is_some() { "reply accepted" } else { "no usable reply" }
                    ),
                    1,
                );
            }
        }
    }
    report.evaluations += ran;
    report.transitions += ran;
    report.traces_validated += ran;
    report.distinct_nontrivial += ran.saturating_sub(1);
    report.extra.insert(
        "real_transport".into(),
        json!({
            "cases": ran,
            "udp_behaviours": udps.iter().map(|u| format!("{u:?}")).collect::<Vec<_>>(),
            "tcp_behaviours": tcps.iter().map(|t| format!("{t:?}")).collect::<Vec<_>>(),
            "note": "real sockets on loopback, real time; every (UDP, TCP) behaviour pair once",
        }),
    );
}

pub fn replay(ctx: &Ctx, v: &serde_json::Value) -> i32 {
    // re-run the whole (small) table and report the named case
    let mut report = Report::new();
    let c = Ctx {
        id: ctx.id,
        tier: Tier::Thorough,
        seed: 0,
        start: Instant::now(),
        threads: 1,
    };
    run_real(&c, &mut report);
    let want = format!("UDP {} / TCP {}", v["udp"].as_str().unwrap_or(""), v["tcp"].as_str().unwrap_or(""));
    let mut bad = false;
    for x in &report.violations {
        if x.summary.starts_with(&want) {
            println!("  finding [{}]: {}", x.clause, x.summary);
            bad = true;
        }
    }
    if bad {
        println!("VIOLATION property={} replay=(replayed case)", ctx.id);
        1
    } else {
        println!("replay: property holds on this case");
        0
    }
}
