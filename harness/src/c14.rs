//! C14 — hosts files are read as hosts(5) describes and convert losslessly.
//!
//! Bounded-exhaustive enumeration of hosts-file texts built from a line
//! grammar (address forms x name lists x separators x comment positions x
//! line ends; 1..3-line files over a line alphabet; malformed classes).  Every
//! text goes through the real `Hosts::deserialise` and is compared with a
//! small reference reader written from hosts(5) as restated by the property;
//! every successfully read value then goes through serialise/deserialise,
//! `Zone::from`, `Hosts::try_from`, `Hosts::from_zone_lossy` and
//! `Zone::resolve`.  A sub-corpus is also pushed through the `htoh`, `htoz`
//! and `ztoh --strict` binaries.

use crate::common::*;
use crate::util::*;
use dns_types::hosts::types::Hosts;
use dns_types::protocol::types::*;
use dns_types::zones::types::{Zone, ZoneResult};
use serde_json::{json, Value};
use std::collections::{BTreeMap, HashSet};
use std::io::Write as _;
use std::net::{Ipv4Addr, Ipv6Addr};
use std::panic::{catch_unwind, AssertUnwindSafe};
use std::path::PathBuf;
use std::process::{Command, Stdio};

const SLUG_NAME_HASH: &str = "hosts-comment-directly-after-name";
const SLUG_NONASCII: &str = "hosts-non-ascii-directly-after-hash";
const CLAUSE_NAME_HASH: &str = "comment-directly-after-name";
const CLAUSE_NONASCII: &str = "comment-non-ascii";

// =====================================================================
// Reference model (hosts(5) as restated by the property)
// =====================================================================

#[derive(Clone, Debug, Default, PartialEq, Eq)]
struct RefHosts {
    /// canonical lower-case absolute name ("foo.bar.") -> address
    v4: BTreeMap<String, [u8; 4]>,
    v6: BTreeMap<String, [u8; 16]>,
}

impl RefHosts {
    fn show(&self) -> Value {
        let mut v: Vec<String> = Vec::new();
        for (n, a) in &self.v4 {
            v.push(format!("{n} A {}", Ipv4Addr::from(*a)));
        }
        for (n, a) in &self.v6 {
            v.push(format!("{n} AAAA {}", Ipv6Addr::from(*a)));
        }
        json!(v)
    }
    fn len(&self) -> usize {
        self.v4.len() + self.v6.len()
    }
}

#[derive(Clone, Debug, PartialEq, Eq)]
enum RefAddr {
    V4([u8; 4]),
    V6([u8; 16]),
}

fn ref_parse_v4(s: &str) -> Option<[u8; 4]> {
    let parts: Vec<&str> = s.split('.').collect();
    if parts.len() != 4 {
        return None;
    }
    let mut out = [0u8; 4];
    for (i, p) in parts.iter().enumerate() {
        if p.is_empty() || p.len() > 3 || !p.bytes().all(|b| b.is_ascii_digit()) {
            return None;
        }
        if p.len() > 1 && p.starts_with('0') {
            return None; // never generated; see assumptions
        }
        let v: u32 = p.parse().ok()?;
        if v > 255 {
            return None;
        }
        out[i] = v as u8;
    }
    Some(out)
}

/// Groups of one side of a `::` (or of the whole address).  `may_end_v4`:
/// the last piece may be a dotted quad standing for two groups.
fn ref_v6_groups(part: &str, may_end_v4: bool) -> Option<Vec<u16>> {
    if part.is_empty() {
        return Some(Vec::new());
    }
    let pieces: Vec<&str> = part.split(':').collect();
    let mut out = Vec::new();
    for (i, p) in pieces.iter().enumerate() {
        if p.contains('.') {
            if !(may_end_v4 && i == pieces.len() - 1) {
                return None;
            }
            let q = ref_parse_v4(p)?;
            out.push(u16::from(q[0]) << 8 | u16::from(q[1]));
            out.push(u16::from(q[2]) << 8 | u16::from(q[3]));
        } else {
            if p.is_empty() || p.len() > 4 || !p.bytes().all(|b| b.is_ascii_hexdigit()) {
                return None;
            }
            out.push(u16::from_str_radix(p, 16).ok()?);
        }
    }
    Some(out)
}

fn ref_parse_v6(s: &str) -> Option<[u8; 16]> {
    let groups: Vec<u16> = match s.find("::") {
        None => {
            let g = ref_v6_groups(s, true)?;
            if g.len() != 8 {
                return None;
            }
            g
        }
        Some(i) => {
            let head = &s[..i];
            let tail = &s[i + 2..];
            if tail.contains("::") || tail.starts_with(':') || head.ends_with(':') {
                return None;
            }
            let h = ref_v6_groups(head, false)?;
            let t = ref_v6_groups(tail, true)?;
            if h.len() + t.len() > 7 {
                return None;
            }
            let mut g = h.clone();
            g.resize(8 - t.len(), 0);
            g.extend(t);
            g
        }
    };
    let mut out = [0u8; 16];
    for (i, g) in groups.iter().enumerate() {
        out[2 * i] = (g >> 8) as u8;
        out[2 * i + 1] = (g & 0xff) as u8;
    }
    Some(out)
}

fn ref_parse_addr(s: &str) -> Option<RefAddr> {
    if let Some(a) = ref_parse_v4(s) {
        return Some(RefAddr::V4(a));
    }
    ref_parse_v6(s).map(RefAddr::V6)
}

/// A name taken relative to the root: canonical lower-case absolute form.
fn ref_parse_name(s: &str) -> Option<String> {
    if !s.is_ascii() || s.is_empty() {
        return None;
    }
    if s == "." {
        return Some(".".to_string());
    }
    let body = s.strip_suffix('.').unwrap_or(s);
    let mut wire = 1usize;
    let mut out = String::new();
    for l in body.split('.') {
        if l.is_empty() || l.len() > 63 {
            return None;
        }
        wire += l.len() + 1;
        out.push_str(&l.to_ascii_lowercase());
        out.push('.');
    }
    if wire > 255 {
        return None;
    }
    Some(out)
}

#[derive(Clone, Debug, PartialEq, Eq)]
enum Expect {
    Maps(RefHosts),
    Error(String),
    /// a line with a malformed address and no names: either an error or these mappings
    Either(RefHosts, String),
}

#[derive(Clone, Debug, Default)]
struct Features {
    map_events: u32,
    overrides: u32,
    comment_lines: u32,
    iface_lines: u32,
    addr_only_lines: u32,
    blank_lines: u32,
    error_lines: u32,
    unjudged_lines: u32,
    multi_name_lines: u32,
    lines: u32,
}

fn is_blank(c: char) -> bool {
    c == ' ' || c == '\t'
}

fn ref_read(text: &str) -> (Expect, Features) {
    let mut f = Features::default();
    let mut h = RefHosts::default();
    let mut error: Option<String> = None;
    let mut unjudged: Option<String> = None;
    let mut lines: Vec<&str> = text.split('\n').collect();
    if lines.last() == Some(&"") {
        lines.pop();
    }
    for raw in lines {
        f.lines += 1;
        let line = raw.strip_suffix('\r').unwrap_or(raw);
        let body = match line.find('#') {
            Some(i) => {
                f.comment_lines += 1;
                &line[..i]
            }
            None => line,
        };
        let fields: Vec<&str> = body.split(is_blank).filter(|s| !s.is_empty()).collect();
        if fields.is_empty() {
            f.blank_lines += 1;
            continue;
        }
        let addr = fields[0];
        if addr.contains('%') {
            f.iface_lines += 1;
            continue;
        }
        let names = &fields[1..];
        let parsed = ref_parse_addr(addr);
        if names.is_empty() {
            if parsed.is_some() {
                f.addr_only_lines += 1;
            } else {
                f.unjudged_lines += 1;
                unjudged.get_or_insert_with(|| format!("malformed address {addr:?} with no names"));
            }
            continue;
        }
        let Some(parsed) = parsed else {
            f.error_lines += 1;
            error.get_or_insert_with(|| format!("malformed address {addr:?}"));
            continue;
        };
        let mut keys = Vec::new();
        let mut bad = false;
        for n in names {
            match ref_parse_name(n) {
                Some(k) => keys.push(k),
                None => {
                    bad = true;
                    error.get_or_insert_with(|| format!("malformed name {n:?}"));
                }
            }
        }
        if bad {
            f.error_lines += 1;
            continue;
        }
        if keys.len() > 1 {
            f.multi_name_lines += 1;
        }
        for k in keys {
            f.map_events += 1;
            let replaced = match &parsed {
                RefAddr::V4(a) => h.v4.insert(k, *a).is_some(),
                RefAddr::V6(a) => h.v6.insert(k, *a).is_some(),
            };
            if replaced {
                f.overrides += 1;
            }
        }
    }
    let e = match (error, unjudged) {
        (Some(e), _) => Expect::Error(e),
        (None, Some(u)) => Expect::Either(h, u),
        (None, None) => Expect::Maps(h),
    };
    (e, f)
}

fn show_expect(e: &Expect) -> Value {
    match e {
        Expect::Maps(m) => json!({"ok": m.show()}),
        Expect::Error(s) => json!({"error": s}),
        Expect::Either(m, s) => json!({"either_error_or": m.show(), "because": s}),
    }
}

// =====================================================================
// Implementation side
// =====================================================================

fn name_key(n: &DomainName) -> String {
    if n.labels.len() <= 1 {
        return ".".to_string();
    }
    let mut s = String::new();
    for l in &n.labels {
        if l.is_empty() {
            break;
        }
        for &b in l.octets().iter() {
            s.push(b as char);
        }
        s.push('.');
    }
    s
}

fn dump_hosts(h: &Hosts) -> RefHosts {
    let mut out = RefHosts::default();
    for (n, a) in &h.v4 {
        out.v4.insert(name_key(n), a.octets());
    }
    for (n, a) in &h.v6 {
        out.v6.insert(name_key(n), a.octets());
    }
    out
}

#[derive(Clone, Debug)]
enum ImplRead {
    Ok(RefHosts),
    Err(String),
    Panic,
}

fn impl_read_raw(text: &str) -> Result<Result<Hosts, String>, ()> {
    catch_unwind(AssertUnwindSafe(|| {
        Hosts::deserialise(text).map_err(|e| format!("{e:?}"))
    }))
    .map_err(|_| ())
}

fn impl_read(text: &str) -> (ImplRead, Option<Hosts>) {
    match impl_read_raw(text) {
        Ok(Ok(h)) => (ImplRead::Ok(dump_hosts(&h)), Some(h)),
        Ok(Err(e)) => (ImplRead::Err(e), None),
        Err(()) => (ImplRead::Panic, None),
    }
}

fn show_impl(r: &ImplRead) -> Value {
    match r {
        ImplRead::Ok(m) => json!({"ok": m.show()}),
        ImplRead::Err(e) => json!({"error": e}),
        ImplRead::Panic => json!("panic"),
    }
}

fn agrees(e: &Expect, r: &ImplRead) -> bool {
    match (e, r) {
        (_, ImplRead::Panic) => false,
        (Expect::Maps(m), ImplRead::Ok(g)) => m == g,
        (Expect::Maps(_), ImplRead::Err(_)) => false,
        (Expect::Error(_), ImplRead::Err(_)) => true,
        (Expect::Error(_), ImplRead::Ok(_)) => false,
        (Expect::Either(_, _), ImplRead::Err(_)) => true,
        (Expect::Either(m, _), ImplRead::Ok(g)) => m == g,
    }
}

// ---- the two repairs that define the narrow predicates of the expected defects

/// Insert one blank before the first `#` of a line when it directly follows a
/// non-blank character.  The hosts(5) meaning of the text is unchanged.
fn repair_blank_before_hash(text: &str) -> String {
    let mut out = String::with_capacity(text.len() + 4);
    for (i, line) in text.split('\n').enumerate() {
        if i > 0 {
            out.push('\n');
        }
        match line.find('#') {
            Some(p) if p > 0 && !line[..p].ends_with(is_blank) => {
                out.push_str(&line[..p]);
                out.push(' ');
                out.push_str(&line[p..]);
            }
            _ => out.push_str(line),
        }
    }
    out
}

/// Insert one blank after the first `#` of a line when it is directly
/// followed by a non-ASCII character.  The meaning is unchanged (comment).
fn repair_blank_after_hash(text: &str) -> String {
    let mut out = String::with_capacity(text.len() + 4);
    for (i, line) in text.split('\n').enumerate() {
        if i > 0 {
            out.push('\n');
        }
        match line.find('#') {
            Some(p) if line[p + 1..].chars().next().map_or(false, |c| !c.is_ascii()) => {
                out.push_str(&line[..=p]);
                out.push(' ');
                out.push_str(&line[p + 1..]);
            }
            _ => out.push_str(line),
        }
    }
    out
}

/// Classify a disagreement between implementation and reference reader.
/// Returns (clause, slug) pairs; a slug is given only when applying the
/// defect's repair (and nothing else) makes the implementation agree.
fn classify_read(
    text: &str,
    e: &Expect,
    r: &ImplRead,
    reader: &dyn Fn(&str) -> ImplRead,
) -> Vec<(String, Option<&'static str>)> {
    if matches!(r, ImplRead::Panic) {
        return vec![("panic".into(), None)];
    }
    let r2 = repair_blank_after_hash(text);
    let r1 = repair_blank_before_hash(text);
    if r2 != text && agrees(e, &reader(&r2)) {
        return vec![(CLAUSE_NONASCII.into(), Some(SLUG_NONASCII))];
    }
    if r1 != text && agrees(e, &reader(&r1)) {
        return vec![(CLAUSE_NAME_HASH.into(), Some(SLUG_NAME_HASH))];
    }
    if r1 != text && r2 != text {
        let r12 = repair_blank_before_hash(&r2);
        if agrees(e, &reader(&r12)) {
            return vec![
                (CLAUSE_NAME_HASH.into(), Some(SLUG_NAME_HASH)),
                (CLAUSE_NONASCII.into(), Some(SLUG_NONASCII)),
            ];
        }
    }
    let c = match (e, r) {
        (Expect::Error(_), _) => "read-accepts-malformed",
        (_, ImplRead::Err(_)) => "read-rejects-valid",
        _ => "read-mapping",
    };
    vec![(c.into(), None)]
}

// =====================================================================
// Conversions: serialise / Zone::from / try_from / resolve
// =====================================================================

fn expected_zone_dump(m: &RefHosts) -> Vec<String> {
    let mut v = Vec::new();
    for (n, a) in &m.v4 {
        // (the TTL hosts data gets in a zone is the crate's public constant, not part of the statement)
        v.push(format!("{n} {} A {}", dns_types::hosts::types::TTL, Ipv4Addr::from(*a)));
    }
    for (n, a) in &m.v6 {
        v.push(format!("{n} {} AAAA {}", dns_types::hosts::types::TTL, Ipv6Addr::from(*a)));
    }
    v.sort();
    v
}

fn zone_dump(z: &Zone) -> Vec<String> {
    let mut v = Vec::new();
    for (n, zrs) in z.all_records() {
        for zr in zrs {
            v.push(format!("{} {} {}", name_key(n), zr.ttl, show_data(&zr.rtype_with_data)));
        }
    }
    v.sort();
    v
}

fn key_to_name(k: &str) -> Option<DomainName> {
    DomainName::from_dotted_string(k)
}

/// All conversion clauses for one hosts value `h` whose mappings are `m`.
/// Returns (clause, detail) for every failing clause; `lookups` is increased
/// by the number of `Zone::resolve` calls made.
fn check_conversions(h: &Hosts, m: &RefHosts, lookups: &mut u64) -> Vec<(String, String)> {
    let mut bad: Vec<(String, String)> = Vec::new();
    let res = catch_unwind(AssertUnwindSafe(|| {
        let mut bad: Vec<(String, String)> = Vec::new();
        let mut n_lookups = 0u64;
        // --- serialise, read back
        let s = h.serialise();
        match Hosts::deserialise(&s) {
            Ok(h2) => {
                let d = dump_hosts(&h2);
                if d != *m {
                    bad.push((
                        "serialise-roundtrip".into(),
                        format!("serialised {:?} reads back as {}", s, d.show()),
                    ));
                }
            }
            Err(e) => bad.push((
                "serialise-roundtrip".into(),
                format!("serialised {:?} does not read back: {e:?}", s),
            )),
        }
        // the written text means the same under the reference reader
        match ref_read(&s).0 {
            Expect::Maps(d) if d == *m => {}
            other => bad.push((
                "serialise-hosts5".into(),
                format!("serialised {:?} means {} to the reference reader", s, show_expect(&other)),
            )),
        }
        // --- to zone
        let z = Zone::from(h.clone());
        let want = expected_zone_dump(m);
        let got = zone_dump(&z);
        if got != want
            || !z.all_wildcard_records().is_empty()
            || z.is_authoritative()
            || !z.get_apex().is_root()
        {
            bad.push((
                "zone-records".into(),
                format!(
                    "Zone::from holds {:?} (wildcard sets {}, authoritative {}, apex {}) expected exactly {:?}",
                    got,
                    z.all_wildcard_records().len(),
                    z.is_authoritative(),
                    name_key(z.get_apex()),
                    want
                ),
            ));
        }
        // --- back to hosts
        match Hosts::try_from(z.clone()) {
            Ok(h3) => {
                let d = dump_hosts(&h3);
                if d != *m || h3 != *h {
                    bad.push((
                        "zone-to-hosts".into(),
                        format!("Hosts::try_from(Zone::from(h)) = {}", d.show()),
                    ));
                }
            }
            Err(e) => bad.push((
                "zone-to-hosts".into(),
                format!("Hosts::try_from(Zone::from(h)) failed: {e:?}"),
            )),
        }
        let h4 = Hosts::from_zone_lossy(&z);
        if dump_hosts(&h4) != *m {
            bad.push((
                "zone-to-hosts".into(),
                format!("Hosts::from_zone_lossy(Zone::from(h)) = {}", dump_hosts(&h4).show()),
            ));
        }
        // --- resolve
        let mut names: Vec<&String> = m.v4.keys().chain(m.v6.keys()).collect();
        names.sort();
        names.dedup();
        for k in names {
            let Some(name) = key_to_name(k) else {
                bad.push(("resolve".into(), format!("cannot build name {k:?}")));
                continue;
            };
            for fam in [4u8, 6u8] {
                let (qtype, want): (QueryType, Vec<ResourceRecord>) = if fam == 4 {
                    (
                        QueryType::Record(RecordType::A),
                        m.v4.get(k)
                            .map(|a| {
                                vec![rr(&name, RecordTypeWithData::A { address: Ipv4Addr::from(*a) }, dns_types::hosts::types::TTL)]
                            })
                            .unwrap_or_default(),
                    )
                } else {
                    (
                        QueryType::Record(RecordType::AAAA),
                        m.v6.get(k)
                            .map(|a| {
                                vec![rr(&name, RecordTypeWithData::AAAA { address: Ipv6Addr::from(*a) }, dns_types::hosts::types::TTL)]
                            })
                            .unwrap_or_default(),
                    )
                };
                n_lookups += 1;
                let got = z.resolve(&name, qtype);
                let ok = matches!(&got, Some(ZoneResult::Answer { rrs }) if *rrs == want);
                if !ok {
                    bad.push((
                        "resolve".into(),
                        format!(
                            "resolve({k}, {qtype}) = {:?} expected Answer {:?}",
                            got.as_ref().map(crate::refzone::show_zone_result),
                            canon_rrs(&want)
                        ),
                    ));
                }
            }
        }
        (bad, n_lookups)
    }));
    match res {
        Ok((b, n)) => {
            *lookups += n;
            bad = b;
        }
        Err(_) => bad.push(("panic".into(), "a conversion panicked".into())),
    }
    bad
}

// =====================================================================
// One case, shrinking, collection
// =====================================================================

fn replay_value(text: &str, binaries: bool) -> Value {
    json!({
        "kind": "hosts-text",
        "text": text,
        "text_hex": hex(text.as_bytes()),
        "binaries": binaries,
    })
}

/// Drop whole lines while `still(text)` stays true.
fn shrink_lines(text: &str, still: &dyn Fn(&str) -> bool) -> String {
    let mut cur: Vec<String> = text.split_inclusive('\n').map(String::from).collect();
    let mut i = 0;
    while cur.len() > 1 && i < cur.len() {
        let mut cand = cur.clone();
        cand.remove(i);
        let t: String = cand.concat();
        if still(&t) {
            cur = cand;
        } else {
            i += 1;
        }
    }
    cur.concat()
}

/// Keeps the `k` smallest witnesses per (clause, slug) and counts all.
#[derive(Default)]
struct Keep {
    kept: BTreeMap<(String, Option<&'static str>), Vec<(usize, String, String, bool)>>,
    counts: BTreeMap<String, u64>,
}
const KEEP_PER_CLAUSE: usize = 3;

impl Keep {
    fn wants(&self, clause: &str, slug: Option<&'static str>, len: usize) -> bool {
        match self.kept.get(&(clause.to_string(), slug)) {
            None => true,
            Some(v) => v.len() < KEEP_PER_CLAUSE || v.last().map_or(true, |w| len < w.0),
        }
    }
    fn count(&mut self, clause: &str, slug: Option<&'static str>) {
        *self
            .counts
            .entry(format!("{}|{}", clause, slug.unwrap_or("")))
            .or_insert(0) += 1;
    }
    fn add(&mut self, clause: &str, slug: Option<&'static str>, text: String, detail: String, binaries: bool) {
        let v = self.kept.entry((clause.to_string(), slug)).or_default();
        if v.iter().any(|w| w.1 == text) {
            return;
        }
        v.push((text.len(), text, detail, binaries));
        v.sort();
        v.truncate(KEEP_PER_CLAUSE);
    }
    fn merge(&mut self, other: Keep) {
        for (k, n) in other.counts {
            *self.counts.entry(k).or_insert(0) += n;
        }
        for ((c, s), v) in other.kept {
            for (_, t, d, b) in v {
                self.add(&c, s, t, d, b);
            }
        }
    }
    fn into_violations(self) -> Vec<Violation> {
        let mut out = Vec::new();
        // clauses without a slug first: `finish` prints a bounded number
        let mut groups: Vec<_> = self.kept.into_iter().collect();
        groups.sort_by_key(|((c, s), _)| (s.is_some(), c.clone()));
        for ((clause, slug), v) in groups {
            for (_, text, detail, binaries) in v {
                out.push(Violation {
                    clause: clause.clone(),
                    summary: format!("hosts text {:?}: {}", text, detail),
                    replay: replay_value(&text, binaries),
                    slug,
                });
            }
        }
        out
    }
}

#[derive(Default)]
struct Acc {
    evaluations: u64,
    tokens: u64,
    lookups: u64,
    conversions: u64,
    seen: HashSet<u64>,
    nontrivial_seen: HashSet<u64>,
    hist: BTreeMap<String, u64>,
    feat: BTreeMap<String, u64>,
    keep: Keep,
    samples: Vec<Value>,
    bin_inputs: u64,
    bin_spawns: u64,
}

fn bump(m: &mut BTreeMap<String, u64>, k: &str, n: u64) {
    if n > 0 {
        *m.entry(k.to_string()).or_insert(0) += n;
    }
}

/// Run every in-process clause on one text.
fn check_text(acc: &mut Acc, text: &str, tokens: u32) {
    acc.evaluations += 1;
    acc.tokens += u64::from(tokens);
    let digest = fnv64(text.as_bytes());
    let fresh = acc.seen.insert(digest);
    let (expect, feat) = ref_read(text);
    let (got, hosts) = impl_read(text);
    if fresh {
        let class = match &expect {
            Expect::Maps(m) if m.len() == 0 => "ref:ok-no-mappings",
            Expect::Maps(_) => "ref:ok-mappings",
            Expect::Error(_) => "ref:error",
            Expect::Either(_, _) => "ref:unjudged(malformed address without names)",
        };
        bump(&mut acc.hist, class, 1);
        bump(
            &mut acc.hist,
            match &got {
                ImplRead::Ok(m) if m.len() == 0 => "impl:ok-no-mappings",
                ImplRead::Ok(_) => "impl:ok-mappings",
                ImplRead::Err(_) => "impl:error",
                ImplRead::Panic => "impl:panic",
            },
            1,
        );
        bump(&mut acc.feat, "texts-with-override(last-writer)", u64::from(feat.overrides > 0));
        bump(&mut acc.feat, "texts-with-comment", u64::from(feat.comment_lines > 0));
        bump(&mut acc.feat, "texts-with-iface-line", u64::from(feat.iface_lines > 0));
        bump(&mut acc.feat, "texts-with-address-only-line", u64::from(feat.addr_only_lines > 0));
        bump(&mut acc.feat, "texts-with-blank-or-comment-only-line", u64::from(feat.blank_lines > 0));
        bump(&mut acc.feat, "texts-with-error-line", u64::from(feat.error_lines > 0));
        bump(&mut acc.feat, "texts-with-multi-name-line", u64::from(feat.multi_name_lines > 0));
        bump(&mut acc.feat, "texts-with-2+-lines", u64::from(feat.lines > 1));
        if feat.map_events > 0 || feat.error_lines > 0 {
            acc.nontrivial_seen.insert(digest);
        }
        if acc.samples.len() < 2 && acc.evaluations % 7919 == 3 {
            acc.samples.push(json!({"text": text, "reference": show_expect(&expect), "implementation": show_impl(&got)}));
        }
    }

    if !agrees(&expect, &got) {
        for (clause, slug) in classify_read(text, &expect, &got, &|t| impl_read(t).0) {
            acc.keep.count(&clause, slug);
            if acc.keep.wants(&clause, slug, text.len()) {
                let c2 = clause.clone();
                let still = move |t: &str| {
                    let (e, _) = ref_read(t);
                    let (g, _) = impl_read(t);
                    !agrees(&e, &g)
                        && classify_read(t, &e, &g, &|t| impl_read(t).0).iter().any(|(c, s)| *c == c2 && *s == slug)
                };
                let small = shrink_lines(text, &still);
                let (e, _) = ref_read(&small);
                let (g, _) = impl_read(&small);
                acc.keep.add(
                    &clause,
                    slug,
                    small,
                    format!("implementation {} but reference {}", show_impl(&g), show_expect(&e)),
                    false,
                );
            }
        }
    }

    if let Some(h) = hosts {
        acc.conversions += 1;
        let m = match &got {
            ImplRead::Ok(m) => m.clone(),
            _ => unreachable!(),
        };
        for (clause, detail) in check_conversions(&h, &m, &mut acc.lookups) {
            acc.keep.count(&clause, None);
            if acc.keep.wants(&clause, None, text.len()) {
                acc.keep.add(&clause, None, text.to_string(), detail, false);
            }
        }
    }
}

// =====================================================================
// The enumerated space
// =====================================================================

struct Case {
    text: String,
    tokens: u32,
}

/// comment = (after how many fields, directly attached?, body)
fn render_line(
    lead: &str,
    addr: &str,
    names: &[&str],
    sep1: &str,
    sep2: &str,
    comment: Option<(usize, bool, &str)>,
    tail: &str,
) -> Option<Case> {
    let mut fields: Vec<&str> = vec![addr];
    fields.extend_from_slice(names);
    let mut tokens = 0u32;
    let mut out = String::new();
    out.push_str(lead);
    if !lead.is_empty() {
        tokens += 1;
    }
    let put_comment = |out: &mut String, tokens: &mut u32, direct: bool, body: &str| {
        if !direct {
            out.push(' ');
        }
        out.push('#');
        out.push_str(body);
        *tokens += 1;
    };
    if let Some((pos, direct, body)) = comment {
        if pos > fields.len() {
            return None;
        }
        if pos == 0 {
            put_comment(&mut out, &mut tokens, direct, body);
        }
    }
    for (i, f) in fields.iter().enumerate() {
        if i == 1 {
            out.push_str(sep1);
        } else if i > 1 {
            out.push_str(sep2);
        } else if matches!(comment, Some((0, _, _))) {
            out.push(' ');
        }
        out.push_str(f);
        tokens += 2;
        if let Some((pos, direct, body)) = comment {
            if pos == i + 1 {
                put_comment(&mut out, &mut tokens, direct, body);
            }
        }
    }
    out.push_str(tail);
    tokens += 1;
    Some(Case { text: out, tokens })
}

const V4_A: &str = "1.2.3.4";
const V4_B: &str = "5.6.7.8";

/// Valid address spellings (the last four carry an interface suffix).
const ADDRS: [&str; 24] = [
    "1.2.3.4",
    "5.6.7.8",
    "10.0.0.255",
    "0.0.0.0",
    "255.255.255.255",
    "127.0.0.1",
    "fd00:0:0:0:0:0:0:1",
    "2001:0db8:0000:0000:0000:0000:0000:0001",
    "::1",
    "::",
    "fd00::1",
    "fd00:1::",
    "2001:db8::1:0:0:1",
    "FD00::ABCD",
    "fD00::aBcD",
    "fd00::abcd",
    "::ffff:1.2.3.4",
    "64:ff9b::10.0.0.255",
    "::1.2.3.4",
    "0:0:0:0:0:ffff:5.6.7.8",
    "fe80::1%eth0",
    "fe80::1%1",
    "::1%lo",
    "1.2.3.4%eth0",
];

const NAME_POOL: [&str; 10] = [
    "foo", "FOO", "Foo.", "bar", "foo.bar", "Foo.BAR.", "a.b.c", "A.b.C.", "x-1", "h2.example.com",
];

fn namelists(pool: &[&'static str], max: usize) -> Vec<Vec<&'static str>> {
    let mut out: Vec<Vec<&'static str>> = Vec::new();
    let mut level: Vec<Vec<&'static str>> = vec![vec![]];
    for _ in 0..max {
        let mut next = Vec::new();
        for l in &level {
            for p in pool {
                let mut n = l.clone();
                n.push(*p);
                next.push(n);
            }
        }
        out.extend(next.iter().cloned());
        level = next;
    }
    out
}

const COMMENT_BODIES: [&str; 9] = ["c", "", " c", "\u{e9}", " \u{e9}", "c\u{e9}", "c#d", "%x", "\t1.2.3.4 baz"];

fn comment_options(max_pos: usize, bodies: &[&'static str]) -> Vec<Option<(usize, bool, &'static str)>> {
    let mut v = vec![None];
    for pos in 0..=max_pos {
        for direct in [true, false] {
            for b in bodies {
                v.push(Some((pos, direct, *b)));
            }
        }
    }
    v
}

const SEPS: [(&str, &str); 4] = [(" ", " "), ("\t", "\t"), ("  ", " \t"), (" \t ", "\t\t")];
const LEADS: [&str; 3] = ["", " ", "\t "];
const TAILS: [&str; 9] = ["", "\n", "\r\n", " ", " \n", " \r\n", "\t ", "\t \n", " \t\r\n"];

struct Family {
    name: &'static str,
    dims: Vec<usize>,
    gen: Box<dyn Fn(&[usize]) -> Option<Case> + Sync + Send>,
}

impl Family {
    fn count(&self) -> usize {
        self.dims.iter().product()
    }
    fn case(&self, mut idx: usize) -> Option<Case> {
        let mut ix = Vec::with_capacity(self.dims.len());
        for d in &self.dims {
            ix.push(idx % d);
            idx /= d;
        }
        (self.gen)(&ix)
    }
}

fn label_of(n: usize) -> String {
    "x".repeat(n)
}

fn malformed_texts() -> Vec<String> {
    let mut v: Vec<String> = Vec::new();
    let bad_addrs = [
        "1.2.3", "1.2.3.256", "1.2.3.4.5", "1.2.3.a", "1.2.3.", ":::1", "1::2::3", "12345::1",
        "fd00::g", "1:2:3:4:5:6:7", "1:2:3:4:5:6:7:8:9", "localhost", "1.2.3.4:", "::1.2.3",
        "1.2.3.4::", "1.2.3.\u{e9}", "\u{e9}",
    ];
    for a in bad_addrs {
        for t in [
            format!("{a}"),
            format!("{a}\n"),
            format!("{a} foo"),
            format!("{a}\tfoo bar\n"),
            format!("{a} foo # c"),
            format!("{a} # foo"),
            format!("{a}#c"),
            format!(" {a} foo\r\n"),
            format!("# {a} foo"),
            format!("{a} foo\n{V4_A} bar\n"),
            format!("{V4_A} bar\n{a} foo\n"),
            format!("{V4_A} bar\n{a}\n"),
        ] {
            v.push(t);
        }
    }
    let l64 = label_of(64);
    let n256 = format!("{}.{}.{}.{}", label_of(63), label_of(63), label_of(63), label_of(62));
    let bad_names: Vec<String> = vec![
        "foo..bar".into(),
        ".foo".into(),
        "foo..".into(),
        "..".into(),
        l64.clone(),
        format!("{l64}.foo"),
        format!("foo.{l64}."),
        n256.clone(),
        format!("{n256}."),
        "f\u{f6}o".into(),
        "\u{e9}".into(),
        "foo.\u{e9}.bar".into(),
    ];
    for b in &bad_names {
        for a in [V4_A, "fd00::1"] {
            for t in [
                format!("{a} {b}"),
                format!("{a} {b}\n"),
                format!("{a} foo {b}"),
                format!("{a} {b} foo"),
                format!("{a}\tfoo bar {b}\r\n"),
                format!("{a} {b}#c"),
                format!("{a} {b} # c"),
                format!("{a} foo # {b}"),
                format!("# {a} {b}"),
                format!("{a} foo\n{a} {b}\n"),
                format!("{a} {b}\n{a} foo\n"),
            ] {
                v.push(t);
            }
        }
        v.push(format!("fe80::1%eth0 {b}"));
        v.push(format!("fe80::1%eth0 foo {b}\n{V4_A} foo\n"));
    }
    // boundary-valid names
    let l63 = label_of(63);
    let n255 = format!("{}.{}.{}.{}", label_of(63), label_of(63), label_of(63), label_of(61));
    for n in [l63.clone(), format!("{l63}."), format!("{l63}.foo"), n255.clone(), format!("{n255}.")] {
        for a in [V4_A, "fd00::1"] {
            v.push(format!("{a} {n}"));
            v.push(format!("{a} foo {n}\n"));
            v.push(format!("{a} {n}\n{V4_B} {n}\n"));
        }
    }
    v
}

fn line_alphabet(tier: Tier) -> Vec<String> {
    let mut v: Vec<String> = Vec::new();
    let names: Vec<&str> = tier.pick(vec!["foo", "FOO.", "bar"], vec!["foo", "FOO.", "bar", "foo.bar", "Bar", "a.b.c", "Foo.Bar."]);
    let addrs: Vec<&str> = tier.pick(
        vec![V4_A, V4_B, "fd00::1", "FD00:0:0:0:0:0:0:2"],
        vec![V4_A, V4_B, "10.0.0.255", "fd00::1", "FD00:0:0:0:0:0:0:2", "fd00:0:0:0:0:0:0:1", "::ffff:1.2.3.4", "fd00::2", "::"],
    );
    for a in &addrs {
        for n in &names {
            v.push(format!("{a} {n}"));
        }
    }
    let pairs: Vec<(&str, &str)> = tier.pick(
        vec![(V4_A, "foo bar"), ("fd00::2", "bar foo"), (V4_B, "foo.bar")],
        vec![
            (V4_A, "foo bar"),
            (V4_B, "bar foo"),
            ("fd00::2", "bar foo"),
            ("fd00::1", "foo Bar"),
            (V4_B, "foo.bar bar"),
            (V4_A, "foo FOO foo."),
            ("::1", "foo bar foo.bar"),
        ],
    );
    for (a, n) in pairs {
        v.push(format!("{a} {n}"));
    }
    let specials: Vec<&str> = vec![
        "",
        "# c",
        "1.2.3.4",
        "fe80::1%eth0 foo",
        "5.6.7.8 foo#c",
        "5.6.7.8 foo # c",
        "5.6.7.8#c foo",
        "#\u{e9}",
        "# \u{e9}",
        "5.6.7.8 bar #\u{e9}",
        "bad foo",
        "bad",
        "1.2.3.4 foo..bar",
        "\t5.6.7.8\tbar \t foo  ",
        "::ffff:1.2.3.4 foo",
        "1.2.3.4 fOO bar#c baz",
        "5.6.7.8 f\u{f6}o",
        "fe80::1%eth0 foo..bar",
    ];
    for s in specials {
        v.push(s.to_string());
    }
    if tier == Tier::Thorough {
        for s in [
            " ",
            "\t#c",
            "fd00::1",
            "::1%lo bar",
            "fd00::2 foo#",
            "fd00::2 foo bar # 1.2.3.4 baz",
            "fd00::2# foo",
            "1.2.3.4 foo #c\u{e9}",
            "1.2.3.256 bar",
            "1.2.3.256",
            "fd00::1 .foo",
            "fd00::2 bar foo \t",
        ] {
            v.push(s.to_string());
        }
    }
    v.sort();
    v.dedup();
    v
}

fn families(tier: Tier) -> Vec<Family> {
    let mut fams: Vec<Family> = Vec::new();

    // S1a: every address spelling x a few name lists x separators x lead x tail x light comments
    {
        let lists: Vec<Vec<&'static str>> = tier.pick(
            vec![vec!["foo"], vec!["FOO."], vec!["foo", "bar"], vec!["a.b.c", "Foo.BAR."], vec!["foo", "bar", "FOO"], vec!["x-1", "h2.example.com", "foo.bar"]],
            {
                let mut l = namelists(&NAME_POOL[..5], 1);
                l.extend(namelists(&["foo", "Foo.BAR.", "a.b.c"], 2).into_iter().filter(|x| x.len() == 2));
                l.extend(vec![vec!["foo", "bar", "FOO"], vec!["x-1", "h2.example.com", "foo.bar"]]);
                l
            },
        );
        let comments: Vec<Option<(usize, bool, &'static str)>> = vec![
            None,
            Some((9, true, "c")),  // 9 = after the last field (resolved below)
            Some((1, true, "c")),
            Some((9, false, "c")),
            Some((9, true, "\u{e9}")),
        ];
        let comments: Vec<_> = comments.into_iter().take(tier.pick(3, 5)).collect();
        let dims = vec![ADDRS.len(), lists.len(), SEPS.len(), LEADS.len(), TAILS.len(), comments.len()];
        fams.push(Family {
            name: "single-line/address-forms",
            dims,
            gen: Box::new(move |ix| {
                let names = &lists[ix[1]];
                let c = comments[ix[5]].map(|(p, d, b)| (if p == 9 { names.len() + 1 } else { p }, d, b));
                render_line(LEADS[ix[3]], ADDRS[ix[0]], names, SEPS[ix[2]].0, SEPS[ix[2]].1, c, TAILS[ix[4]])
            }),
        });
    }
    // S1b: every name list
    {
        let lists: Vec<Vec<&'static str>> = match tier {
            Tier::Quick => {
                let mut l = namelists(&NAME_POOL[..8], 2);
                l.extend(namelists(&["foo", "FOO", "bar", "Foo.BAR."], 3).into_iter().filter(|x| x.len() == 3));
                l
            }
            Tier::Thorough => namelists(&NAME_POOL, 3),
        };
        let addrs = ["1.2.3.4", "fD00::aBcD", "fe80::1%eth0"];
        let seps = [SEPS[0], SEPS[2]];
        let tails = ["", "\r\n"];
        let dims = vec![addrs.len(), lists.len(), seps.len(), tails.len(), 2];
        fams.push(Family {
            name: "single-line/name-lists",
            dims,
            gen: Box::new(move |ix| {
                let names = &lists[ix[1]];
                let c = if ix[4] == 1 { Some((names.len() + 1, true, "c")) } else { None };
                render_line("", addrs[ix[0]], names, seps[ix[2]].0, seps[ix[2]].1, c, tails[ix[3]])
            }),
        });
    }
    // S1c: every comment position / attachment / body
    {
        let lists: Vec<Vec<&'static str>> = tier.pick(
            vec![vec!["foo"], vec!["foo", "BAR."], vec!["foo", "bar", "a.b.c"]],
            vec![vec!["foo"], vec!["FOO."], vec!["foo", "BAR."], vec!["bar", "foo"], vec!["foo", "bar", "a.b.c"], vec!["foo", "foo", "bar"]],
        );
        let addrs: Vec<&'static str> = tier.pick(
            vec!["1.2.3.4", "fd00::1", "fe80::1%eth0", "1.2.3"],
            vec!["1.2.3.4", "fd00::1", "FD00::ABCD", "::ffff:1.2.3.4", "fe80::1%eth0", "1.2.3", "1::2::3"],
        );
        let comments = comment_options(4, &COMMENT_BODIES);
        let seps: Vec<(&str, &str)> = tier.pick(vec![SEPS[0], SEPS[3]], SEPS.to_vec());
        let leads: Vec<&str> = tier.pick(vec!["", " "], LEADS.to_vec());
        let tails: Vec<&str> = tier.pick(vec!["", "\n", " \r\n"], TAILS.to_vec());
        let dims = vec![addrs.len(), lists.len(), comments.len(), seps.len(), leads.len(), tails.len()];
        fams.push(Family {
            name: "single-line/comment-positions",
            dims,
            gen: Box::new(move |ix| {
                render_line(leads[ix[4]], addrs[ix[0]], &lists[ix[1]], seps[ix[3]].0, seps[ix[3]].1, comments[ix[2]], tails[ix[5]])
            }),
        });
    }
    // S1d: malformed classes and boundary-valid names
    {
        let texts = malformed_texts();
        fams.push(Family {
            name: "malformed-and-boundary",
            dims: vec![texts.len()],
            gen: Box::new(move |ix| {
                let t = &texts[ix[0]];
                Some(Case { tokens: t.split_whitespace().count() as u32 + 1, text: t.clone() })
            }),
        });
    }
    // M: files of 1..3 lines over the line alphabet
    {
        let alpha = line_alphabet(tier);
        let n = alpha.len();
        for k in 1..=3usize {
            let alpha = alpha.clone();
            // line-end style: 0 = LF after every line, 1 = CRLF after every line, 2 = LF between, none at the end
            let styles = if k <= 2 { 3 } else { 1 };
            let mut dims = vec![n; k];
            dims.push(styles);
            fams.push(Family {
                name: match k {
                    1 => "files/1-line",
                    2 => "files/2-lines",
                    _ => "files/3-lines",
                },
                dims,
                gen: Box::new(move |ix| {
                    let style = ix[k];
                    let mut text = String::new();
                    let mut tokens = 0u32;
                    for j in 0..k {
                        // ix[0] is the *last* line so that neighbouring indices share a prefix
                        let line = &alpha[ix[k - 1 - j]];
                        text.push_str(line);
                        tokens += line.split_whitespace().count() as u32 + 1;
                        let last = j == k - 1;
                        match style {
                            0 => text.push('\n'),
                            1 => text.push_str("\r\n"),
                            _ => {
                                if !last {
                                    text.push('\n');
                                }
                            }
                        }
                    }
                    Some(Case { text, tokens })
                }),
            });
        }
    }
    fams
}

/// Sub-corpus for the binaries (one process per input and per tool, so this
/// is much smaller than the in-process space; a process start costs tens of
/// milliseconds here).
fn binary_corpus(tier: Tier) -> Vec<String> {
    let mut set: Vec<String> = Vec::new();
    let quick = tier == Tier::Quick;
    // every address spelling with one and two names, comment forms
    for a in ADDRS {
        for names in [&["foo"][..], &["Foo.BAR.", "a.b.c"][..]] {
            let comments: Vec<Option<(usize, bool, &str)>> = if quick {
                if names.len() == 1 {
                    vec![None]
                } else if ["5.6.7.8", "::1", "fd00:1::", "FD00::ABCD", "::ffff:1.2.3.4", "fe80::1%eth0"].contains(&a) {
                    vec![Some((names.len() + 1, true, "c"))]
                } else {
                    vec![]
                }
            } else {
                vec![None, Some((names.len() + 1, true, "c")), Some((names.len() + 1, false, "c \u{e9}"))]
            };
            for c in comments {
                if let Some(case) = render_line("", a, names, " ", "\t", c, "\n") {
                    set.push(case.text);
                }
            }
        }
    }
    if quick {
        // one text per malformed class and position
        for t in malformed_texts() {
            let one_line = !t.trim_end_matches('\n').contains('\n');
            if one_line
                && !t.contains('#')
                && !t.starts_with(' ')
                && !t.ends_with('\n')
                && !t.contains('\t')
                && t.matches(' ').count() == 1
                && (t.starts_with("1.2.3.4 ") || t.ends_with(" foo"))
            {
                set.push(t);
            }
        }
    } else {
        set.extend(malformed_texts());
    }
    let quick_alpha = line_alphabet(Tier::Quick);
    let sub: Vec<&str> = vec![
        "1.2.3.4 foo", "5.6.7.8 FOO.", "fd00::1 foo", "FD00:0:0:0:0:0:0:2 foo", "5.6.7.8 foo#c", "# c",
        "fe80::1%eth0 foo", "1.2.3.4 foo bar", "5.6.7.8 foo", "", "#\u{e9}", "bad foo",
    ];
    for a in &quick_alpha {
        set.push(format!("{a}\n"));
    }
    if quick {
        for a in &sub[..5] {
            for b in &sub[..5] {
                set.push(format!("{a}\n{b}\n"));
            }
        }
    } else {
        let mut pair_alpha: Vec<&str> = sub.clone();
        pair_alpha.extend([
            "fd00::2 bar foo", "5.6.7.8 foo.bar", "1.2.3.4", "5.6.7.8 foo # c", "5.6.7.8#c foo", "# \u{e9}",
            "1.2.3.4 foo..bar", "::ffff:1.2.3.4 foo",
        ]);
        for a in &pair_alpha {
            for b in &pair_alpha {
                set.push(format!("{a}\n{b}\n"));
            }
        }
        for a in &sub[..7] {
            for b in &sub[..7] {
                for c in &sub[..7] {
                    set.push(format!("{a}\r\n{b}\n{c}"));
                }
            }
        }
    }
    set.sort();
    set.dedup();
    set
}

// =====================================================================
// Binaries
// =====================================================================

fn bin_dir() -> PathBuf {
    match std::env::var("VERIF_REPO_BIN") {
        Ok(p) if !p.is_empty() => PathBuf::from(p),
        _ => crate::common::bin_dir(),
    }
}

fn run_bin(name: &str, args: &[&str], input: &[u8]) -> Result<(i32, Vec<u8>), String> {
    let path = bin_dir().join(name);
    let mut child = Command::new(&path)
        .args(args)
        .stdin(Stdio::piped())
        .stdout(Stdio::piped())
        .stderr(Stdio::null())
        .spawn()
        .map_err(|e| format!("cannot start {}: {e}", path.display()))?;
    {
        let mut stdin = child.stdin.take().ok_or("no stdin")?;
        let _ = stdin.write_all(input);
    }
    let out = child.wait_with_output().map_err(|e| format!("wait {name}: {e}"))?;
    Ok((out.status.code().unwrap_or(-1), out.stdout))
}

/// Outcome of a pipeline as seen through the reference reader.
fn outcome_of(code: i32, stdout: &[u8]) -> ImplRead {
    if code != 0 {
        return ImplRead::Err(format!("exit code {code}"));
    }
    match std::str::from_utf8(stdout) {
        Ok(s) => match ref_read(s).0 {
            Expect::Maps(m) => ImplRead::Ok(m),
            other => ImplRead::Err(format!("output {:?} is not a clean hosts file: {}", s, show_expect(&other))),
        },
        Err(_) => ImplRead::Err("output is not UTF-8".into()),
    }
}

/// Returns Err on machinery failure (binary cannot be started).
fn check_binaries(acc: &mut Acc, text: &str) -> Result<(), String> {
    acc.bin_inputs += 1;
    let (expect, _) = ref_read(text);
    let (_lib, lib_hosts) = impl_read(text);
    let lib_out: Option<String> = lib_hosts.as_ref().map(|h| h.serialise());

    let (c1, o1) = run_bin("htoh", &[], text.as_bytes())?;
    let (c2, o2) = run_bin("htoz", &[], text.as_bytes())?;
    acc.bin_spawns += 2;
    let (c3, o3) = if c2 == 0 {
        acc.bin_spawns += 1;
        run_bin("ztoh", &["--strict"], &o2)?
    } else {
        (c2, Vec::new())
    };

    let report = |acc: &mut Acc, clause: String, slug: Option<&'static str>, detail: String| {
        acc.keep.count(&clause, slug);
        if acc.keep.wants(&clause, slug, text.len()) {
            acc.keep.add(&clause, slug, text.to_string(), detail, true);
        }
    };

    // binaries against the library
    match &lib_out {
        Some(s) => {
            if c1 != 0 || o1 != s.as_bytes() {
                report(acc, "htoh-vs-library".into(), None, format!("htoh exit {c1} output {:?} but library writes {:?}", String::from_utf8_lossy(&o1), s));
            }
            if c2 != 0 || c3 != 0 || o3 != s.as_bytes() {
                report(acc, "htoz-ztoh-vs-library".into(), None, format!("htoz exit {c2}, ztoh --strict exit {c3} output {:?} but library writes {:?}", String::from_utf8_lossy(&o3), s));
            }
        }
        None => {
            if c1 == 0 || !o1.is_empty() {
                report(acc, "htoh-vs-library".into(), None, format!("htoh exit {c1} output {:?} but the library reports an error", String::from_utf8_lossy(&o1)));
            }
            if c2 == 0 || !o2.is_empty() {
                report(acc, "htoz-ztoh-vs-library".into(), None, format!("htoz exit {c2} but the library reports an error"));
            }
        }
    }
    // binaries against the reference reader
    let spawns = std::cell::Cell::new(0u64);
    let read_htoh = |t: &str| -> ImplRead {
        spawns.set(spawns.get() + 1);
        match run_bin("htoh", &[], t.as_bytes()) {
            Ok((c, o)) => outcome_of(c, &o),
            Err(e) => ImplRead::Err(e),
        }
    };
    let read_pipe = |t: &str| -> ImplRead {
        spawns.set(spawns.get() + 2);
        match run_bin("htoz", &[], t.as_bytes()) {
            Ok((0, z)) => match run_bin("ztoh", &["--strict"], &z) {
                Ok((c, o)) => outcome_of(c, &o),
                Err(e) => ImplRead::Err(e),
            },
            Ok((c, _)) => ImplRead::Err(format!("exit code {c}")),
            Err(e) => ImplRead::Err(e),
        }
    };
    let readers: [(&str, ImplRead, &dyn Fn(&str) -> ImplRead); 2] =
        [("htoh", outcome_of(c1, &o1), &read_htoh), ("htoz|ztoh", outcome_of(c3, &o3), &read_pipe)];
    for (tag, outcome, reader) in readers {
        bump(
            &mut acc.hist,
            &format!(
                "{tag}:{}",
                match &outcome {
                    ImplRead::Ok(m) if m.len() == 0 => "ok-no-mappings",
                    ImplRead::Ok(_) => "ok-mappings",
                    _ => "error",
                }
            ),
            1,
        );
        if !agrees(&expect, &outcome) {
            for (clause, slug) in classify_read(text, &expect, &outcome, reader) {
                report(
                    acc,
                    format!("{tag}:{clause}"),
                    slug,
                    format!("{tag} gives {} but reference {}", show_impl(&outcome), show_expect(&expect)),
                );
            }
        }
    }
    acc.bin_spawns += spawns.get();
    Ok(())
}

// =====================================================================
// Entry points
// =====================================================================

fn merge_acc(total: &mut Acc, p: Acc) {
    total.evaluations += p.evaluations;
    total.tokens += p.tokens;
    total.lookups += p.lookups;
    total.conversions += p.conversions;
    total.bin_inputs += p.bin_inputs;
    total.bin_spawns += p.bin_spawns;
    total.seen.extend(p.seen);
    total.nontrivial_seen.extend(p.nontrivial_seen);
    for (k, v) in p.hist {
        *total.hist.entry(k).or_insert(0) += v;
    }
    for (k, v) in p.feat {
        *total.feat.entry(k).or_insert(0) += v;
    }
    total.keep.merge(p.keep);
    for s in p.samples {
        if total.samples.len() < 6 {
            total.samples.push(s);
        }
    }
}

pub fn run(ctx: &Ctx) -> i32 {
    let cap = ctx.tier.pick(40.0, 520.0);
    let fams = families(ctx.tier);
    let mut total = Acc::default();
    let mut report = Report::new();
    let mut exhaustive = true;
    let mut fam_counts = serde_json::Map::new();
    let mut skipped_total = 0u64;

    // self-test of the two repairs: they must not change the reference meaning
    for t in ["1.2.3.4 foo#c\n#\u{e9}\n", "1.2.3.4 foo #\u{e9}x\n"] {
        let a = ref_read(t).0;
        if ref_read(&repair_blank_before_hash(t)).0 != a || ref_read(&repair_blank_after_hash(t)).0 != a {
            eprintln!("C14: machinery error: a repair changes the reference meaning of {t:?}");
            return 2;
        }
    }

    for fam in &fams {
        if ctx.elapsed() > cap {
            exhaustive = false;
            report.extra.insert("cap_hit_before_family".into(), json!(fam.name));
            break;
        }
        let n = fam.count();
        let stop = std::sync::atomic::AtomicBool::new(false);
        let parts = par_fold(
            n,
            ctx.threads,
            ctx.seed,
            || (Acc::default(), 0u64),
            |st, i| {
                if stop.load(std::sync::atomic::Ordering::Relaxed) {
                    st.1 += 1;
                    return;
                }
                if i % 4096 == 0 && ctx.elapsed() > cap {
                    stop.store(true, std::sync::atomic::Ordering::Relaxed);
                }
                match fam.case(i) {
                    Some(c) => check_text(&mut st.0, &c.text, c.tokens),
                    None => st.1 += 1,
                }
            },
        );
        let before = total.evaluations;
        let mut skipped = 0u64;
        for (p, s) in parts {
            skipped += s;
            merge_acc(&mut total, p);
        }
        if stop.load(std::sync::atomic::Ordering::Relaxed) {
            exhaustive = false;
            report.extra.insert("cap_hit_in_family".into(), json!(fam.name));
        }
        skipped_total += skipped;
        fam_counts.insert(
            fam.name.to_string(),
            json!({"index_space": n, "texts_run": total.evaluations - before, "indices_without_a_text": skipped, "dims": fam.dims}),
        );
    }

    // binaries
    let t_inproc = ctx.elapsed();
    let corpus = binary_corpus(ctx.tier);
    let bins_present = ["htoh", "htoz", "ztoh"].iter().all(|b| bin_dir().join(b).is_file());
    if !bins_present {
        eprintln!(
            "C14: machinery error: htoh/htoz/ztoh not found in {} (run /verif/check C14, or set VERIF_REPO_BIN)",
            bin_dir().display()
        );
        return 2;
    }
    let machinery: std::sync::Mutex<Option<String>> = std::sync::Mutex::new(None);
    let stop = std::sync::atomic::AtomicBool::new(false);
    let parts = par_fold(corpus.len(), ctx.threads, ctx.seed, Acc::default, |acc, i| {
        if stop.load(std::sync::atomic::Ordering::Relaxed) {
            return;
        }
        if ctx.elapsed() > ctx.tier.pick(50.0, 500.0) {
            stop.store(true, std::sync::atomic::Ordering::Relaxed);
            return;
        }
        if let Err(e) = check_binaries(acc, &corpus[i]) {
            *machinery.lock().unwrap() = Some(e);
            stop.store(true, std::sync::atomic::Ordering::Relaxed);
        }
    });
    if let Some(e) = machinery.lock().unwrap().take() {
        eprintln!("C14: machinery error: {e}");
        return 2;
    }
    for p in parts {
        merge_acc(&mut total, p);
    }
    if stop.load(std::sync::atomic::Ordering::Relaxed) {
        exhaustive = false;
        report.extra.insert("cap_hit_in".into(), json!("binary corpus"));
    }

    // a few fixed samples so that the evidence shows what cases look like
    for t in ["1.2.3.4 foo bar # c\n", "FD00::ABCD Foo.BAR.\r\nfd00::abcd foo.bar\n", "fe80::1%eth0 foo\n1.2.3 \n"] {
        let (e, _) = ref_read(t);
        let (g, _) = impl_read(t);
        total.samples.push(json!({"text": t, "reference": show_expect(&e), "implementation": show_impl(&g)}));
    }

    report.evaluations = total.evaluations + total.bin_inputs;
    report.states = total.seen.len() as u64;
    report.transitions = total.tokens + total.lookups + total.bin_spawns;
    report.traces_validated = total.evaluations + total.bin_inputs;
    report.distinct_nontrivial = total.nontrivial_seen.len() as u64;
    report.rule = "texts are rendered from mixed-radix indices over the stated dimensions (families below) and every one is read by Hosts::deserialise and by the reference reader; a text is distinct by its bytes (FNV-64 set) and non-trivial when the reference reader sees at least one line that maps names (valid or erroneous) — texts that map nothing (blank, comment-only, address-only, interface-suffix lines only) are trivial; feature counts (override, comment, iface, error lines) are in `features`".into();
    report.samples = total.samples.drain(..).take(6).collect();
    report.bounds = json!({
        "families": fam_counts,
        "address_spellings": ADDRS,
        "name_pool": NAME_POOL,
        "comment_bodies": COMMENT_BODIES,
        "separators": SEPS.iter().map(|s| format!("{:?}/{:?}", s.0, s.1)).collect::<Vec<_>>(),
        "line_alphabet_for_files": line_alphabet(ctx.tier),
        "binary_corpus_inputs": corpus.len(),
        "indices_without_a_text(comment position beyond the last field)": skipped_total,
    });
    report.exhaustive = exhaustive;
    report.outcome_histogram = total.hist.clone();
    report.extra.insert("features".into(), json!(total.feat));
    report.extra.insert("conversions_checked".into(), json!(total.conversions));
    report.extra.insert("zone_lookups".into(), json!(total.lookups));
    report.extra.insert("wall_in_process_s".into(), json!(t_inproc));
    report.extra.insert("wall_binaries_s".into(), json!(ctx.elapsed() - t_inproc));
    report.extra.insert("binary_inputs".into(), json!(total.bin_inputs));
    report.extra.insert("binary_process_spawns".into(), json!(total.bin_spawns));
    report.extra.insert("violation_counts".into(), json!(total.keep.counts));
    report.assumptions = vec![
        "blanks are space and tab; lines end in LF or CR LF; other ASCII white space is not generated".into(),
        "a line whose only field is a malformed address is not judged (error and ignore both accepted)".into(),
        "an address field containing `%` is an interface-suffix address whatever precedes the `%`; only well-formed prefixes are generated".into(),
        "IPv4 octets with leading zeros, the name `.`, labels outside letters/digits/hyphen and `*` labels are not generated (hosts(5) and the statement leave them open)".into(),
        "name comparison is ASCII case-insensitive; the reference keeps names lower-cased".into(),
        "binaries htoh/htoz/ztoh are those built from /repo by /verif/check (or VERIF_REPO_BIN)".into(),
    ];
    report.violations = std::mem::take(&mut total.keep).into_violations();
    finish(ctx, report)
}

pub fn replay(ctx: &Ctx, v: &Value) -> i32 {
    let text = match v["text_hex"].as_str() {
        Some(h) => String::from_utf8_lossy(&unhex(h)).to_string(),
        None => v["text"].as_str().unwrap_or("").to_string(),
    };
    let mut acc = Acc::default();
    let (e, _) = ref_read(&text);
    let (g, _) = impl_read(&text);
    println!("text:           {:?}", text);
    println!("reference:      {}", show_expect(&e));
    println!("implementation: {}", show_impl(&g));
    check_text(&mut acc, &text, 0);
    if v["binaries"].as_bool().unwrap_or(false) {
        if let Err(e) = check_binaries(&mut acc, &text) {
            eprintln!("C14: machinery error: {e}");
            return 2;
        }
    }
    let counts = acc.keep.counts.clone();
    let vs = acc.keep.into_violations();
    for v in &vs {
        println!("clause {} {}: {}", v.clause, v.slug.map(|s| format!("[{s}]")).unwrap_or_default(), v.summary);
    }
    if counts.is_empty() {
        println!("replay: property holds on this case");
        0
    } else {
        println!("VIOLATION property={} replay=(replayed case)", ctx.id);
        1
    }
}

pub fn worker(_args: &[String]) -> i32 {
    2
}
