//! Independent RFC 1035 wire codec (reference).  The decoder is iterative
//! (no recursion on compression pointers) and is written from the RFC, not
//! from the implementation.  It produces the implementation's public
//! `Message` type so that values can be compared with `==`.

use bytes::Bytes;
use dns_types::protocol::types::*;
use std::collections::HashMap;
use std::net::{Ipv4Addr, Ipv6Addr};

#[derive(Debug, Clone, Copy, Eq, PartialEq)]
pub enum RefErrKind {
    NoId,
    HeaderShort,
    Truncated,
    LabelType,
    Pointer,
    NameTooLong,
    RdLength,
}

#[derive(Debug, Clone, Copy, Eq, PartialEq)]
pub struct RefErr {
    pub kind: RefErrKind,
    pub id: Option<u16>,
}

struct Rd<'a> {
    b: &'a [u8],
    pos: usize,
    /// work counter: octets examined incl. via pointers (termination evidence)
    steps: u64,
}

impl<'a> Rd<'a> {
    fn u8(&mut self) -> Result<u8, RefErrKind> {
        let v = *self.b.get(self.pos).ok_or(RefErrKind::Truncated)?;
        self.pos += 1;
        Ok(v)
    }
    fn u16(&mut self) -> Result<u16, RefErrKind> {
        let s = self
            .b
            .get(self.pos..self.pos + 2)
            .ok_or(RefErrKind::Truncated)?;
        self.pos += 2;
        Ok(u16::from_be_bytes([s[0], s[1]]))
    }
    fn u32(&mut self) -> Result<u32, RefErrKind> {
        let s = self
            .b
            .get(self.pos..self.pos + 4)
            .ok_or(RefErrKind::Truncated)?;
        self.pos += 4;
        Ok(u32::from_be_bytes([s[0], s[1], s[2], s[3]]))
    }
    fn take(&mut self, n: usize) -> Result<&'a [u8], RefErrKind> {
        let s = self
            .b
            .get(self.pos..self.pos + n)
            .ok_or(RefErrKind::Truncated)?;
        self.pos += n;
        Ok(s)
    }

    /// A (possibly compressed) domain name.  A pointer must address an offset
    /// strictly before the start of the name (or name fragment) it occurs in,
    /// i.e. a *prior* occurrence (RFC 1035 section 4.1.4).
    fn name(&mut self) -> Result<DomainName, RefErrKind> {
        let mut labels: Vec<Label> = Vec::new();
        let mut total: usize = 0;
        let mut cur = self.pos;
        let mut fragment_start = self.pos;
        let mut resume: Option<usize> = None;
        loop {
            self.steps += 1;
            let b = *self.b.get(cur).ok_or(RefErrKind::Truncated)?;
            match b {
                0 => {
                    total += 1;
                    labels.push(Label::new());
                    cur += 1;
                    break;
                }
                1..=63 => {
                    let n = b as usize;
                    let l = self
                        .b
                        .get(cur + 1..cur + 1 + n)
                        .ok_or(RefErrKind::Truncated)?;
                    total += 1 + n;
                    if total > 255 {
                        return Err(RefErrKind::NameTooLong);
                    }
                    labels.push(Label::try_from(l).map_err(|_| RefErrKind::LabelType)?);
                    cur += 1 + n;
                    self.steps += n as u64;
                }
                64..=191 => return Err(RefErrKind::LabelType),
                _ => {
                    let lo = *self.b.get(cur + 1).ok_or(RefErrKind::Truncated)?;
                    let target = (usize::from(b & 0x3f) << 8) | usize::from(lo);
                    if resume.is_none() {
                        resume = Some(cur + 2);
                    }
                    if target >= fragment_start {
                        return Err(RefErrKind::Pointer);
                    }
                    fragment_start = target;
                    cur = target;
                }
            }
        }
        if total > 255 {
            return Err(RefErrKind::NameTooLong);
        }
        self.pos = resume.unwrap_or(cur);
        Ok(DomainName {
            labels,
            len: total,
        })
    }
}

fn unknown_tag(value: u16) -> Option<RecordTypeUnknown> {
    match RecordType::from(value) {
        RecordType::Unknown(tag) => Some(tag),
        _ => None,
    }
}

fn rr(r: &mut Rd) -> Result<ResourceRecord, RefErrKind> {
    let name = r.name()?;
    let rtype = r.u16()?;
    let rclass = r.u16()?;
    let ttl = r.u32()?;
    let rdlength = r.u16()? as usize;
    let start = r.pos;
    let opaque = |r: &mut Rd| -> Result<Bytes, RefErrKind> {
        Ok(Bytes::copy_from_slice(r.take(rdlength)?))
    };
    let data = match rtype {
        1 => RecordTypeWithData::A {
            address: Ipv4Addr::from(r.u32()?),
        },
        2 => RecordTypeWithData::NS { nsdname: r.name()? },
        3 => RecordTypeWithData::MD { madname: r.name()? },
        4 => RecordTypeWithData::MF { madname: r.name()? },
        5 => RecordTypeWithData::CNAME { cname: r.name()? },
        6 => RecordTypeWithData::SOA {
            mname: r.name()?,
            rname: r.name()?,
            serial: r.u32()?,
            refresh: r.u32()?,
            retry: r.u32()?,
            expire: r.u32()?,
            minimum: r.u32()?,
        },
        7 => RecordTypeWithData::MB { madname: r.name()? },
        8 => RecordTypeWithData::MG { mdmname: r.name()? },
        9 => RecordTypeWithData::MR { newname: r.name()? },
        10 => RecordTypeWithData::NULL { octets: opaque(r)? },
        11 => RecordTypeWithData::WKS { octets: opaque(r)? },
        12 => RecordTypeWithData::PTR { ptrdname: r.name()? },
        13 => RecordTypeWithData::HINFO { octets: opaque(r)? },
        14 => RecordTypeWithData::MINFO {
            rmailbx: r.name()?,
            emailbx: r.name()?,
        },
        15 => RecordTypeWithData::MX {
            preference: r.u16()?,
            exchange: r.name()?,
        },
        16 => RecordTypeWithData::TXT { octets: opaque(r)? },
        28 => {
            let s = r.take(16)?;
            let mut o = [0u8; 16];
            o.copy_from_slice(s);
            RecordTypeWithData::AAAA {
                address: Ipv6Addr::from(o),
            }
        }
        33 => RecordTypeWithData::SRV {
            priority: r.u16()?,
            weight: r.u16()?,
            port: r.u16()?,
            target: r.name()?,
        },
        other => RecordTypeWithData::Unknown {
            tag: unknown_tag(other).expect("not a known type"),
            octets: opaque(r)?,
        },
    };
    if r.pos != start + rdlength {
        return Err(RefErrKind::RdLength);
    }
    Ok(ResourceRecord {
        name,
        rtype_with_data: data,
        rclass: RecordClass::from(rclass),
        ttl,
    })
}

/// Returns the message and the number of octets examined (work done).
pub fn decode_counting(bytes: &[u8]) -> (Result<Message, RefErr>, u64) {
    let id = if bytes.len() >= 2 {
        Some(u16::from_be_bytes([bytes[0], bytes[1]]))
    } else {
        None
    };
    let mut r = Rd {
        b: bytes,
        pos: 0,
        steps: 0,
    };
    let res = (|| -> Result<Message, RefErrKind> {
        if bytes.len() < 2 {
            return Err(RefErrKind::NoId);
        }
        if bytes.len() < 12 {
            return Err(RefErrKind::HeaderShort);
        }
        let id = r.u16()?;
        let f1 = r.u8()?;
        let f2 = r.u8()?;
        let header = Header {
            id,
            is_response: f1 & 0x80 != 0,
            opcode: Opcode::from((f1 >> 3) & 0x0f),
            is_authoritative: f1 & 0x04 != 0,
            is_truncated: f1 & 0x02 != 0,
            recursion_desired: f1 & 0x01 != 0,
            recursion_available: f2 & 0x80 != 0,
            rcode: Rcode::from(f2 & 0x0f),
        };
        let qd = r.u16()?;
        let an = r.u16()?;
        let ns = r.u16()?;
        let ar = r.u16()?;
        let mut questions = Vec::new();
        for _ in 0..qd {
            let name = r.name()?;
            let qtype = QueryType::from(r.u16()?);
            let qclass = QueryClass::from(r.u16()?);
            questions.push(Question {
                name,
                qtype,
                qclass,
            });
        }
        let mut sections: [Vec<ResourceRecord>; 3] = [Vec::new(), Vec::new(), Vec::new()];
        for (i, n) in [an, ns, ar].into_iter().enumerate() {
            for _ in 0..n {
                sections[i].push(rr(&mut r)?);
            }
        }
        let [answers, authority, additional] = sections;
        Ok(Message {
            header,
            questions,
            answers,
            authority,
            additional,
        })
    })();
    let steps = r.steps + r.pos as u64;
    (res.map_err(|kind| RefErr { kind, id }), steps)
}

pub fn decode(bytes: &[u8]) -> Result<Message, RefErr> {
    decode_counting(bytes).0
}

#[derive(Debug, Copy, Clone, Eq, PartialEq)]
pub enum Compress {
    /// Never emit pointers.
    None,
    /// Owner and question names point at an earlier identical *whole* name.
    WholeName,
    /// Any name (also inside RDATA) points at the longest earlier suffix.
    Suffix,
}

pub struct Enc {
    pub out: Vec<u8>,
    mode: Compress,
    /// suffix (as lowercase wire bytes) -> offset
    dict: HashMap<Vec<u8>, usize>,
}

fn wire_of(labels: &[Label]) -> Vec<u8> {
    let mut v = Vec::new();
    for l in labels {
        v.push(l.len());
        v.extend_from_slice(l.octets());
    }
    v
}

impl Enc {
    pub fn new(mode: Compress) -> Self {
        Enc {
            out: Vec::new(),
            mode,
            dict: HashMap::new(),
        }
    }
    pub fn u8(&mut self, v: u8) {
        self.out.push(v);
    }
    pub fn u16(&mut self, v: u16) {
        self.out.extend_from_slice(&v.to_be_bytes());
    }
    pub fn u32(&mut self, v: u32) {
        self.out.extend_from_slice(&v.to_be_bytes());
    }
    pub fn name(&mut self, n: &DomainName, in_rdata: bool) {
        let labels = &n.labels;
        match self.mode {
            Compress::None => {
                let w = wire_of(labels);
                self.out.extend_from_slice(&w);
            }
            Compress::WholeName => {
                let w = wire_of(labels);
                if !in_rdata && labels.len() > 1 {
                    if let Some(&off) = self.dict.get(&w) {
                        self.u16(0xC000 | off as u16);
                        return;
                    }
                }
                if labels.len() > 1 && self.out.len() < 0x4000 {
                    self.dict.entry(w.clone()).or_insert(self.out.len());
                }
                self.out.extend_from_slice(&w);
            }
            Compress::Suffix => {
                for i in 0..labels.len() {
                    let rest = &labels[i..];
                    if rest.len() == 1 {
                        self.u8(0);
                        return;
                    }
                    let w = wire_of(rest);
                    if let Some(&off) = self.dict.get(&w) {
                        self.u16(0xC000 | off as u16);
                        return;
                    }
                    if self.out.len() < 0x4000 {
                        self.dict.insert(w, self.out.len());
                    }
                    self.u8(rest[0].len());
                    self.out.extend_from_slice(rest[0].octets());
                }
            }
        }
    }
    pub fn rdata(&mut self, d: &RecordTypeWithData) {
        match d {
            RecordTypeWithData::A { address } => self.out.extend_from_slice(&address.octets()),
            RecordTypeWithData::AAAA { address } => self.out.extend_from_slice(&address.octets()),
            RecordTypeWithData::NS { nsdname } => self.name(nsdname, true),
            RecordTypeWithData::MD { madname } => self.name(madname, true),
            RecordTypeWithData::MF { madname } => self.name(madname, true),
            RecordTypeWithData::CNAME { cname } => self.name(cname, true),
            RecordTypeWithData::MB { madname } => self.name(madname, true),
            RecordTypeWithData::MG { mdmname } => self.name(mdmname, true),
            RecordTypeWithData::MR { newname } => self.name(newname, true),
            RecordTypeWithData::PTR { ptrdname } => self.name(ptrdname, true),
            RecordTypeWithData::SOA {
                mname,
                rname,
                serial,
                refresh,
                retry,
                expire,
                minimum,
            } => {
                self.name(mname, true);
                self.name(rname, true);
                self.u32(*serial);
                self.u32(*refresh);
                self.u32(*retry);
                self.u32(*expire);
                self.u32(*minimum);
            }
            RecordTypeWithData::MINFO { rmailbx, emailbx } => {
                self.name(rmailbx, true);
                self.name(emailbx, true);
            }
            RecordTypeWithData::MX {
                preference,
                exchange,
            } => {
                self.u16(*preference);
                self.name(exchange, true);
            }
            RecordTypeWithData::SRV {
                priority,
                weight,
                port,
                target,
            } => {
                self.u16(*priority);
                self.u16(*weight);
                self.u16(*port);
                self.name(target, true);
            }
            RecordTypeWithData::NULL { octets }
            | RecordTypeWithData::WKS { octets }
            | RecordTypeWithData::HINFO { octets }
            | RecordTypeWithData::TXT { octets }
            | RecordTypeWithData::Unknown { octets, .. } => self.out.extend_from_slice(octets),
        }
    }
    pub fn rr(&mut self, r: &ResourceRecord) {
        self.name(&r.name, false);
        self.u16(r.rtype_with_data.rtype().into());
        self.u16(r.rclass.into());
        self.u32(r.ttl);
        let at = self.out.len();
        self.u16(0);
        self.rdata(&r.rtype_with_data);
        let len = self.out.len() - at - 2;
        self.out[at] = (len >> 8) as u8;
        self.out[at + 1] = (len & 0xff) as u8;
    }
    pub fn header(&mut self, h: &Header, counts: [u16; 4]) {
        self.u16(h.id);
        let mut f1 = 0u8;
        if h.is_response {
            f1 |= 0x80;
        }
        f1 |= (u8::from(h.opcode) & 0x0f) << 3;
        if h.is_authoritative {
            f1 |= 0x04;
        }
        if h.is_truncated {
            f1 |= 0x02;
        }
        if h.recursion_desired {
            f1 |= 0x01;
        }
        let mut f2 = 0u8;
        if h.recursion_available {
            f2 |= 0x80;
        }
        f2 |= u8::from(h.rcode) & 0x0f;
        self.u8(f1);
        self.u8(f2);
        for c in counts {
            self.u16(c);
        }
    }
    pub fn message(&mut self, m: &Message) {
        self.header(
            &m.header,
            [
                m.questions.len() as u16,
                m.answers.len() as u16,
                m.authority.len() as u16,
                m.additional.len() as u16,
            ],
        );
        for q in &m.questions {
            self.name(&q.name, false);
            self.u16(q.qtype.into());
            self.u16(q.qclass.into());
        }
        for r in m.answers.iter().chain(&m.authority).chain(&m.additional) {
            self.rr(r);
        }
    }
}

pub fn encode(m: &Message, mode: Compress) -> Vec<u8> {
    let mut e = Enc::new(mode);
    e.message(m);
    e.out
}

/// `[type u16][rdata, uncompressed]` — used in replay files.
pub fn encode_rdata_with_type(d: &RecordTypeWithData) -> Vec<u8> {
    let mut e = Enc::new(Compress::None);
    e.u16(d.rtype().into());
    e.rdata(d);
    e.out
}

pub fn decode_rdata_with_type(b: &[u8]) -> Option<RecordTypeWithData> {
    if b.len() < 2 {
        return None;
    }
    // wrap into a one-record message and use the reference decoder
    let mut m = vec![0u8, 0, 0, 0, 0, 0, 0, 1, 0, 0, 0, 0];
    m.push(0); // root owner
    m.extend_from_slice(&b[0..2]);
    m.extend_from_slice(&[0, 1, 0, 0, 0, 0]);
    let rd = &b[2..];
    m.extend_from_slice(&(rd.len() as u16).to_be_bytes());
    m.extend_from_slice(rd);
    decode(&m)
        .ok()
        .and_then(|m| m.answers.into_iter().next())
        .map(|r| r.rtype_with_data)
}

/// Records that are completely contained in `bytes` (header, questions, then
/// as many whole records as parse), ignoring the header counts' promise of
/// more.  Used to decide what a (possibly mangled) reply "supplied".
pub fn decode_prefix_records(bytes: &[u8]) -> Vec<ResourceRecord> {
    let mut out = Vec::new();
    if bytes.len() < 12 {
        return out;
    }
    let mut r = Rd {
        b: bytes,
        pos: 4,
        steps: 0,
    };
    let qd = match r.u16() {
        Ok(v) => v,
        Err(_) => return out,
    };
    let total: u32 = (0..3).map(|_| u32::from(r.u16().unwrap_or(0))).sum();
    for _ in 0..qd {
        if r.name().is_err() || r.u16().is_err() || r.u16().is_err() {
            return out;
        }
    }
    for _ in 0..total {
        match rr(&mut r) {
            Ok(x) => out.push(x),
            Err(_) => break,
        }
    }
    out
}
