//! C03 — the wire decoder is crash-free, bounded and accepts exactly the
//! well-formed messages.
//!
//! Every input of three stated spaces is decoded by the real
//! `Message::from_octets` **in a child process** (`vcheck worker C03 serve`) on a
//! thread with a 2 MiB stack and compared there with the independent iterative
//! decoder of `refwire`.  The parent only hands out *job descriptors*
//! (space + item range); the child regenerates the inputs from the same
//! deterministic generator (`for_each_input`).  A child that dies or does not
//! answer within the per-job time limit is a violation; the job is bisected
//! (first over items, then over the materialised inputs of one item) down to
//! the single input, which becomes the replay file.
//!
//! Spaces (see DESIGN section 6, C03):
//!  * `short`    every byte string of length 0..2 (65 793 strings);
//!  * `tails`    a 12-byte header for each count vector in a stated list,
//!               followed by every tail of length 0..K over the 12-byte alphabet
//!               `ALPHA12` (K = 6 quick / 7 thorough);
//!  * `singles`, `pairs`, `triples`: token grammar (name shapes x types x class
//!               x ttl); every base message plus every single deviation
//!               (in-place patch from the deviation alphabet, truncation at every
//!               byte); thorough: every pair of deviations on singles and pairs;
//!  * `subst`    every single-byte substitution (position x 255 values) on a
//!               200-message sub-corpus;
//!  * `extremes` pointer ladders of every depth, names of every total length
//!               250..260 built three ways, counts of 65 535 without payload,
//!               65 535-byte messages.
//!
//! The generator is public because C04 (re-encoding of everything that decodes)
//! and C16 (names that come off the wire) walk the same corpus.

use crate::common::*;
use crate::refwire;
use dns_types::protocol::types::*;
use serde_json::{json, Value};
use std::collections::BTreeMap;
use std::io::{BufRead, BufReader, Read, Write};
use std::process::{Child, ChildStdin, Command, Stdio};
use std::sync::atomic::{AtomicBool, AtomicUsize, Ordering};
use std::sync::mpsc::{channel, Receiver, RecvTimeoutError};
use std::sync::Mutex;
use std::time::{Duration, Instant};

// ---------------------------------------------------------------------------------------------
// the corpus
// ---------------------------------------------------------------------------------------------

pub const ALPHA12: [u8; 12] = [
    0x00, 0x01, 0x02, 0x05, 0x0c, 0x3f, 0x40, 0x61, 0x80, 0xbf, 0xc0, 0xff,
];

#[derive(Debug, Copy, Clone, Eq, PartialEq)]
pub enum Space {
    Short,
    Tails,
    Singles,
    Pairs,
    Triples,
    Subst,
    Extremes,
}

pub const ALL_SPACES: [Space; 7] = [
    Space::Short,
    Space::Tails,
    Space::Singles,
    Space::Pairs,
    Space::Triples,
    Space::Subst,
    Space::Extremes,
];

/// Order in which the spaces are worked through (so that a wall-clock cap
/// cuts the bulk spaces, not the adversarial constructions).
pub const SCHEDULE: [Space; 7] = [
    Space::Extremes,
    Space::Subst,
    Space::Short,
    Space::Singles,
    Space::Pairs,
    Space::Tails,
    Space::Triples,
];

impl Space {
    pub fn code(self) -> &'static str {
        match self {
            Space::Short => "short",
            Space::Tails => "tails",
            Space::Singles => "singles",
            Space::Pairs => "pairs",
            Space::Triples => "triples",
            Space::Subst => "subst",
            Space::Extremes => "extremes",
        }
    }
    pub fn parse(s: &str) -> Option<Space> {
        ALL_SPACES.iter().copied().find(|x| x.code() == s)
    }
}

/// How an input was derived (for the outcome histogram and for the distinct
/// count: `Base`, `Patch` and `Extreme` inputs are hashed and de-duplicated,
/// `Plain` inputs are distinct by construction, the others are only counted).
#[derive(Debug, Copy, Clone, Eq, PartialEq)]
pub enum Class {
    Plain,
    Base,
    Patch,
    Trunc,
    Pair,
    Subst,
    Extreme,
}

const CLASSES: [Class; 7] = [
    Class::Plain,
    Class::Base,
    Class::Patch,
    Class::Trunc,
    Class::Pair,
    Class::Subst,
    Class::Extreme,
];

impl Class {
    fn idx(self) -> usize {
        CLASSES.iter().position(|c| *c == self).unwrap_or(0)
    }
    fn name(self) -> &'static str {
        match self {
            Class::Plain => "plain",
            Class::Base => "base",
            Class::Patch => "deviation1",
            Class::Trunc => "truncation",
            Class::Pair => "deviation2",
            Class::Subst => "substitution",
            Class::Extreme => "extreme",
        }
    }
    fn hashed(self) -> bool {
        matches!(self, Class::Base | Class::Patch | Class::Extreme)
    }
}

// ---- tails ----------------------------------------------------------------

const TAIL_VECTORS_QUICK: [[u8; 4]; 4] = [[1, 0, 0, 0], [0, 1, 0, 0], [1, 1, 0, 0], [1, 0, 0, 1]];

fn tail_vectors(tier: Tier) -> Vec<[u8; 4]> {
    match tier {
        Tier::Quick => TAIL_VECTORS_QUICK.to_vec(),
        Tier::Thorough => (0..16u8)
            .map(|m| [m & 1, (m >> 1) & 1, (m >> 2) & 1, (m >> 3) & 1])
            .collect(),
    }
}

fn tail_maxlen(tier: Tier) -> usize {
    tier.pick(6, 7)
}

fn tails_per_vector(k: usize) -> u64 {
    let mut n = 0u64;
    let mut p = 1u64;
    for _ in 0..=k {
        n += p;
        p *= 12;
    }
    n
}

/// The fixed header of the `tails` space: the ID octets 01 61 form the label
/// `a` when a pointer targets offset 0, offset 1 is a reserved label type,
/// offset 2 (flags, zero) is a root label.
fn tail_header(v: [u8; 4]) -> [u8; 12] {
    [0x01, 0x61, 0, 0, 0, v[0], 0, v[1], 0, v[2], 0, v[3]]
}

fn tail_input(tier: Tier, item: u64, buf: &mut Vec<u8>) {
    let per = tails_per_vector(tail_maxlen(tier));
    let vectors = tail_vectors(tier);
    let v = vectors[(item / per) as usize];
    let mut r = item % per;
    let mut len = 0usize;
    let mut block = 1u64;
    while r >= block {
        r -= block;
        block *= 12;
        len += 1;
    }
    buf.clear();
    buf.extend_from_slice(&tail_header(v));
    let at = buf.len();
    buf.resize(at + len, 0);
    for i in (0..len).rev() {
        buf[at + i] = ALPHA12[(r % 12) as usize];
        r /= 12;
    }
}

// ---- token grammar ----------------------------------------------------------

#[derive(Debug, Copy, Clone, Eq, PartialEq)]
pub enum Shape {
    Root,
    A,
    AB,
    L63,
    N255,
    Ptr,
    LabelPtr,
    PtrPtr,
}

pub const SHAPES: [Shape; 8] = [
    Shape::Root,
    Shape::A,
    Shape::AB,
    Shape::L63,
    Shape::N255,
    Shape::Ptr,
    Shape::LabelPtr,
    Shape::PtrPtr,
];

/// all 18 known types, then the unknown types 0, 252, 65535
pub const TYPE_CODES: [u16; 21] = [
    1, 2, 3, 4, 5, 6, 7, 8, 9, 10, 11, 12, 13, 14, 15, 16, 28, 33, 0, 252, 65535,
];
const CLASS_CODES: [u16; 3] = [1, 0, 255];
const TTLS: [u32; 2] = [0, u32::MAX];
const QTYPES: [u16; 5] = [1, 255, 252, 0, 65535];

fn n_rvar(code: u16) -> usize {
    match code {
        1 | 28 => 1,
        2 | 3 | 4 | 5 | 6 | 7 | 8 | 9 | 12 | 14 | 15 | 33 => 8,
        _ => 3,
    }
}

/// An in-place rewrite of one or two octets.
#[derive(Debug, Copy, Clone)]
pub struct Patch {
    pub off: u32,
    pub len: u8,
    pub b: [u8; 2],
}

pub struct Built {
    pub bytes: Vec<u8>,
    pub patches: Vec<Patch>,
    /// truncations (where a space takes them) start at this length; 0 in the
    /// spaces that currently take truncations
    pub trunc_from: usize,
}

struct Builder {
    out: Vec<u8>,
    /// starts of earlier names that begin with a label
    plain: Vec<usize>,
    /// offsets at which a two-octet pointer sits
    ptrs: Vec<usize>,
    prev_rdata: Option<usize>,
    patches: Vec<Patch>,
    trunc_from: usize,
}

impl Builder {
    fn new() -> Self {
        Builder {
            out: Vec::with_capacity(640),
            plain: Vec::new(),
            ptrs: Vec::new(),
            prev_rdata: None,
            patches: Vec::new(),
            trunc_from: 0,
        }
    }
    fn u16(&mut self, v: u16) {
        self.out.extend_from_slice(&v.to_be_bytes());
    }
    fn u32(&mut self, v: u32) {
        self.out.extend_from_slice(&v.to_be_bytes());
    }
    fn p1(&mut self, off: usize, v: u8) {
        if self.out[off] != v {
            self.patches.push(Patch {
                off: off as u32,
                len: 1,
                b: [v, 0],
            });
        }
    }
    fn p2(&mut self, off: usize, v: u16) {
        let b = v.to_be_bytes();
        if self.out[off] != b[0] || self.out[off + 1] != b[1] {
            self.patches.push(Patch {
                off: off as u32,
                len: 2,
                b,
            });
        }
    }
    fn header(&mut self, counts: [u16; 4]) {
        self.u16(0x1234);
        self.u16(0); // flags: offset 2 is a zero octet = a root label for pointers into the header
        for (i, c) in counts.iter().enumerate() {
            let off = 4 + 2 * i;
            self.u16(*c);
            // each count +1 / -1 / 65535
            self.p2(off, c.wrapping_add(1));
            if *c > 0 {
                self.p2(off, c - 1);
            }
            self.p2(off, 65535);
        }
    }
    fn label(&mut self, octets: &[u8]) {
        let off = self.out.len();
        self.out.push(octets.len() as u8);
        self.out.extend_from_slice(octets);
        // label length 64 / 0x80 / 0xBF
        self.p1(off, 64);
        self.p1(off, 0x80);
        self.p1(off, 0xbf);
    }
    fn pointer(&mut self, target: usize, name_start: usize) {
        let off = self.out.len();
        self.u16(0xC000 | target as u16);
        self.ptrs.push(off);
        // to self, forward, into the header, into its own name, into the previous RDATA
        self.p2(off, 0xC000 | off as u16);
        self.p2(off, 0xC000 | (off + 2) as u16);
        self.p2(off, 0xC000);
        self.p2(off, 0xC000 | 11);
        if name_start != off {
            self.p2(off, 0xC000 | name_start as u16);
            self.p2(off, 0xC000 | (name_start + 1) as u16);
        }
        if let Some(r) = self.prev_rdata {
            self.p2(off, 0xC000 | r as u16);
        }
    }
    /// false: the shape cannot be realised here (no earlier pointer to point at)
    fn name(&mut self, s: Shape) -> bool {
        let start = self.out.len();
        match s {
            Shape::Root => self.out.push(0),
            Shape::A => {
                self.label(b"A");
                self.out.push(0);
                self.plain.push(start);
            }
            Shape::AB => {
                self.label(b"a");
                self.label(b"B");
                self.out.push(0);
                self.plain.push(start);
            }
            Shape::L63 => {
                self.label(&[b'x'; 63]);
                self.out.push(0);
                self.plain.push(start);
            }
            Shape::N255 => {
                self.label(&[b'p'; 63]);
                self.label(&[b'Q'; 63]);
                self.label(&[b'r'; 63]);
                self.label(&[b's'; 61]);
                self.out.push(0);
                self.plain.push(start);
            }
            Shape::Ptr => {
                // the latest earlier name that starts with a label; without one,
                // the zero flags octet in the header (= root)
                let t = self.plain.last().copied().unwrap_or(2);
                self.pointer(t, start);
            }
            Shape::LabelPtr => {
                let t = self.plain.last().copied().unwrap_or(2);
                self.label(b"c");
                self.pointer(t, start);
                self.plain.push(start);
            }
            Shape::PtrPtr => match self.ptrs.last().copied() {
                Some(t) => self.pointer(t, start),
                None => return false,
            },
        }
        true
    }
    fn question(&mut self, s: Shape, qtype: u16, qclass: u16) -> bool {
        if !self.name(s) {
            return false;
        }
        self.u16(qtype);
        self.u16(qclass);
        true
    }
    fn rr(&mut self, owner: Shape, code: u16, rvar: usize, class: u16, ttl: u32) -> bool {
        if rvar >= n_rvar(code) {
            return false;
        }
        if !self.name(owner) {
            return false;
        }
        self.u16(code);
        self.u16(class);
        self.u32(ttl);
        let at = self.out.len();
        self.u16(0);
        let start = self.out.len();
        let ok = match code {
            1 => {
                self.out.extend_from_slice(&[192, 0, 2, 1]);
                true
            }
            28 => {
                self.out.extend_from_slice(&[0x20, 1, 0xd, 0xb8, 0, 0, 0, 0, 0, 0, 0, 0, 0, 0, 0, 9]);
                true
            }
            2 | 3 | 4 | 5 | 7 | 8 | 9 | 12 => self.name(SHAPES[rvar]),
            6 => {
                let ok = self.name(SHAPES[rvar]) && self.name(Shape::AB);
                for v in [1u32, 2, 3, 4, u32::MAX] {
                    self.u32(v);
                }
                ok
            }
            14 => self.name(SHAPES[rvar]) && self.name(Shape::A),
            15 => {
                self.u16(10);
                self.name(SHAPES[rvar])
            }
            33 => {
                self.u16(1);
                self.u16(2);
                self.u16(65535);
                self.name(SHAPES[rvar])
            }
            _ => {
                match rvar {
                    0 => {}
                    1 => self.out.push(7),
                    _ => self.out.extend_from_slice(&[0xC0, 0x0C, 0x00, 0x3f, 0xff]),
                }
                true
            }
        };
        if !ok {
            return false;
        }
        let len = (self.out.len() - start) as u16;
        self.out[at..at + 2].copy_from_slice(&len.to_be_bytes());
        // RDLENGTH +1 / -1 / 0 / 65535
        self.p2(at, len + 1);
        if len > 0 {
            self.p2(at, len - 1);
        }
        self.p2(at, 0);
        self.p2(at, 65535);
        self.prev_rdata = Some(start);
        true
    }
    fn finish(self) -> Built {
        Built {
            bytes: self.out,
            patches: self.patches,
            trunc_from: self.trunc_from,
        }
    }
}

const N_SINGLES: u64 = 9 * 8 * 21 * 8 * 3 * 2;

fn single_index(q: usize, owner: usize, t: usize, rvar: usize, class: usize, ttl: usize) -> u64 {
    (((((q * 8 + owner) * 21 + t) * 8 + rvar) * 3 + class) * 2 + ttl) as u64
}

pub fn build_single(mut idx: u64) -> Option<Built> {
    let ttl = (idx % 2) as usize;
    idx /= 2;
    let class = (idx % 3) as usize;
    idx /= 3;
    let rvar = (idx % 8) as usize;
    idx /= 8;
    let t = (idx % 21) as usize;
    idx /= 21;
    let owner = (idx % 8) as usize;
    idx /= 8;
    let q = idx as usize;
    if q >= 9 {
        return None;
    }
    let code = TYPE_CODES[t];
    if rvar >= n_rvar(code) {
        return None;
    }
    let section = (t + owner + q) % 3;
    let mut counts = [u16::from(q > 0), 0, 0, 0];
    counts[1 + section] = 1;
    let mut b = Builder::new();
    b.header(counts);
    if q > 0 && !b.question(SHAPES[q - 1], QTYPES[(owner + t) % 5], CLASS_CODES[t % 3]) {
        return None;
    }
    if !b.rr(SHAPES[owner], code, rvar, CLASS_CODES[class], TTLS[ttl]) {
        return None;
    }
    Some(b.finish())
}

const SPLITS2: [[u16; 3]; 6] = [
    [2, 0, 0],
    [1, 1, 0],
    [1, 0, 1],
    [0, 2, 0],
    [0, 1, 1],
    [0, 0, 2],
];

fn n_pairs(tier: Tier) -> u64 {
    2 * 168 * 168 * tier.pick(1, 6)
}

pub fn build_pair(tier: Tier, mut idx: u64) -> Option<Built> {
    let split = match tier {
        Tier::Quick => (idx % 6) as usize,
        Tier::Thorough => {
            let s = (idx % 6) as usize;
            idx /= 6;
            s
        }
    };
    let r2 = (idx % 168) as usize;
    idx /= 168;
    let r1 = (idx % 168) as usize;
    idx /= 168;
    let q = idx as usize;
    if q >= 2 {
        return None;
    }
    let (o1, t1) = (r1 / 21, r1 % 21);
    let (o2, t2) = (r2 / 21, r2 % 21);
    let c1 = TYPE_CODES[t1];
    let c2 = TYPE_CODES[t2];
    let v1 = (o2 + t2) % n_rvar(c1);
    let v2 = (o1 + t1) % n_rvar(c2);
    let s = SPLITS2[split];
    let mut b = Builder::new();
    b.header([q as u16, s[0], s[1], s[2]]);
    if q > 0 && !b.question(Shape::AB, 1, 1) {
        return None;
    }
    if !b.rr(SHAPES[o1], c1, v1, 1, 0) {
        return None;
    }
    if !b.rr(SHAPES[o2], c2, v2, 1, u32::MAX) {
        return None;
    }
    Some(b.finish())
}

const SPLITS3: [[u16; 3]; 10] = [
    [3, 0, 0],
    [2, 1, 0],
    [2, 0, 1],
    [1, 2, 0],
    [1, 1, 1],
    [1, 0, 2],
    [0, 3, 0],
    [0, 2, 1],
    [0, 1, 2],
    [0, 0, 3],
];

fn n_triples(tier: Tier) -> u64 {
    tier.pick(0, 168 * 168 * 168)
}

pub fn build_triple(idx0: u64) -> Option<Built> {
    let mut idx = idx0;
    let r3 = (idx % 168) as usize;
    idx /= 168;
    let r2 = (idx % 168) as usize;
    idx /= 168;
    let r1 = (idx % 168) as usize;
    let rs = [r1, r2, r3];
    let s = SPLITS3[(idx0 % 10) as usize];
    let mut b = Builder::new();
    b.header([2, s[0], s[1], s[2]]);
    if !b.question(Shape::AB, 1, 1) || !b.question(Shape::Ptr, 255, 255) {
        return None;
    }
    for i in 0..3 {
        if i == 2 {
            b.trunc_from = b.out.len();
        }
        let (o, t) = (rs[i] / 21, rs[i] % 21);
        let others = rs[(i + 1) % 3] + rs[(i + 2) % 3];
        let code = TYPE_CODES[t];
        if !b.rr(SHAPES[o], code, others % n_rvar(code), 1, TTLS[i % 2]) {
            return None;
        }
    }
    Some(b.finish())
}

const N_SUBST: u64 = 200;

/// The substitution sub-corpus: one message per (type, owner shape) with a
/// question in front, plus 32 two-record messages.
pub fn build_subst(tier: Tier, k: u64) -> Option<Built> {
    if k < 168 {
        let owner = (k % 8) as usize;
        let t = (k / 8) as usize;
        let q = if owner == 7 { 6 } else { 3 };
        let rvar = ((k * 5 + 1) as usize) % n_rvar(TYPE_CODES[t]);
        build_single(single_index(q, owner, t, rvar, 0, (k % 2) as usize))
    } else {
        let j = k - 168;
        // spread over the pair space, question present
        let n = 168 * 168;
        let base = (j * 881 + 17) % n;
        let idx = n + base; // q = 1
        match tier {
            Tier::Quick => build_pair(tier, idx),
            Tier::Thorough => build_pair(tier, idx * 6 + (j % 6)),
        }
    }
}

fn apply(buf: &mut [u8], p: &Patch) {
    let o = p.off as usize;
    buf[o] = p.b[0];
    if p.len == 2 {
        buf[o + 1] = p.b[1];
    }
}

fn restore(buf: &mut [u8], orig: &[u8], p: &Patch) {
    let o = p.off as usize;
    buf[o] = orig[o];
    if p.len == 2 {
        buf[o + 1] = orig[o + 1];
    }
}

fn emit_with_deviations(built: &Built, two: bool, trunc: bool, f: &mut dyn FnMut(&[u8], Class)) {
    let base = &built.bytes;
    f(base, Class::Base);
    let mut buf = base.clone();
    for p in &built.patches {
        apply(&mut buf, p);
        f(&buf, Class::Patch);
        restore(&mut buf, base, p);
    }
    if trunc {
        for l in built.trunc_from..base.len() {
            f(&base[..l], Class::Trunc);
        }
    }
    if two {
        let n = built.patches.len();
        for i in 0..n {
            let pi = built.patches[i];
            apply(&mut buf, &pi);
            for j in i + 1..n {
                let pj = built.patches[j];
                if pj.off == pi.off {
                    continue;
                }
                apply(&mut buf, &pj);
                f(&buf, Class::Pair);
                restore(&mut buf, base, &pj);
            }
            // a patch followed by a truncation behind it
            if trunc {
                for l in (pi.off as usize + 1)..base.len() {
                    f(&buf[..l], Class::Pair);
                }
            }
            restore(&mut buf, base, &pi);
        }
    }
}

// ---- size extremes ----------------------------------------------------------

#[derive(Debug, Copy, Clone)]
pub enum Extreme {
    /// kind 0: plain ladder ending in a root label (accepted); 1: every rung
    /// carries a label (accepted up to 127 rungs); 2: plain ladder whose bottom
    /// is a pointer to itself (rejected at the deepest level)
    Ladder { depth: u32, kind: u8 },
    /// a name of `total` octets: way 0 labels only, 1 labels + pointer,
    /// 2 pointer chain in which every fragment carries labels
    NameLen { total: u16, way: u8 },
    /// 0..3: that count is 65535, 4: all four; `payload`: one root question follows
    Counts { which: u8, payload: bool },
    /// 65535-byte message with one maximal RDATA: 0 fits exactly, 1 RDLENGTH one
    /// more than present, 2 type A with that RDLENGTH, 3 CNAME with that RDLENGTH
    MaxRdata { variant: u8 },
    /// 65535 octets of a fixed pattern
    Fill { pattern: u8, header: bool },
    MaxRecords,
    MaxQuestions,
    /// deepest ladder + as many records as fit whose owner points at its top
    Quadratic,
}

/// rdata offset of the first record in the ladder layouts
const LADDER_RDATA: usize = 12 + 1 + 10;

pub fn max_ladder_depth(kind: u8) -> u32 {
    // the last rung must start at an offset a pointer can address (< 16384)
    if kind == 1 {
        // rungs of 4 octets starting at LADDER_RDATA + 1
        ((16383 - (LADDER_RDATA + 1)) / 4 + 1) as u32 + 1
    } else {
        ((16383 - (LADDER_RDATA + 1)) / 2 + 1) as u32 + 1
    }
}

fn ladder(depth: u32, kind: u8, followers: usize) -> Vec<u8> {
    // rungs = depth - 1 pointers stored in the RDATA of a NULL record; the owner
    // of the following record is the top pointer (hop number `depth`).
    let rungs = depth.saturating_sub(1) as usize;
    let mut rdata: Vec<u8> = Vec::with_capacity(2 + rungs * 4);
    let bottom = LADDER_RDATA;
    if kind == 2 {
        rdata.extend_from_slice(&(0xC000u16 | bottom as u16).to_be_bytes());
    } else {
        rdata.push(0);
    }
    let mut prev = bottom;
    for _ in 0..rungs {
        let here = LADDER_RDATA + rdata.len();
        if kind == 1 {
            rdata.push(1);
            rdata.push(b'a');
        }
        rdata.extend_from_slice(&(0xC000u16 | prev as u16).to_be_bytes());
        prev = here;
    }
    let mut m = Vec::with_capacity(64 + rdata.len() + followers * 12);
    m.extend_from_slice(&[0x4c, 0x44, 0, 0, 0, 0]);
    m.extend_from_slice(&((1 + followers.max(1)) as u16).to_be_bytes());
    m.extend_from_slice(&[0, 0, 0, 0]);
    m.push(0);
    m.extend_from_slice(&[0, 10, 0, 1, 0, 0, 0, 0]);
    m.extend_from_slice(&(rdata.len() as u16).to_be_bytes());
    debug_assert_eq!(m.len(), LADDER_RDATA);
    m.extend_from_slice(&rdata);
    if followers == 0 {
        m.extend_from_slice(&(0xC000u16 | prev as u16).to_be_bytes());
        m.extend_from_slice(&[0, 1, 0, 1, 0, 0, 0, 0, 0, 4, 192, 0, 2, 1]);
    } else {
        for _ in 0..followers {
            m.extend_from_slice(&(0xC000u16 | prev as u16).to_be_bytes());
            m.extend_from_slice(&[0, 10, 0, 1, 0, 0, 0, 0, 0, 0]);
        }
    }
    m
}

/// non-root labels whose encoding takes exactly `n` octets (n >= 2)
fn labels_taking(n: usize, fill: u8) -> Vec<u8> {
    let mut out = Vec::with_capacity(n);
    let mut rem = n;
    while rem > 0 {
        let take = if rem > 64 && rem != 65 {
            64
        } else if rem == 65 {
            63
        } else {
            rem
        };
        out.push((take - 1) as u8);
        out.extend(std::iter::repeat(fill).take(take - 1));
        rem -= take;
    }
    out
}

fn name_len_message(total: u16, way: u8) -> Vec<u8> {
    let t = total as usize;
    let mut m = vec![0x4e, 0x4c, 0, 0];
    let q: u16 = match way {
        0 => 1,
        1 => 2,
        _ => 3,
    };
    m.extend_from_slice(&q.to_be_bytes());
    m.extend_from_slice(&[0, 0, 0, 0, 0, 0]);
    let tail = [0u8, 1, 0, 1];
    match way {
        0 => {
            m.extend_from_slice(&labels_taking(t - 1, b'k'));
            m.push(0);
            m.extend_from_slice(&tail);
        }
        1 => {
            // first question: 200 octets; second: (t - 200) octets of labels + pointer
            m.extend_from_slice(&labels_taking(199, b'm'));
            m.push(0);
            m.extend_from_slice(&tail);
            m.extend_from_slice(&labels_taking(t - 200, b'N'));
            m.extend_from_slice(&[0xC0, 12]);
            m.extend_from_slice(&tail);
        }
        _ => {
            m.extend_from_slice(&labels_taking(99, b'u'));
            m.push(0);
            m.extend_from_slice(&tail);
            let second = m.len();
            m.extend_from_slice(&labels_taking(100, b'v'));
            m.extend_from_slice(&[0xC0, 12]);
            m.extend_from_slice(&tail);
            m.extend_from_slice(&labels_taking(t - 200, b'W'));
            m.extend_from_slice(&(0xC000u16 | second as u16).to_be_bytes());
            m.extend_from_slice(&tail);
        }
    }
    m
}

pub fn extreme_items(tier: Tier) -> Vec<Extreme> {
    let mut v = Vec::new();
    for kind in 0..3u8 {
        let max = max_ladder_depth(kind);
        match tier {
            Tier::Quick => {
                for d in 1..=64 {
                    v.push(Extreme::Ladder { depth: d, kind });
                }
                if kind == 1 {
                    for d in [126, 127, 128, 129] {
                        v.push(Extreme::Ladder { depth: d, kind });
                    }
                }
                for d in [max / 2, max - 1, max] {
                    v.push(Extreme::Ladder { depth: d, kind });
                }
            }
            Tier::Thorough => {
                for d in 1..=max {
                    v.push(Extreme::Ladder { depth: d, kind });
                }
            }
        }
    }
    for total in 250..=260u16 {
        for way in 0..3u8 {
            v.push(Extreme::NameLen { total, way });
        }
    }
    for which in 0..5u8 {
        v.push(Extreme::Counts { which, payload: false });
        v.push(Extreme::Counts { which, payload: true });
    }
    for variant in 0..4u8 {
        v.push(Extreme::MaxRdata { variant });
    }
    for pattern in 0..6u8 {
        v.push(Extreme::Fill { pattern, header: false });
        v.push(Extreme::Fill { pattern, header: true });
    }
    v.push(Extreme::MaxRecords);
    v.push(Extreme::MaxQuestions);
    v.push(Extreme::Quadratic);
    v
}

pub fn build_extreme(e: Extreme) -> Vec<u8> {
    match e {
        Extreme::Ladder { depth, kind } => ladder(depth, kind, 0),
        Extreme::NameLen { total, way } => name_len_message(total, way),
        Extreme::Counts { which, payload } => {
            let mut m = vec![0x43, 0x4e, 0, 0, 0, 0, 0, 0, 0, 0, 0, 0];
            for i in 0..4 {
                if which == 4 || which as usize == i {
                    m[4 + 2 * i] = 0xff;
                    m[5 + 2 * i] = 0xff;
                }
            }
            if payload {
                m.extend_from_slice(&[0, 0, 1, 0, 1]);
            }
            m
        }
        Extreme::MaxRdata { variant } => {
            let room = 65535 - (12 + 1 + 10);
            let mut m = vec![0x4d, 0x52, 0, 0, 0, 0, 0, 1, 0, 0, 0, 0, 0];
            let code: u16 = match variant {
                2 => 1,
                3 => 5,
                _ => 16,
            };
            m.extend_from_slice(&code.to_be_bytes());
            m.extend_from_slice(&[0, 1, 0, 0, 0, 0]);
            let rdl: usize = if variant == 1 { room + 1 } else { room };
            m.extend_from_slice(&(rdl as u16).to_be_bytes());
            m.resize(m.len() + room, if variant == 3 { 0 } else { b'x' });
            debug_assert_eq!(m.len(), 65535);
            m
        }
        Extreme::Fill { pattern, header } => {
            let mut m: Vec<u8> = (0..65535usize)
                .map(|i| match pattern {
                    0 => 0x00,
                    1 => 0xff,
                    2 => 0xc0,
                    3 => 0x3f,
                    4 => {
                        if i % 2 == 0 {
                            0xc0
                        } else {
                            0x0c
                        }
                    }
                    _ => (i & 0xff) as u8,
                })
                .collect();
            if header {
                m[..12].copy_from_slice(&[0x46, 0x49, 0, 0, 0, 1, 0, 1, 0, 1, 0, 1]);
            }
            m
        }
        Extreme::MaxRecords => {
            let n = (65535 - 12) / 15;
            let mut m = vec![0x4d, 0x58, 0x84, 0, 0, 0];
            m.extend_from_slice(&(n as u16).to_be_bytes());
            m.extend_from_slice(&[0, 0, 0, 0]);
            for i in 0..n {
                m.extend_from_slice(&[0, 0, 1, 0, 1, 0, 0, 0, 60, 0, 4, 10, 0]);
                m.extend_from_slice(&(i as u16).to_be_bytes());
            }
            m
        }
        Extreme::MaxQuestions => {
            let n = (65535 - 12) / 5;
            let mut m = vec![0x4d, 0x51, 0, 0];
            m.extend_from_slice(&(n as u16).to_be_bytes());
            m.extend_from_slice(&[0, 0, 0, 0, 0, 0]);
            for i in 0..n {
                m.push(0);
                m.extend_from_slice(&((i % 40) as u16).to_be_bytes());
                m.extend_from_slice(&[0, 1]);
            }
            m.resize(65535, 0);
            m
        }
        Extreme::Quadratic => {
            let depth = max_ladder_depth(0);
            let head = ladder(depth, 0, 1).len() - 12;
            let followers = (65535 - head) / 12 + 1;
            let mut f = followers;
            loop {
                let m = ladder(depth, 0, f);
                if m.len() <= 65535 {
                    return m;
                }
                f -= 1;
            }
        }
    }
}

// ---- the public walk --------------------------------------------------------

pub fn space_items(space: Space, tier: Tier) -> u64 {
    match space {
        Space::Short => 1 + 256 + 65536,
        Space::Tails => tail_vectors(tier).len() as u64 * tails_per_vector(tail_maxlen(tier)),
        Space::Singles => N_SINGLES,
        Space::Pairs => n_pairs(tier),
        Space::Triples => n_triples(tier),
        Space::Subst => N_SUBST,
        Space::Extremes => extreme_items(tier).len() as u64,
    }
}

/// Items per job (the unit of child-process work and of bisection).
fn job_size(space: Space, tier: Tier) -> u64 {
    match space {
        Space::Short => 70_000,
        Space::Tails => 250_000,
        Space::Singles => tier.pick(1024, 96),
        Space::Pairs => tier.pick(1024, 96),
        Space::Triples => 4096,
        Space::Subst => 1,
        Space::Extremes => tier.pick(24, 128),
    }
}

/// Calls `f` with every input of item `item` of `space`.  Returns false when
/// the index denotes no message (unrealisable shape combination).
pub fn for_each_input(
    space: Space,
    tier: Tier,
    item: u64,
    f: &mut dyn FnMut(&[u8], Class),
) -> bool {
    for_each_input_opt(space, tier, item, true, f)
}

/// As `for_each_input`; with `trunc == false` the truncated inputs are left out
/// (used by C04 and C16, which only want inputs that decode: a truncated
/// message that still decodes is a shorter message of the same grammar).
pub fn for_each_input_opt(
    space: Space,
    tier: Tier,
    item: u64,
    trunc: bool,
    f: &mut dyn FnMut(&[u8], Class),
) -> bool {
    match space {
        Space::Short => {
            let b: Vec<u8> = if item == 0 {
                vec![]
            } else if item <= 256 {
                vec![(item - 1) as u8]
            } else {
                let r = item - 257;
                vec![(r >> 8) as u8, (r & 0xff) as u8]
            };
            f(&b, Class::Plain);
            true
        }
        Space::Tails => {
            if !trunc {
                // callers that only want inputs that decode: with a record
                // count of one nothing decodes (a record takes >= 11 octets,
                // the tails have <= 7), so those count vectors are left out
                let per = tails_per_vector(tail_maxlen(tier));
                let v = tail_vectors(tier)[(item / per) as usize];
                if v[1] + v[2] + v[3] > 0 {
                    return true;
                }
            }
            let mut buf = Vec::with_capacity(24);
            tail_input(tier, item, &mut buf);
            f(&buf, Class::Plain);
            true
        }
        Space::Singles => match build_single(item) {
            Some(b) => {
                emit_with_deviations(&b, tier == Tier::Thorough, trunc, f);
                true
            }
            None => false,
        },
        Space::Pairs => match build_pair(tier, item) {
            Some(b) => {
                // thorough: pairs of deviations on one split in six (the same
                // records in the other splits differ in the counts only)
                emit_with_deviations(&b, tier == Tier::Thorough && item % 6 == 0, trunc, f);
                true
            }
            None => false,
        },
        Space::Triples => match build_triple(item) {
            Some(b) => {
                // base message + single in-place deviations only: the prefixes of
                // a three-record message fail like those of the two-record ones
                emit_with_deviations(&b, false, false, f);
                true
            }
            None => false,
        },
        Space::Subst => match build_subst(tier, item) {
            Some(b) => {
                let mut buf = b.bytes.clone();
                for pos in 0..buf.len() {
                    let orig = buf[pos];
                    for v in 0..=255u8 {
                        if v != orig {
                            buf[pos] = v;
                            f(&buf, Class::Subst);
                        }
                    }
                    buf[pos] = orig;
                }
                true
            }
            None => false,
        },
        Space::Extremes => {
            let items = extreme_items(tier);
            match items.get(item as usize) {
                Some(e) => {
                    let m = build_extreme(*e);
                    f(&m, Class::Extreme);
                    true
                }
                None => false,
            }
        }
    }
}

/// Faster walk over a range for `Extremes` (avoids rebuilding the item list).
fn for_each_in_range(
    space: Space,
    tier: Tier,
    lo: u64,
    hi: u64,
    f: &mut dyn FnMut(&[u8], Class),
) -> u64 {
    let mut skipped = 0;
    if space == Space::Extremes {
        let items = extreme_items(tier);
        for i in lo..hi.min(items.len() as u64) {
            let m = build_extreme(items[i as usize]);
            f(&m, Class::Extreme);
        }
        return 0;
    }
    for i in lo..hi {
        if !for_each_input(space, tier, i, f) {
            skipped += 1;
        }
    }
    skipped
}

// ---------------------------------------------------------------------------------------------
// the child: decode and compare
// ---------------------------------------------------------------------------------------------

const OUTCOMES: [&str; 8] = [
    "accept",
    "reject-no-id",
    "reject-header-short",
    "reject-truncated",
    "reject-label-type",
    "reject-pointer",
    "reject-name-too-long",
    "reject-rdlength",
];

fn outcome_idx(r: &Result<Message, refwire::RefErr>) -> usize {
    match r {
        Ok(_) => 0,
        Err(e) => match e.kind {
            refwire::RefErrKind::NoId => 1,
            refwire::RefErrKind::HeaderShort => 2,
            refwire::RefErrKind::Truncated => 3,
            refwire::RefErrKind::LabelType => 4,
            refwire::RefErrKind::Pointer => 5,
            refwire::RefErrKind::NameTooLong => 6,
            refwire::RefErrKind::RdLength => 7,
        },
    }
}

#[derive(Default)]
struct JobAcc {
    n: u64,
    steps: u64,
    skipped: u64,
    hist: [[u64; 8]; 7],
    nontrivial_plain: u64,
    nontrivial_other: u64,
    hashes: Vec<u64>,
    viol_counts: BTreeMap<String, u64>,
    viols: Vec<Value>,
    details: Vec<Value>,
    max_us: u64,
    max_us_len: usize,
    want_details: bool,
    timing: bool,
    no_hash: bool,
}

fn short_debug<T: std::fmt::Debug>(v: &T) -> String {
    let s = format!("{v:?}");
    if s.len() > 600 {
        let mut cut = 600;
        while !s.is_char_boundary(cut) {
            cut -= 1;
        }
        format!("{}… ({} chars)", &s[..cut], s.len())
    } else {
        s
    }
}

pub fn describe_input(b: &[u8]) -> String {
    if b.len() <= 48 {
        format!("{} ({} octets)", hex(b), b.len())
    } else {
        format!("{}… ({} octets)", hex(&b[..48]), b.len())
    }
}

fn eval(acc: &mut JobAcc, bytes: &[u8], class: Class) {
    acc.n += 1;
    let (want, steps) = refwire::decode_counting(bytes);
    acc.steps += steps;
    let t0 = if acc.timing { Some(Instant::now()) } else { None };
    let got = std::panic::catch_unwind(std::panic::AssertUnwindSafe(|| {
        Message::from_octets(bytes)
    }));
    if let Some(t0) = t0 {
        let us = t0.elapsed().as_micros() as u64;
        if us > acc.max_us {
            acc.max_us = us;
            acc.max_us_len = bytes.len();
        }
    }
    acc.hist[class.idx()][outcome_idx(&want)] += 1;
    let nontrivial = bytes.len() >= 12 && bytes[4..12].iter().any(|b| *b != 0);
    if nontrivial {
        if class == Class::Plain {
            acc.nontrivial_plain += 1;
        } else if class.hashed() && !acc.no_hash {
            acc.hashes.push(fnv64(bytes));
        } else {
            acc.nontrivial_other += 1;
        }
    }
    let expect_id = if bytes.len() >= 2 {
        Some(u16::from_be_bytes([bytes[0], bytes[1]]))
    } else {
        None
    };
    let mut problem: Option<(&'static str, String)> = None;
    match &got {
        Err(_) => problem = Some(("panic", "Message::from_octets panicked".into())),
        Ok(Ok(m)) => match &want {
            Ok(w) => {
                if m != w {
                    problem = Some((
                        "value",
                        format!("decoded value differs: impl {} reference {}", short_debug(m), short_debug(w)),
                    ));
                }
            }
            Err(e) => {
                problem = Some((
                    "accepts-malformed",
                    format!("impl accepts ({}), reference rejects with {:?}", short_debug(m), e.kind),
                ));
            }
        },
        Ok(Err(e)) => {
            if let Ok(w) = &want {
                problem = Some((
                    "rejects-well-formed",
                    format!("impl rejects with {e:?}, reference accepts ({})", short_debug(w)),
                ));
            } else if e.id() != expect_id {
                problem = Some((
                    "error-id",
                    format!("error {e:?} carries id {:?}, the input's first two octets give {expect_id:?}", e.id()),
                ));
            }
        }
    }
    if acc.want_details {
        acc.details.push(json!({
            "input": describe_input(bytes),
            "implementation": match &got { Err(_) => "PANIC".to_string(), Ok(r) => short_debug(r) },
            "reference": short_debug(&want),
            "reference_octets_examined": steps,
        }));
    }
    if let Some((clause, text)) = problem {
        *acc.viol_counts.entry(clause.to_string()).or_insert(0) += 1;
        let have = acc.viols.iter().filter(|v| v["clause"] == clause).count();
        if have < 3 {
            acc.viols.push(json!({
                "clause": clause,
                "hex": hex(bytes),
                "class": class.name(),
                "text": text,
            }));
        }
    }
}

fn acc_to_json(acc: &JobAcc) -> Value {
    let mut hist = serde_json::Map::new();
    for c in CLASSES {
        for (o, name) in OUTCOMES.iter().enumerate() {
            let n = acc.hist[c.idx()][o];
            if n > 0 {
                hist.insert(format!("{}/{}", c.name(), name), json!(n));
            }
        }
    }
    json!({
        "n": acc.n,
        "steps": acc.steps,
        "skipped": acc.skipped,
        "hist": hist,
        "nontrivial_plain": acc.nontrivial_plain,
        "nontrivial_other": acc.nontrivial_other,
        "nhash": acc.hashes.len(),
        "viol_counts": acc.viol_counts,
        "viols": acc.viols,
        "details": acc.details,
        "max_us": acc.max_us,
        "max_us_len": acc.max_us_len,
    })
}

fn serve() -> i32 {
    std::panic::set_hook(Box::new(|_| {}));
    let stdin = std::io::stdin();
    let mut input = stdin.lock();
    let stdout = std::io::stdout();
    let mut out = stdout.lock();
    let mut line = String::new();
    loop {
        line.clear();
        match input.read_line(&mut line) {
            Ok(0) | Err(_) => return 0,
            Ok(_) => {}
        }
        let words: Vec<&str> = line.split_whitespace().collect();
        if words.is_empty() {
            continue;
        }
        let mut acc = JobAcc::default();
        match words[0] {
            "G" | "T" if words.len() == 5 => {
                let announce = words[0] == "T";
                let space = match Space::parse(words[1]) {
                    Some(s) => s,
                    None => return 2,
                };
                let tier = if words[2] == "thorough" { Tier::Thorough } else { Tier::Quick };
                let lo: u64 = words[3].parse().unwrap_or(0);
                let hi: u64 = words[4].parse().unwrap_or(0);
                acc.timing = space == Space::Extremes;
                acc.no_hash = space == Space::Triples;
                let mut ordinal = 0u64;
                let mut f = |b: &[u8], c: Class| {
                    if announce {
                        // unbuffered: the last number on stderr names the input
                        // that was being decoded when the process died
                        let _ = std::io::stderr().write_all(format!("{ordinal}\n").as_bytes());
                        ordinal += 1;
                    }
                    eval(&mut acc, b, c)
                };
                let skipped = for_each_in_range(space, tier, lo, hi, &mut f);
                acc.skipped = skipped;
            }
            "X" if words.len() == 2 => {
                let n: usize = words[1].parse().unwrap_or(0);
                acc.want_details = n <= 4;
                acc.timing = true;
                let mut l = String::new();
                for _ in 0..n {
                    l.clear();
                    if input.read_line(&mut l).unwrap_or(0) == 0 {
                        return 2;
                    }
                    let bytes = unhex(l.trim());
                    eval(&mut acc, &bytes, Class::Plain);
                }
            }
            "Q" => return 0,
            _ => return 2,
        }
        let text = acc_to_json(&acc).to_string();
        if out.write_all(text.as_bytes()).is_err() || out.write_all(b"\n").is_err() {
            return 0;
        }
        let mut raw = Vec::with_capacity(acc.hashes.len() * 8);
        for h in &acc.hashes {
            raw.extend_from_slice(&h.to_le_bytes());
        }
        if out.write_all(&raw).is_err() || out.flush().is_err() {
            return 0;
        }
    }
}

/// `vcheck worker C03 serve`: everything, including every call of the
/// implementation's decoder, runs on one thread with a 2 MiB stack.
pub fn worker(args: &[String]) -> i32 {
    if args.first().map(String::as_str) == Some("serve-tokio") {
        // the same loop on a worker thread of a tokio multi-thread runtime with its
        // default (2 MiB) thread stack, inside a spawned task: what the server does
        let rt = match tokio::runtime::Builder::new_multi_thread().worker_threads(1).enable_all().build() {
            Ok(rt) => rt,
            Err(_) => return 2,
        };
        let h = rt.spawn(async { serve() });
        return rt.block_on(h).unwrap_or(3);
    }
    if args.first().map(String::as_str) != Some("serve") {
        return 2;
    }
    // 2 MiB, as for a server worker thread.  VERIF_C03_STACK_KIB exists only to
    // measure the margin by hand (the check itself never sets it).
    let stack = std::env::var("VERIF_C03_STACK_KIB")
        .ok()
        .and_then(|s| s.parse::<usize>().ok())
        .map(|k| k << 10)
        .unwrap_or(2 << 20);
    let h = std::thread::Builder::new()
        .name("c03-decode".into())
        .stack_size(stack)
        .spawn(serve);
    match h {
        Ok(h) => h.join().unwrap_or(3),
        Err(_) => 2,
    }
}

// ---------------------------------------------------------------------------------------------
// the parent: jobs, children, bisection
// ---------------------------------------------------------------------------------------------

struct Proc {
    child: Child,
    stdin: Option<ChildStdin>,
    rx: Receiver<Option<(Value, Vec<u64>)>>,
}

static STACK_KIB_FOR_MEASUREMENT: std::sync::atomic::AtomicUsize = std::sync::atomic::AtomicUsize::new(0);
static CHILD_ON_TOKIO_WORKER: std::sync::atomic::AtomicBool = std::sync::atomic::AtomicBool::new(false);

/// The deepest pointer ladders decoded where the server decodes: in a task on a worker
/// thread of a tokio multi-thread runtime (default 2 MiB stack).  Some(text) = the
/// child died or hung.
fn deepest_ladders_on_a_tokio_worker() -> Option<String> {
    let inputs: Vec<Vec<u8>> = (0u8..3).map(|k| ladder(max_ladder_depth(k), k, 0)).collect();
    CHILD_ON_TOKIO_WORKER.store(true, std::sync::atomic::Ordering::SeqCst);
    let r = run_fresh(&x_request(&inputs), Duration::from_secs(60));
    CHILD_ON_TOKIO_WORKER.store(false, std::sync::atomic::Ordering::SeqCst);
    failed(&r)
}

/// Information for the reader, never a verdict: the smallest thread stack (in
/// steps of 32 KiB, from 2 MiB down) on which the deepest pointer ladders still
/// decode.  The check itself runs at exactly 2 MiB; the distance says how much
/// room the recursive decoder leaves for the frames a server worker has above it.
fn measure_stack_headroom() -> Value {
    let inputs: Vec<Vec<u8>> = (0u8..2).map(|k| ladder(max_ladder_depth(k), k, 0)).collect();
    let mut smallest_ok: Option<usize> = None;
    let mut largest_failing: Option<usize> = None;
    let mut kib = 2048usize;
    while kib >= 1024 {
        STACK_KIB_FOR_MEASUREMENT.store(kib, std::sync::atomic::Ordering::SeqCst);
        let r = run_fresh(&x_request(&inputs), Duration::from_secs(30));
        if failed(&r).is_some() {
            largest_failing = Some(kib);
            break;
        }
        smallest_ok = Some(kib);
        kib -= 32;
    }
    STACK_KIB_FOR_MEASUREMENT.store(0, std::sync::atomic::Ordering::SeqCst);
    json!({
        "deepest_ladders_decode_on_a_stack_of_kib": smallest_ok,
        "and_overflow_on_kib": largest_failing,
        "stack_of_the_check_and_of_a_server_worker_kib": 2048,
        "note": "measurement only; a change that makes the decoder's frame bigger shows up here before it shows up as an overflow",
    })
}

fn spawn_child() -> Option<Proc> {
    spawn_child_opt(false).map(|(p, _)| p)
}

/// With `trace`, the child's stderr is collected by a thread whose join handle
/// is returned (it ends when the child has gone).
fn spawn_child_opt(trace: bool) -> Option<(Proc, Option<std::thread::JoinHandle<Vec<u8>>>)> {
    let exe = std::env::current_exe().ok()?;
    let mut cmd = Command::new(exe);
    let mode = if CHILD_ON_TOKIO_WORKER.load(std::sync::atomic::Ordering::SeqCst) { "serve-tokio" } else { "serve" };
    cmd.args(["worker", "C03", mode])
        .stdin(Stdio::piped())
        .stdout(Stdio::piped())
        .stderr(if trace { Stdio::piped() } else { Stdio::null() });
    // only the headroom measurement (after the check proper) sets this
    let kib = STACK_KIB_FOR_MEASUREMENT.load(std::sync::atomic::Ordering::SeqCst);
    if kib != 0 {
        cmd.env("VERIF_C03_STACK_KIB", kib.to_string());
    }
    let mut child = cmd.spawn().ok()?;
    let err_reader = if trace {
        let mut e = child.stderr.take()?;
        Some(std::thread::spawn(move || {
            // keep only the tail: the announcements of a big job are long
            let mut tail: Vec<u8> = Vec::new();
            let mut buf = vec![0u8; 1 << 16];
            loop {
                match e.read(&mut buf) {
                    Ok(0) | Err(_) => break,
                    Ok(n) => {
                        tail.extend_from_slice(&buf[..n]);
                        if tail.len() > 1 << 12 {
                            let cut = tail.len() - (1 << 11);
                            tail.drain(..cut);
                        }
                    }
                }
            }
            tail
        }))
    } else {
        None
    };
    let stdin = child.stdin.take();
    let stdout = child.stdout.take()?;
    let (tx, rx) = channel();
    std::thread::spawn(move || {
        let mut r = BufReader::with_capacity(1 << 16, stdout);
        let mut line = String::new();
        loop {
            line.clear();
            match r.read_line(&mut line) {
                Ok(0) | Err(_) => {
                    let _ = tx.send(None);
                    return;
                }
                Ok(_) => {}
            }
            let v: Value = match serde_json::from_str(&line) {
                Ok(v) => v,
                Err(_) => {
                    let _ = tx.send(None);
                    return;
                }
            };
            let nh = v["nhash"].as_u64().unwrap_or(0) as usize;
            let mut raw = vec![0u8; nh * 8];
            if r.read_exact(&mut raw).is_err() {
                let _ = tx.send(None);
                return;
            }
            let hashes = raw
                .chunks_exact(8)
                .map(|c| u64::from_le_bytes([c[0], c[1], c[2], c[3], c[4], c[5], c[6], c[7]]))
                .collect();
            if tx.send(Some((v, hashes))).is_err() {
                return;
            }
        }
    });
    Some((Proc { child, stdin, rx }, err_reader))
}

enum JobResult {
    Done(Value, Vec<u64>),
    /// the child exited (text describes how)
    Died(String),
    Timeout,
    Machinery(String),
}

/// user + system CPU seconds of a process, from /proc/<pid>/stat
fn child_cpu_seconds(pid: u32) -> Option<f64> {
    let text = std::fs::read_to_string(format!("/proc/{pid}/stat")).ok()?;
    // fields after the parenthesised command name
    let rest = &text[text.rfind(')')? + 2..];
    let f: Vec<&str> = rest.split_whitespace().collect();
    let utime: f64 = f.get(11)?.parse().ok()?;
    let stime: f64 = f.get(12)?.parse().ok()?;
    let hz = unsafe { libc::sysconf(libc::_SC_CLK_TCK) } as f64;
    if hz <= 0.0 {
        return None;
    }
    Some((utime + stime) / hz)
}

fn describe_status(child: &mut Child) -> String {
    use std::os::unix::process::ExitStatusExt;
    match child.wait() {
        Ok(st) => {
            if let Some(sig) = st.signal() {
                let name = match sig {
                    6 => " (SIGABRT)",
                    7 => " (SIGBUS)",
                    9 => " (SIGKILL)",
                    11 => " (SIGSEGV)",
                    _ => "",
                };
                format!("killed by signal {sig}{name}")
            } else {
                format!("exit status {}", st.code().unwrap_or(-1))
            }
        }
        Err(e) => format!("wait failed: {e}"),
    }
}

impl Proc {
    fn run(&mut self, request: &[u8], timeout: Duration) -> JobResult {
        let ok = match self.stdin.as_mut() {
            Some(s) => s.write_all(request).and_then(|_| s.flush()).is_ok(),
            None => false,
        };
        if !ok {
            // the child may already be dead
            let _ = self.child.kill();
            return JobResult::Died(describe_status(&mut self.child));
        }
        // The limit is on the CPU time the child spends on this job (robust
        // against a loaded machine); a child that burns no CPU and does not
        // answer (deadlock) is caught by a wall-clock limit ten times as long.
        let cpu0 = child_cpu_seconds(self.child.id());
        let started = Instant::now();
        loop {
            match self.rx.recv_timeout(Duration::from_millis(200)) {
                Ok(Some((v, h))) => return JobResult::Done(v, h),
                Ok(None) => return JobResult::Died(describe_status(&mut self.child)),
                Err(RecvTimeoutError::Disconnected) => return JobResult::Died(describe_status(&mut self.child)),
                Err(RecvTimeoutError::Timeout) => {
                    let used = match (cpu0, child_cpu_seconds(self.child.id())) {
                        (Some(a), Some(b)) => b - a,
                        _ => started.elapsed().as_secs_f64(),
                    };
                    if used > timeout.as_secs_f64() || started.elapsed() > timeout * 10 {
                        let _ = self.child.kill();
                        let _ = self.child.wait();
                        return JobResult::Timeout;
                    }
                }
            }
        }
    }
    fn close(mut self) {
        self.stdin.take();
        let _ = self.child.wait();
    }
}

#[derive(Debug, Copy, Clone)]
struct Job {
    space: Space,
    lo: u64,
    hi: u64,
}

fn g_request(tier: Tier, j: &Job) -> Vec<u8> {
    format!("G {} {} {} {}\n", j.space.code(), tier.name(), j.lo, j.hi).into_bytes()
}

fn x_request(inputs: &[Vec<u8>]) -> Vec<u8> {
    let mut s = format!("X {}\n", inputs.len()).into_bytes();
    for i in inputs {
        s.extend_from_slice(hex(i).as_bytes());
        s.push(b'\n');
    }
    s
}

/// Run one request on a fresh child.
fn run_fresh(request: &[u8], timeout: Duration) -> JobResult {
    match spawn_child() {
        Some(mut p) => {
            let r = p.run(request, timeout);
            if let JobResult::Done(..) = r {
                p.close();
            }
            r
        }
        None => JobResult::Machinery("cannot spawn the worker process".into()),
    }
}

fn failed(r: &JobResult) -> Option<String> {
    match r {
        JobResult::Done(..) => None,
        JobResult::Died(s) => Some(format!("worker process {s}")),
        JobResult::Timeout => Some("worker process did not answer within the time limit".into()),
        JobResult::Machinery(s) => Some(format!("machinery: {s}")),
    }
}

/// Find the single input on which a failing job dies: run the job once more in
/// a child that announces every input before decoding it, take the last
/// announcement, and confirm that this input alone makes a fresh child fail.
/// Falls back to bisection if that does not pin it down.
fn locate(tier: Tier, job: Job, timeout: Duration) -> Result<(Vec<u8>, String, u64), String> {
    if let Some((mut p, Some(reader))) = spawn_child_opt(true) {
        let mut req = g_request(tier, &job);
        req[0] = b'T';
        let r = p.run(&req, timeout);
        if let JobResult::Done(..) = r {
            p.close();
            let _ = reader.join();
            return Err("the failing job succeeded when run again".into());
        }
        drop(p);
        let tail = reader.join().unwrap_or_default();
        let last = String::from_utf8_lossy(&tail)
            .lines()
            .filter_map(|l| l.trim().parse::<u64>().ok())
            .last();
        if let Some(k) = last {
            let mut n = 0u64;
            let mut found: Option<(Vec<u8>, u64)> = None;
            for item in job.lo..job.hi {
                for_each_input(job.space, tier, item, &mut |b, _| {
                    if n == k {
                        found = Some((b.to_vec(), item));
                    }
                    n += 1;
                });
                if found.is_some() {
                    break;
                }
            }
            if let Some((input, item)) = found {
                let r = run_fresh(&x_request(std::slice::from_ref(&input)), timeout);
                if let Some(how) = failed(&r) {
                    return Ok((input, how, item));
                }
            }
        }
    }
    bisect(tier, job, timeout)
}

/// Bisect a failing job to a single input.  `Err` = not reproducible.
fn bisect(tier: Tier, job: Job, timeout: Duration) -> Result<(Vec<u8>, String, u64), String> {
    let (mut lo, mut hi) = (job.lo, job.hi);
    let whole = run_fresh(&g_request(tier, &Job { space: job.space, lo, hi }), timeout);
    let mut how = match failed(&whole) {
        Some(h) => h,
        None => return Err("the failing job succeeded when run again".into()),
    };
    while hi - lo > 1 {
        let mid = lo + (hi - lo) / 2;
        let r = run_fresh(&g_request(tier, &Job { space: job.space, lo, hi: mid }), timeout);
        if let Some(h) = failed(&r) {
            hi = mid;
            how = h;
        } else {
            let r2 = run_fresh(&g_request(tier, &Job { space: job.space, lo: mid, hi }), timeout);
            match failed(&r2) {
                Some(h) => {
                    lo = mid;
                    how = h;
                }
                None => return Err(format!("neither half of items {lo}..{hi} fails on its own")),
            }
        }
    }
    let item = lo;
    let mut inputs: Vec<Vec<u8>> = Vec::new();
    for_each_input(job.space, tier, item, &mut |b, _| inputs.push(b.to_vec()));
    let mut slice: &[Vec<u8>] = &inputs;
    while slice.len() > 1 {
        let mid = slice.len() / 2;
        let r = run_fresh(&x_request(&slice[..mid]), timeout);
        if let Some(h) = failed(&r) {
            slice = &slice[..mid];
            how = h;
        } else {
            let r2 = run_fresh(&x_request(&slice[mid..]), timeout);
            match failed(&r2) {
                Some(h) => {
                    slice = &slice[mid..];
                    how = h;
                }
                None => return Err(format!("neither half of the inputs of item {item} fails on its own")),
            }
        }
    }
    match slice.first() {
        Some(one) => {
            let r = run_fresh(&x_request(std::slice::from_ref(one)), timeout);
            match failed(&r) {
                Some(h) => Ok((one.clone(), h, item)),
                None => Err(format!("the single input of item {item} does not fail on its own ({how})")),
            }
        }
        None => Err(format!("item {item} has no inputs")),
    }
}

#[derive(Default)]
struct Totals {
    n: u64,
    steps: u64,
    skipped: u64,
    hist: BTreeMap<String, u64>,
    nontrivial_plain: u64,
    nontrivial_other: u64,
    hashes: Vec<u64>,
    viol_counts: BTreeMap<String, u64>,
    viols: Vec<(String, Value)>,
    max_us: u64,
    max_us_len: u64,
    jobs_done: u64,
    per_space: BTreeMap<String, u64>,
}

fn absorb(t: &mut Totals, space: Space, v: &Value, hashes: Vec<u64>) {
    let n = v["n"].as_u64().unwrap_or(0);
    t.n += n;
    *t.per_space.entry(space.code().to_string()).or_insert(0) += n;
    t.steps += v["steps"].as_u64().unwrap_or(0);
    t.skipped += v["skipped"].as_u64().unwrap_or(0);
    if let Some(h) = v["hist"].as_object() {
        for (k, c) in h {
            *t.hist.entry(k.clone()).or_insert(0) += c.as_u64().unwrap_or(0);
        }
    }
    t.nontrivial_plain += v["nontrivial_plain"].as_u64().unwrap_or(0);
    t.nontrivial_other += v["nontrivial_other"].as_u64().unwrap_or(0);
    t.hashes.extend(hashes);
    if let Some(h) = v["viol_counts"].as_object() {
        for (k, c) in h {
            *t.viol_counts.entry(k.clone()).or_insert(0) += c.as_u64().unwrap_or(0);
        }
    }
    if let Some(a) = v["viols"].as_array() {
        for x in a {
            if t.viols.len() < 400 {
                t.viols.push((space.code().to_string(), x.clone()));
            }
        }
    }
    let us = v["max_us"].as_u64().unwrap_or(0);
    if us > t.max_us {
        t.max_us = us;
        t.max_us_len = v["max_us_len"].as_u64().unwrap_or(0);
    }
    t.jobs_done += 1;
}

fn sample_of(space: Space, tier: Tier, item: u64, which: usize) -> Option<Value> {
    let mut k = 0usize;
    let mut out = None;
    for_each_input(space, tier, item, &mut |b, c| {
        if k == which {
            let (r, steps) = refwire::decode_counting(b);
            out = Some(json!({
                "space": space.code(),
                "item": item,
                "derivation": c.name(),
                "input": describe_input(b),
                "reference": short_debug(&r),
                "octets_examined": steps,
            }));
        }
        k += 1;
    });
    out
}

pub fn run(ctx: &Ctx) -> i32 {
    let tier = ctx.tier;
    let timeout = Duration::from_secs(tier.pick(10, 60));
    let wall_cap = tier.pick(40.0, 565.0);

    let mut jobs: Vec<Job> = Vec::new();
    let mut items_total: BTreeMap<String, u64> = BTreeMap::new();
    for space in SCHEDULE {
        let n = space_items(space, tier);
        items_total.insert(space.code().to_string(), n);
        let step = job_size(space, tier);
        let mut lo = 0;
        while lo < n {
            let hi = (lo + step).min(n);
            jobs.push(Job { space, lo, hi });
            lo = hi;
        }
    }
    // big jobs first (better packing); the seed only rotates the start
    let njobs = jobs.len();
    let next = AtomicUsize::new(0);
    let stop = AtomicBool::new(false);
    let totals = Mutex::new(Totals::default());
    let failures: Mutex<Vec<(Job, String)>> = Mutex::new(Vec::new());
    let machinery: Mutex<Vec<String>> = Mutex::new(Vec::new());
    let cap_hit = AtomicBool::new(false);
    let offset = if njobs == 0 { 0 } else { (ctx.seed as usize) % njobs };

    std::thread::scope(|s| {
        for _ in 0..ctx.threads.max(1) {
            s.spawn(|| {
                let mut proc: Option<Proc> = None;
                loop {
                    if stop.load(Ordering::Relaxed) {
                        break;
                    }
                    if ctx.elapsed() > wall_cap {
                        cap_hit.store(true, Ordering::Relaxed);
                        break;
                    }
                    let k = next.fetch_add(1, Ordering::Relaxed);
                    if k >= njobs {
                        break;
                    }
                    let job = jobs[(k + offset) % njobs];
                    if proc.is_none() {
                        proc = spawn_child();
                        if proc.is_none() {
                            machinery.lock().unwrap().push("cannot spawn the worker process".into());
                            stop.store(true, Ordering::Relaxed);
                            break;
                        }
                    }
                    let r = proc.as_mut().unwrap().run(&g_request(tier, &job), timeout);
                    match r {
                        JobResult::Done(v, h) => {
                            let mut t = totals.lock().unwrap();
                            absorb(&mut t, job.space, &v, h);
                        }
                        JobResult::Machinery(m) => {
                            machinery.lock().unwrap().push(m);
                            stop.store(true, Ordering::Relaxed);
                        }
                        other => {
                            let how = failed(&other).unwrap_or_default();
                            proc = None;
                            let mut f = failures.lock().unwrap();
                            f.push((job, how));
                            if f.len() >= 12 {
                                // the verdict is settled; do not grind through
                                // thousands of crashing jobs
                                stop.store(true, Ordering::Relaxed);
                            }
                        }
                    }
                }
                if let Some(p) = proc {
                    p.close();
                }
            });
        }
    });

    let machinery = machinery.into_inner().unwrap();
    if !machinery.is_empty() {
        eprintln!("C03: machinery failure: {}", machinery.join("; "));
        return 2;
    }

    let mut t = totals.into_inner().unwrap();
    let mut failures = failures.into_inner().unwrap();
    failures.sort_by_key(|(j, _)| (j.space.code(), j.lo));
    let stopped_early = stop.load(Ordering::Relaxed);
    let mut report = Report::new();
    let mut violations: Vec<Violation> = Vec::new();

    // abnormal exits / timeouts: narrow the first few down to the single input
    let mut seen_inputs: Vec<Vec<u8>> = Vec::new();
    let mut located = 0usize;
    for (job, how) in failures.iter() {
        // narrowing a time-out down costs two more time limits: do it once
        let budget = if how.contains("time limit") { 1 } else { 3 };
        if located < budget {
            located += 1;
            match locate(tier, *job, timeout) {
                Ok((input, how1, item)) => {
                    if seen_inputs.contains(&input) {
                        continue;
                    }
                    seen_inputs.push(input.clone());
                    let (want, steps) = refwire::decode_counting(&input);
                    let clause = if how1.contains("time limit") { "timeout" } else { "abnormal-exit" };
                    violations.push(Violation {
                        clause: clause.into(),
                        summary: format!(
                            "{how1} while decoding {} [space {} item {item}]; reference: {} after examining {steps} octets",
                            describe_input(&input),
                            job.space.code(),
                            short_debug(&want)
                        ),
                        replay: json!({"kind": "wire-input", "input_hex": hex(&input), "space": job.space.code(), "item": item}),
                        slug: None,
                    });
                }
                Err(e) => {
                    eprintln!(
                        "C03: machinery failure: job {} {}..{} failed ({how}) but could not be bisected: {e}",
                        job.space.code(),
                        job.lo,
                        job.hi
                    );
                    return 2;
                }
            }
        } else {
            violations.push(Violation {
                clause: if how.contains("time limit") { "timeout" } else { "abnormal-exit" }.into(),
                summary: format!(
                    "{how} in job {} items {}..{} (not narrowed down: {} jobs failed)",
                    job.space.code(),
                    job.lo,
                    job.hi,
                    failures.len()
                ),
                replay: json!({"kind": "wire-job", "space": job.space.code(), "lo": job.lo, "hi": job.hi, "tier": tier.name()}),
                slug: None,
            });
        }
    }

    // in-band violations, shortest input first
    t.viols.sort_by(|a, b| {
        let ha = a.1["hex"].as_str().unwrap_or("");
        let hb = b.1["hex"].as_str().unwrap_or("");
        (a.1["clause"].as_str().unwrap_or(""), ha.len(), ha).cmp(&(b.1["clause"].as_str().unwrap_or(""), hb.len(), hb))
    });
    let mut per_clause: BTreeMap<String, usize> = BTreeMap::new();
    for (space, v) in &t.viols {
        let clause = v["clause"].as_str().unwrap_or("?").to_string();
        let n = per_clause.entry(clause.clone()).or_insert(0);
        *n += 1;
        if *n > 5 {
            continue;
        }
        let bytes = unhex(v["hex"].as_str().unwrap_or(""));
        violations.push(Violation {
            clause,
            summary: format!(
                "{} [{} / {}]: {}",
                describe_input(&bytes),
                space,
                v["class"].as_str().unwrap_or(""),
                v["text"].as_str().unwrap_or("")
            ),
            replay: json!({"kind": "wire-input", "input_hex": v["hex"], "space": space}),
            slug: None,
        });
    }

    t.hashes.sort_unstable();
    t.hashes.dedup();
    let distinct_hashed = t.hashes.len() as u64;

    let capped = cap_hit.load(Ordering::Relaxed);
    report.evaluations = t.n;
    report.states = t.nontrivial_plain + distinct_hashed;
    report.transitions = t.steps;
    report.traces_validated = t.n;
    report.distinct_nontrivial = t.nontrivial_plain + distinct_hashed;
    report.rule = "an input is non-trivial when the decoder gets past the header into a section, i.e. it has >= 12 octets and a non-zero count (so at least one name is examined); distinct = inputs of the `tails` space (distinct by construction: mixed-radix index) + the number of distinct FNV-64 digests of the base messages, single in-place deviations and size-extreme inputs (sorted and de-duplicated in the parent). Truncations, byte substitutions and double deviations are evaluated and judged but NOT counted here because they are not de-duplicated (see nontrivial_not_deduplicated). states = the same distinct inputs; transitions = octets examined by the reference decoder over all inputs".into();
    let mut samples = Vec::new();
    for (space, item, which) in [
        (Space::Tails, 3_000_011u64, 0usize),
        (Space::Tails, 1_234_567, 0),
        (Space::Singles, single_index(3, 6, 5, 5, 0, 1), 0),
        (Space::Singles, single_index(3, 6, 5, 5, 0, 1), 9),
        (Space::Pairs, 168 * 168 + 168 * 47 + 130, 0),
        (Space::Extremes, 66, 0),
    ] {
        if let Some(s) = sample_of(space, tier, item, which) {
            samples.push(s);
        }
    }
    report.samples = samples;
    report.bounds = json!({
        "short": "all byte strings of length 0..2",
        "tails": {
            "header": "01 61 00 00 + counts",
            "count_vectors": tail_vectors(tier).iter().map(|v| format!("{v:?}")).collect::<Vec<_>>(),
            "alphabet": hex(&ALPHA12),
            "max_tail_length": tail_maxlen(tier),
        },
        "grammar": {
            "name_shapes": SHAPES.iter().map(|s| format!("{s:?}")).collect::<Vec<_>>(),
            "types": TYPE_CODES,
            "classes": CLASS_CODES,
            "ttls": TTLS,
            "singles": "0..1 question (any shape) + 1 record: owner shape x type x RDATA variant (name shape / opaque variant) x class x ttl",
            "pairs": "0..1 question + 2 records: (owner shape x type)^2, RDATA variant derived from the other record; section split by index (quick) / all 6 splits (thorough)",
            "triples": if tier == Tier::Thorough { "2 questions + 3 records: (owner shape x type)^3; base message and single in-place deviations, no truncations" } else { "not in the quick tier" },
            "deviations": "label length 64/0x80/0xBF; pointer to self, forward, header offsets 0 and 11, own name start, own first label, previous RDATA; RDLENGTH +1/-1/0/65535; each count +1/-1/65535; truncation at every octet",
            "deviation_bound": if tier == Tier::Thorough { "2 on singles and on every sixth pair message (patch+patch, patch+truncation); 1 elsewhere" } else { "1" },
            "substitution_corpus": N_SUBST,
        },
        "extremes": {
            "ladder_depths": if tier == Tier::Thorough { "every depth 1..max for 3 ladder kinds" } else { "1..64, max/2, max-1, max (+126..129 for labelled rungs) for 3 ladder kinds" },
            "max_depth_plain": max_ladder_depth(0),
            "max_depth_labelled": max_ladder_depth(1),
            "name_lengths": "250..260 x {labels only, labels+pointer, pointer chain carrying labels}",
        },
        "items_per_space": items_total,
        "inputs_per_space": t.per_space,
        "index_combinations_denoting_no_message": t.skipped,
        "jobs": njobs,
        "jobs_completed": t.jobs_done,
        "per_job_cpu_time_limit_s": timeout.as_secs(),
        "per_job_wall_time_limit_s": timeout.as_secs() * 10,
        "worker": "child process, one decoding thread with a 2 MiB stack",
    });
    report.exhaustive = !capped && !stopped_early && t.jobs_done as usize == njobs;
    if capped {
        report.extra.insert("cap_hit".into(), json!(format!("wall clock cap of {wall_cap} s reached after {} of {njobs} jobs", t.jobs_done)));
    }
    if stopped_early {
        report.extra.insert("stopped_early".into(), json!(format!("{} jobs ended abnormally; exploration stopped", failures.len())));
    }
    report.outcome_histogram = t.hist.clone();
    if failures.is_empty() {
        report.extra.insert("stack_headroom".into(), measure_stack_headroom());
        match deepest_ladders_on_a_tokio_worker() {
            None => {
                report.extra.insert("deepest_ladders_on_a_tokio_worker_thread".into(), json!("decoded (or refused) without the process dying"));
            }
            Some(how) if how.starts_with("machinery") => {
                eprintln!("C03: machinery error: {how}");
                return 2;
            }
            Some(how) => report.violations.push(Violation {
                clause: "abnormal-exit".into(),
                summary: format!(
                    "the deepest pointer ladders ({} / {} hops), decoded in a task on a tokio worker thread (2 MiB stack, as in the server): {how}",
                    max_ladder_depth(0),
                    max_ladder_depth(1)
                ),
                replay: json!({"kind": "tokio-worker-ladders"}),
                slug: None,
            }),
        }
    }
    report.extra.insert("nontrivial_not_deduplicated".into(), json!(t.nontrivial_other));
    report.extra.insert("violation_counts".into(), json!(t.viol_counts));
    report.extra.insert("slowest_single_decode_us".into(), json!({"microseconds": t.max_us, "input_octets": t.max_us_len, "measured_on": "size extremes only"}));
    report.assumptions = vec![
        "pointer rule of the reference: a pointer must target an offset strictly before the start of the name fragment it occurs in".into(),
        "trailing octets after the last section are accepted by both decoders (the statement does not forbid them)".into(),
        "termination is judged by the per-job CPU-time limit of the worker process (and a wall-clock limit ten times as long), stack use by the 2 MiB stack of its decoding thread (release profile)".into(),
        "the harness build of dns-types (release, opt-level 3) stands for the server's worker threads".into(),
    ];
    report.violations = violations;
    finish(ctx, report)
}

pub fn replay(ctx: &Ctx, v: &Value) -> i32 {
    let timeout = Duration::from_secs(60);
    if v["kind"] == "tokio-worker-ladders" {
        return match deepest_ladders_on_a_tokio_worker() {
            None => {
                println!("the deepest ladders decode on a tokio worker thread without the process dying");
                0
            }
            Some(how) => {
                println!("deepest ladders on a tokio worker thread: {how}");
                println!("VIOLATION property={} replay=(replayed case)", ctx.id);
                1
            }
        };
    }
    if v["kind"] == "wire-job" {
        let space = Space::parse(v["space"].as_str().unwrap_or("")).unwrap_or(Space::Short);
        let tier = if v["tier"] == "thorough" { Tier::Thorough } else { Tier::Quick };
        let job = Job { space, lo: v["lo"].as_u64().unwrap_or(0), hi: v["hi"].as_u64().unwrap_or(0) };
        return match locate(tier, job, timeout) {
            Ok((input, how, item)) => {
                println!("job bisected to item {item}: {how} on input {}", hex(&input));
                println!("VIOLATION property={} replay=(replayed case)", ctx.id);
                1
            }
            Err(e) => {
                println!("job does not fail: {e}");
                0
            }
        };
    }
    let input = unhex(v["input_hex"].as_str().unwrap_or(""));
    println!("input: {}", describe_input(&input));
    let (want, steps) = refwire::decode_counting(&input);
    println!("reference:      {} (examined {steps} octets)", short_debug(&want));
    let r = run_fresh(&x_request(std::slice::from_ref(&input)), timeout);
    match r {
        JobResult::Done(resp, _) => {
            if let Some(d) = resp["details"].as_array().and_then(|a| a.first()) {
                println!("implementation: {}", d["implementation"].as_str().unwrap_or("?"));
            }
            let bad = resp["viol_counts"].as_object().map(|m| !m.is_empty()).unwrap_or(false);
            if bad {
                for x in resp["viols"].as_array().cloned().unwrap_or_default() {
                    println!("clause {}: {}", x["clause"].as_str().unwrap_or("?"), x["text"].as_str().unwrap_or(""));
                }
                println!("VIOLATION property={} replay=(replayed case)", ctx.id);
                1
            } else {
                println!("replay: property holds on this case (slowest decode {} us)", resp["max_us"]);
                0
            }
        }
        other => {
            println!("implementation: {}", failed(&other).unwrap_or_default());
            println!("VIOLATION property={} replay=(replayed case)", ctx.id);
            1
        }
    }
}
