//! C03 — not built yet.
use crate::common::*;
use serde_json::Value;

pub fn run(_ctx: &Ctx) -> i32 {
    eprintln!("C03: check not built");
    2
}

pub fn replay(_ctx: &Ctx, _v: &Value) -> i32 {
    eprintln!("C03: check not built");
    2
}

/// Entry point for `vcheck worker C03 <args...>` (child-process mode).
pub fn worker(_args: &[String]) -> i32 {
    2
}
