//! C19 — reload swaps the whole configuration or none of it.
//!
//! Sequential part (E-SRV): the real `resolved` runs with `-Z zdir -A hdir -z zfile -a hfile`;
//! every sequence of configuration edits up to a depth is applied, each edit followed by
//! SIGUSR1, the log line `done - success|failure` and a query for every marker name.  The
//! reference is a table: (files, loaded), `SIGUSR1` with every listed file valid and readable => loaded := files,
//! else unchanged.
//!
//! Concurrent part (E-GATE): the same binary with `RESOLVED_VERIF_GATE` set parks every
//! task at named breakpoints on a unix socket owned by this driver, which releases one
//! parked task at a time and so enumerates every ordering of a reload and one (two)
//! in-flight queries, observing which releases block on the zones lock.

use crate::c09::{build_msg, q, start_forwarder, udp_batch, DirGuard, Forwarder, LogBuf, Server};
use crate::common::*;
use crate::refwire;
use dns_types::protocol::types::*;
use serde_json::{json, Value};
use std::collections::{BTreeMap, BTreeSet, HashMap, HashSet, VecDeque};
use std::io::{BufRead, BufReader, Write};
use std::net::{Ipv4Addr, SocketAddr, UdpSocket};
use std::os::unix::net::{UnixListener, UnixStream};
use std::path::{Path, PathBuf};
use std::sync::atomic::{AtomicBool, AtomicU64, AtomicUsize, Ordering};
use std::sync::mpsc::{channel, Receiver, RecvTimeoutError, Sender};
use std::sync::{Arc, Condvar, Mutex};
use std::time::{Duration, Instant};

// =====================================================================================
// Sequential part: the configuration as a value, its files, its marker table
// =====================================================================================

#[derive(Clone, Copy, Debug, Eq, PartialEq, Hash, Ord, PartialOrd)]
pub struct Files {
    a_added: bool,
    a_removed: bool,
    a_changed: bool,
    a_corrupt: bool,
    b_present: bool,
    /// zdir/20-b.zone is a symbolic link to a file that does not exist
    b_dangling: bool,
    c_present: bool,
    /// zdir/40-d.zone is a symbolic link to a valid zone file outside the directory
    d_link: bool,
    /// zdir/50-sub/ is a directory (holding a valid zone file that must not be loaded)
    z_subdir: bool,
    /// hdir/30.hosts is a symbolic link to a file that does not exist
    h3_dangling: bool,
    h_added: bool,
    h_removed: bool,
    h_changed: bool,
    h_corrupt: bool,
    h2_present: bool,
    /// the `-A` directory has been moved away
    hdir_gone: bool,
    /// the explicit `-z` file: 0 = there, 1 = deleted, 2 = replaced by a directory
    main: u8,
}

const BASE: Files = Files {
    a_added: false,
    a_removed: false,
    a_changed: false,
    a_corrupt: false,
    b_present: true,
    b_dangling: false,
    c_present: false,
    d_link: false,
    z_subdir: false,
    h3_dangling: false,
    h_added: false,
    h_removed: false,
    h_changed: false,
    h_corrupt: false,
    h2_present: false,
    hdir_gone: false,
    main: 0,
};

impl Files {
    fn valid(&self) -> bool {
        !self.a_corrupt && !self.h_corrupt && !self.hdir_gone && self.main == 0 && !self.b_dangling && !self.h3_dangling
    }
    fn to_json(&self) -> Value {
        json!({
            "zdir/10-a.zone": {"added": self.a_added, "removed": self.a_removed, "changed": self.a_changed, "corrupt": self.a_corrupt},
            "zdir/20-b.zone": (if self.b_dangling { "dangling symlink" } else if self.b_present { "file" } else { "absent" }),
            "zdir/40-d.zone -> ../elsewhere/d.zone": self.d_link,
            "zdir/50-sub/": self.z_subdir,
            "hdir/30.hosts -> (missing)": self.h3_dangling,
            "zdir/30-c.zone": self.c_present,
            "hdir/10.hosts": {"added": self.h_added, "removed": self.h_removed, "changed": self.h_changed, "corrupt": self.h_corrupt},
            "hdir/20.hosts": self.h2_present,
            "hdir": (if self.hdir_gone { "moved away" } else { "there" }),
            "main.zone": (["file", "deleted", "directory"][self.main as usize]),
        })
    }
}

fn soa(apex: &str) -> String {
    format!("$ORIGIN {apex}\n@ 60 IN SOA ns.{apex} admin.{apex} 1 3600 600 86400 60\n")
}

fn write_files(dir: &Path, f: &Files) -> Result<(), String> {
    let e = |x: std::io::Error| format!("writing configuration: {x}");
    let zdir = dir.join("zdir");
    let hdir = dir.join("hdir");
    std::fs::create_dir_all(&zdir).map_err(e)?;
    if f.hdir_gone {
        let _ = std::fs::remove_dir_all(&hdir);
    } else {
        std::fs::create_dir_all(&hdir).map_err(e)?;
    }
    // zdir/10-a.zone
    let mut a = soa("a.test.");
    a.push_str("keep 60 IN A 192.0.2.10\n");
    if f.a_added {
        a.push_str("added 60 IN A 192.0.2.101\n");
    }
    if !f.a_removed {
        a.push_str("removable 60 IN A 192.0.2.102\n");
    }
    a.push_str(if f.a_changed {
        "change 60 IN A 192.0.2.203\n"
    } else {
        "change 60 IN A 192.0.2.103\n"
    });
    if f.a_corrupt {
        a.push_str("broken 60 IN A not-an-address\n");
    }
    std::fs::write(zdir.join("10-a.zone"), a).map_err(e)?;
    // zdir/20-b.zone, zdir/30-c.zone
    let b = zdir.join("20-b.zone");
    // (a write through a dangling link would try to create its target: remove the entry first)
    let _ = std::fs::remove_file(&b);
    if f.b_dangling {
        std::os::unix::fs::symlink(dir.join("nowhere").join("missing.zone"), &b).map_err(e)?;
    } else if f.b_present {
        std::fs::write(&b, format!("{}www 60 IN A 192.0.2.110\n", soa("b.test."))).map_err(e)?;
    }
    // a valid zone file outside the directory, and possibly a link to it inside
    let elsewhere = dir.join("elsewhere");
    std::fs::create_dir_all(&elsewhere).map_err(e)?;
    std::fs::write(elsewhere.join("d.zone"), format!("{}www 60 IN A 192.0.2.170\n", soa("d.test."))).map_err(e)?;
    let d = zdir.join("40-d.zone");
    let _ = std::fs::remove_file(&d);
    if f.d_link {
        std::os::unix::fs::symlink(elsewhere.join("d.zone"), &d).map_err(e)?;
    }
    // a subdirectory: its content is not part of the configuration
    let sub = zdir.join("50-sub");
    if f.z_subdir {
        std::fs::create_dir_all(&sub).map_err(e)?;
        std::fs::write(sub.join("e.zone"), format!("{}www 60 IN A 192.0.2.180\n", soa("e.test."))).map_err(e)?;
    } else {
        let _ = std::fs::remove_dir_all(&sub);
    }
    let c = zdir.join("30-c.zone");
    if f.c_present {
        std::fs::write(&c, format!("{}www 60 IN A 192.0.2.120\n", soa("c.test."))).map_err(e)?;
    } else {
        let _ = std::fs::remove_file(&c);
    }
    if !f.hdir_gone {
        // hdir/10.hosts
        let mut h = String::from("192.0.2.130 keep.lan\n");
        if f.h_added {
            h.push_str("192.0.2.131 hadd.lan\n");
        }
        if !f.h_removed {
            h.push_str("192.0.2.132 hrem.lan\n");
        }
        h.push_str(if f.h_changed { "192.0.2.233 hchg.lan\n" } else { "192.0.2.133 hchg.lan\n" });
        if f.h_corrupt {
            h.push_str("999.1.1.1 bad.lan\n");
        }
        std::fs::write(hdir.join("10.hosts"), h).map_err(e)?;
        let h2 = hdir.join("20.hosts");
        if f.h2_present {
            std::fs::write(&h2, "192.0.2.140 h2.lan\n").map_err(e)?;
        } else {
            let _ = std::fs::remove_file(&h2);
        }
        let h3 = hdir.join("30.hosts");
        let _ = std::fs::remove_file(&h3);
        if f.h3_dangling {
            std::os::unix::fs::symlink(dir.join("nowhere").join("missing.hosts"), &h3).map_err(e)?;
        }
    }
    // explicit files
    let main = dir.join("main.zone");
    if main.is_dir() && f.main != 2 {
        let _ = std::fs::remove_dir_all(&main);
    }
    match f.main {
        0 => std::fs::write(&main, format!("{}www 60 IN A 192.0.2.150\n", soa("m.test."))).map_err(e)?,
        1 => {
            let _ = std::fs::remove_file(&main);
        }
        _ => {
            if main.is_file() {
                let _ = std::fs::remove_file(&main);
            }
            std::fs::create_dir_all(&main).map_err(e)?;
        }
    }
    std::fs::write(dir.join("main.hosts"), "192.0.2.160 mainh.lan\n").map_err(e)?;
    Ok(())
}

/// What a marker query must return: `Some(addr)` = NOERROR with exactly that A record,
/// `None` = no such data (NXDOMAIN inside a served zone, SERVFAIL outside: told apart by `in_zone`).
#[derive(Clone, Copy, Debug, Eq, PartialEq)]
struct MarkerExp {
    addr: Option<u8>,
    /// the name lies in a zone that is loaded (=> NXDOMAIN when absent), else nothing is
    /// known about it (=> SERVFAIL from an authoritative-only server)
    in_zone: bool,
}

const MARKERS: [&str; 16] = [
    "keep.a.test.",
    "added.a.test.",
    "removable.a.test.",
    "change.a.test.",
    "broken.a.test.",
    "www.b.test.",
    "www.c.test.",
    "www.d.test.",
    "www.e.test.",
    "www.m.test.",
    "keep.lan.",
    "hadd.lan.",
    "hrem.lan.",
    "hchg.lan.",
    "h2.lan.",
    "mainh.lan.",
];

/// The table: what each marker answers when `l` is the loaded configuration.
fn table(l: &Files) -> Vec<MarkerExp> {
    let z = |addr: Option<u8>| MarkerExp { addr, in_zone: true };
    let o = |addr: Option<u8>| MarkerExp { addr, in_zone: false };
    vec![
        z(Some(10)),
        z(if l.a_added { Some(101) } else { None }),
        z(if l.a_removed { None } else { Some(102) }),
        z(Some(if l.a_changed { 203 } else { 103 })),
        z(None),
        if l.b_present { z(Some(110)) } else { o(None) },
        if l.c_present { z(Some(120)) } else { o(None) },
        if l.d_link { z(Some(170)) } else { o(None) },
        o(None),
        z(Some(150)),
        o(Some(130)),
        o(if l.h_added { Some(131) } else { None }),
        o(if l.h_removed { None } else { Some(132) }),
        o(Some(if l.h_changed { 233 } else { 133 })),
        o(if l.h2_present { Some(140) } else { None }),
        o(Some(160)),
    ]
}

type Edit = (&'static str, fn(&Files) -> Option<Files>);

/// The edit alphabet.  An edit is applicable when it changes the files.
const EDITS: [Edit; 26] = [
    ("add a record to zdir/10-a.zone", |f| (!f.a_added).then(|| Files { a_added: true, ..*f })),
    ("remove a record from zdir/10-a.zone", |f| (!f.a_removed).then(|| Files { a_removed: true, ..*f })),
    ("change a record in zdir/10-a.zone", |f| Some(Files { a_changed: !f.a_changed, ..*f })),
    ("corrupt zdir/10-a.zone (bad RDATA)", |f| (!f.a_corrupt).then(|| Files { a_corrupt: true, ..*f })),
    ("repair zdir/10-a.zone", |f| f.a_corrupt.then(|| Files { a_corrupt: false, ..*f })),
    ("add zone file zdir/30-c.zone", |f| (!f.c_present).then(|| Files { c_present: true, ..*f })),
    ("remove zone file zdir/20-b.zone", |f| (f.b_present || f.b_dangling).then(|| Files { b_present: false, b_dangling: false, ..*f })),
    ("replace zdir/20-b.zone by a dangling symlink", |f| (!f.b_dangling).then(|| Files { b_present: false, b_dangling: true, ..*f })),
    ("restore zdir/20-b.zone as a regular file", |f| (!f.b_present).then(|| Files { b_present: true, b_dangling: false, ..*f })),
    ("add zdir/40-d.zone, a symlink to a valid zone file elsewhere", |f| (!f.d_link).then(|| Files { d_link: true, ..*f })),
    ("remove the symlink zdir/40-d.zone", |f| f.d_link.then(|| Files { d_link: false, ..*f })),
    ("add a subdirectory zdir/50-sub holding a zone file", |f| (!f.z_subdir).then(|| Files { z_subdir: true, ..*f })),
    ("remove the subdirectory zdir/50-sub", |f| f.z_subdir.then(|| Files { z_subdir: false, ..*f })),
    ("add an entry to hdir/10.hosts", |f| (!f.h_added).then(|| Files { h_added: true, ..*f })),
    ("remove an entry from hdir/10.hosts", |f| (!f.h_removed).then(|| Files { h_removed: true, ..*f })),
    ("change an entry in hdir/10.hosts", |f| Some(Files { h_changed: !f.h_changed, ..*f })),
    ("corrupt hdir/10.hosts (bad address with a name)", |f| (!f.h_corrupt).then(|| Files { h_corrupt: true, ..*f })),
    ("repair hdir/10.hosts", |f| f.h_corrupt.then(|| Files { h_corrupt: false, ..*f })),
    ("add hosts file hdir/20.hosts", |f| (!f.h2_present).then(|| Files { h2_present: true, ..*f })),
    ("add a dangling symlink hdir/30.hosts", |f| (!f.h3_dangling).then(|| Files { h3_dangling: true, ..*f })),
    ("remove the dangling symlink hdir/30.hosts", |f| f.h3_dangling.then(|| Files { h3_dangling: false, ..*f })),
    ("move the -A directory away", |f| (!f.hdir_gone).then(|| Files { hdir_gone: true, ..*f })),
    ("put the -A directory back", |f| f.hdir_gone.then(|| Files { hdir_gone: false, ..*f })),
    ("delete the explicit -z file", |f| (f.main != 1).then(|| Files { main: 1, ..*f })),
    ("replace the explicit -z file by a directory", |f| (f.main != 2).then(|| Files { main: 2, ..*f })),
    ("restore the explicit -z file", |f| (f.main != 0).then(|| Files { main: 0, ..*f })),
];

fn edit_by_name(name: &str) -> Option<Edit> {
    EDITS.iter().copied().find(|(n, _)| *n == name)
}

fn marker_queries(id0: u16) -> Vec<Vec<u8>> {
    marker_queries_with(id0, 0, 1)
}

const FLAG_RD: u16 = 0x0100;
/// last octet of the address the harness-run upstream gives for every name
const UPSTREAM_OCTET: u8 = 53;

fn marker_queries_with(id0: u16, flags: u16, qtype: u16) -> Vec<Vec<u8>> {
    MARKERS
        .iter()
        .enumerate()
        .map(|(i, n)| build_msg(id0 + i as u16, flags, &[q(n, qtype, 1)], &[], None))
        .collect()
}

/// `fits` for a server that forwards what it cannot answer locally: a name about which
/// nothing is configured is answered by the upstream (`A 192.0.2.53` for every name).
fn fits_fwd(exp: &MarkerExp, got: &Option<(u8, Vec<u8>)>) -> bool {
    match (exp.addr, exp.in_zone, got) {
        (None, false, Some((0, v))) => v.len() == 1 && v[0] == UPSTREAM_OCTET,
        (None, false, _) => false,
        _ => fits(exp, got),
    }
}

fn show_exp_fwd(e: &MarkerExp) -> String {
    match (e.addr, e.in_zone) {
        (None, false) => format!("the upstream's A 192.0.2.{UPSTREAM_OCTET}"),
        _ => show_exp(e),
    }
}

/// (rcode, last octets of the A records in the answer section), or None when no reply.
fn digest_reply(r: Option<&Vec<u8>>) -> Option<(u8, Vec<u8>)> {
    let r = r?;
    let m = refwire::decode(r).ok()?;
    let mut addrs: Vec<u8> = m
        .answers
        .iter()
        .filter_map(|rr| match rr.rtype_with_data {
            RecordTypeWithData::A { address } => Some(address.octets()[3]),
            _ => None,
        })
        .collect();
    addrs.sort();
    Some((u8::from(m.header.rcode), addrs))
}

fn fits(exp: &MarkerExp, got: &Option<(u8, Vec<u8>)>) -> bool {
    match (exp.addr, got) {
        (Some(a), Some((0, v))) => v.len() == 1 && v[0] == a,
        (None, Some((rc, v))) => v.is_empty() && *rc == if exp.in_zone { 3 } else { 2 },
        _ => false,
    }
}

fn show_got(got: &Option<(u8, Vec<u8>)>) -> String {
    match got {
        None => "no reply".into(),
        Some((rc, v)) => format!("rcode {rc}, A {:?}", v),
    }
}

fn show_exp(e: &MarkerExp) -> String {
    match e.addr {
        Some(a) => format!("A 192.0.2.{a}"),
        None => if e.in_zone { "NXDOMAIN".into() } else { "SERVFAIL (no data)".into() },
    }
}

struct SeqServer {
    dir: PathBuf,
    srv: Server,
    next_id: u16,
    /// the configuration in force, by the reference model
    loaded: Files,
    /// the server forwards to a harness-run upstream (default cache size); every
    /// marker is asked ANY and A with RD set before each reload, so that whatever
    /// such questions leave in the cache is there when the configuration changes
    fwd: Option<Forwarder>,
}

#[derive(Default)]
struct SeqStats {
    signals: u64,
    marker_queries: u64,
    during_queries: u64,
    findings: Vec<(String, String)>,
}

impl SeqServer {
    fn ids(&mut self) -> u16 {
        self.next_id = if self.next_id > 0xf000 { 1 } else { self.next_id + 32 };
        self.next_id
    }

    /// SIGUSR1, queries fired while the reload runs, the log line, then every marker.
    /// Returns the findings of this step.
    fn signal_and_check(&mut self, files: &Files, loaded: &mut Files, stats: &mut SeqStats, what: &str, full: bool) {
        let from = self.srv.log.len();
        let old = *loaded;
        let expect_ok = files.valid();
        if expect_ok {
            *loaded = *files;
        }
        let is_fwd = self.fwd.is_some();
        let flags = if is_fwd { FLAG_RD } else { 0 };
        let fit = |e: &MarkerExp, g: &Option<(u8, Vec<u8>)>| if is_fwd { fits_fwd(e, g) } else { fits(e, g) };
        let show = |e: &MarkerExp| if is_fwd { show_exp_fwd(e) } else { show_exp(e) };
        if is_fwd {
            // primers: ANY and A with RD set, answers not judged here
            let want = vec![true; MARKERS.len()];
            for qtype in [255u16, 1] {
                let id0 = self.ids();
                let qs = marker_queries_with(id0, FLAG_RD, qtype);
                let _ = udp_batch(self.srv.addr, &qs, &want, qs.len(), 1);
                stats.marker_queries += qs.len() as u64;
            }
        }
        self.srv.signal(libc::SIGUSR1);
        stats.signals += 1;
        // during: each marker must answer per the old or per the new table
        let want = vec![true; MARKERS.len()];
        if full {
            let id0 = self.ids();
            let qs = marker_queries_with(id0, flags, 1);
            let during = udp_batch(self.srv.addr, &qs, &want, qs.len(), 1);
            stats.during_queries += qs.len() as u64;
            let (t_old, t_new) = (table(&old), table(loaded));
            for (i, name) in MARKERS.iter().enumerate() {
                let got = digest_reply(during.replies[i].first());
                if !fit(&t_old[i], &got) && !fit(&t_new[i], &got) {
                    stats.findings.push((
                        "during-reload".into(),
                        format!("{what}: `{name} A` asked while the reload ran answered {}; old configuration says {}, new says {}", show_got(&got), show(&t_old[i]), show(&t_new[i])),
                    ));
                }
            }
        }
        match self.srv.log.wait_for(from, Duration::from_secs(20), |l| l.contains("done - success") || l.contains("done - failure")) {
            None => {
                stats.findings.push(("reload-log".into(), format!("{what}: no `done - ...` line within 20 s of SIGUSR1")));
                return;
            }
            Some((_, line)) => {
                let ok = line.contains("done - success");
                if ok != expect_ok {
                    stats.findings.push((
                        "reload-verdict".into(),
                        format!("{what}: the log says `{}` but {}", if ok { "done - success" } else { "done - failure" }, if expect_ok { "every file is valid" } else { "a file is invalid or unreadable" }),
                    ));
                }
            }
        }
        if !full {
            // a step already judged in full as the last step of a shorter sequence
            return;
        }
        let id0 = self.ids();
        let qs = marker_queries_with(id0, flags, 1);
        let after = udp_batch(self.srv.addr, &qs, &want, qs.len(), 1);
        stats.marker_queries += qs.len() as u64;
        if after.dead || !self.srv.alive() {
            stats.findings.push(("liveness".into(), format!("{what}: the server stopped answering ({})", self.srv.exit_status())));
            return;
        }
        let t = table(loaded);
        for (i, name) in MARKERS.iter().enumerate() {
            let got = digest_reply(after.replies[i].first());
            if !fit(&t[i], &got) {
                let clause = if expect_ok { "after-successful-reload" } else { "after-failed-reload" };
                stats.findings.push((
                    clause.into(),
                    format!("{what}: `{name} A` answered {}; the configuration in force says {}", show_got(&got), show(&t[i])),
                ));
            }
        }
    }

    /// Restore the base files, reload, verify.  False = the server cannot be brought back.
    fn reset(&mut self, stats: &mut SeqStats) -> bool {
        if write_files(&self.dir, &BASE).is_err() {
            return false;
        }
        let mut loaded = self.loaded;
        let before = stats.findings.len();
        self.signal_and_check(&BASE, &mut loaded, stats, "reset to the base files", true);
        self.loaded = loaded;
        stats.findings.len() == before
    }

    /// One edit sequence from the reset state.
    /// `last_only`: judge only the last step in full (the earlier steps are the last steps of
    /// shorter sequences explored before); their log verdicts are still checked.
    fn run_sequence(&mut self, edits: &[Edit], stats: &mut SeqStats, last_only: bool) -> Option<(Files, Files)> {
        if !self.reset(stats) {
            return None;
        }
        let mut files = BASE;
        let mut loaded = BASE;
        let mut done: Vec<&str> = Vec::new();
        for (k, (name, f)) in edits.iter().enumerate() {
            let Some(next) = f(&files) else {
                return None;
            };
            files = next;
            done.push(name);
            if write_files(&self.dir, &files).is_err() {
                return None;
            }
            let what = format!("after [{}] + SIGUSR1", done.join("; "));
            self.signal_and_check(&files, &mut loaded, stats, &what, !last_only || k + 1 == edits.len());
            self.loaded = loaded;
        }
        Some((files, loaded))
    }
}

fn start_seq_server(root: &Path, k: usize) -> Result<SeqServer, String> {
    start_seq_server_mode(root, k, false)
}

fn start_seq_server_mode(root: &Path, k: usize, forwarding: bool) -> Result<SeqServer, String> {
    let dir = root.join(format!("seq{}{k}", if forwarding { "f" } else { "" }));
    std::fs::create_dir_all(&dir).map_err(|e| format!("{e}"))?;
    write_files(&dir, &BASE)?;
    let fwd = if forwarding { Some(start_forwarder()?) } else { None };
    let mut args: Vec<String> = match &fwd {
        Some(f) => vec!["-f".into(), f.addr.to_string()],
        None => vec!["--authoritative-only".into(), "-s".into(), "1".into()],
    };
    args.extend([
        "-Z".into(),
        dir.join("zdir").display().to_string(),
        "-A".into(),
        dir.join("hdir").display().to_string(),
        "-z".into(),
        dir.join("main.zone").display().to_string(),
        "-a".into(),
        dir.join("main.hosts").display().to_string(),
    ]);
    let srv = Server::start(&args, &[], "info")?;
    Ok(SeqServer { dir, srv, next_id: 1, loaded: BASE, fwd })
}

// =====================================================================================
// Concurrent part: the gate controller
// =====================================================================================

const RELOAD_TAG: u32 = 0x1_0000;
const Q1_ID: u16 = 0x0101;
const Q2_ID: u16 = 0x0202;
/// A released task predicted to block on the zones lock is given this long to prove the
/// prediction wrong.
const QUIET: Duration = Duration::from_millis(120);
/// Any other awaited event.
const LONG: Duration = Duration::from_secs(6);

struct Arrival {
    gate: String,
    tag: u32,
    stream: UnixStream,
}

struct GateServer {
    dir: PathBuf,
    srv: Server,
    rx: Receiver<Arrival>,
    stop: Arc<AtomicBool>,
    sock_path: PathBuf,
}

impl Drop for GateServer {
    fn drop(&mut self) {
        self.stop.store(true, Ordering::SeqCst);
        // wake the accept loop
        let _ = UnixStream::connect(&self.sock_path);
    }
}

fn gate_zone_a(new: bool) -> String {
    if new {
        format!("{}x 200 IN CNAME y.b.test.\nstay 60 IN A 192.0.2.9\n", soa("a.test."))
    } else {
        format!("{}x 100 IN CNAME y.b.test.\nstay 60 IN A 192.0.2.9\ngone 60 IN A 192.0.2.8\n", soa("a.test."))
    }
}

fn gate_zone_b(new: bool) -> String {
    if new {
        format!("{}y 200 IN A 192.0.2.2\nfresh 60 IN A 192.0.2.7\n", soa("b.test."))
    } else {
        format!("{}y 100 IN A 192.0.2.1\n", soa("b.test."))
    }
}

/// variant: 0 = old, 1 = new (valid), 2 = new zones + a hosts file that does not parse
fn write_gate_files(dir: &Path, variant: u8) -> Result<(), String> {
    let e = |x: std::io::Error| format!("writing configuration: {x}");
    let zdir = dir.join("zdir");
    let hdir = dir.join("hdir");
    std::fs::create_dir_all(&zdir).map_err(e)?;
    std::fs::create_dir_all(&hdir).map_err(e)?;
    std::fs::write(zdir.join("10-a.zone"), gate_zone_a(variant != 0)).map_err(e)?;
    std::fs::write(zdir.join("20-b.zone"), gate_zone_b(variant != 0)).map_err(e)?;
    std::fs::write(
        hdir.join("10.hosts"),
        if variant == 2 { "192.0.2.130 keep.lan\n999.1.1.1 bad.lan\n" } else { "192.0.2.130 keep.lan\n" },
    )
    .map_err(e)?;
    Ok(())
}

fn start_gate_server(root: &Path, k: usize) -> Result<GateServer, String> {
    let dir = root.join(format!("g{k}"));
    std::fs::create_dir_all(&dir).map_err(|e| format!("{e}"))?;
    write_gate_files(&dir, 0)?;
    let sock_path = dir.join("gate.sock");
    let listener = UnixListener::bind(&sock_path).map_err(|e| format!("gate socket: {e}"))?;
    let (tx, rx) = channel::<Arrival>();
    let stop = Arc::new(AtomicBool::new(false));
    let stop2 = stop.clone();
    std::thread::spawn(move || {
        for conn in listener.incoming() {
            if stop2.load(Ordering::SeqCst) {
                break;
            }
            let Ok(stream) = conn else { continue };
            let _ = stream.set_read_timeout(Some(Duration::from_secs(2)));
            let mut line = String::new();
            let mut rd = BufReader::new(match stream.try_clone() {
                Ok(s) => s,
                Err(_) => continue,
            });
            if rd.read_line(&mut line).is_err() {
                continue;
            }
            let mut it = line.split_whitespace();
            if it.next() != Some("ARRIVE") {
                continue;
            }
            let gate = it.next().unwrap_or("").to_string();
            let tag = it.next().and_then(|t| t.parse::<u32>().ok()).unwrap_or(0);
            if tx.send(Arrival { gate, tag, stream }).is_err() {
                break;
            }
        }
    });
    let args: Vec<String> = vec![
        "--authoritative-only".into(),
        "-s".into(),
        "1".into(),
        "-Z".into(),
        dir.join("zdir").display().to_string(),
        "-A".into(),
        dir.join("hdir").display().to_string(),
    ];
    let envs = vec![("RESOLVED_VERIF_GATE".to_string(), sock_path.display().to_string())];
    let srv = Server::start(&args, &envs, "info")?;
    Ok(GateServer { dir, srv, rx, stop, sock_path })
}

fn go(a: Arrival) {
    let mut s = a.stream;
    let _ = s.write_all(b"GO\n");
}

#[derive(Clone, Copy, Debug, Eq, PartialEq, Hash, Ord, PartialOrd)]
pub enum Task {
    R,
    Q1,
    Q2,
}

impl Task {
    fn name(self) -> &'static str {
        match self {
            Task::R => "R",
            Task::Q1 => "Q1",
            Task::Q2 => "Q2",
        }
    }
    fn from_name(s: &str) -> Option<Task> {
        match s {
            "R" => Some(Task::R),
            "Q1" => Some(Task::Q1),
            "Q2" => Some(Task::Q2),
            _ => None,
        }
    }
    fn tag(self) -> u32 {
        match self {
            Task::R => RELOAD_TAG,
            Task::Q1 => u32::from(Q1_ID),
            Task::Q2 => u32::from(Q2_ID),
        }
    }
}

enum Pos {
    /// not started: releasing it sends the signal / the datagram
    Start,
    Parked(Arrival),
    /// released, next breakpoint not reached (yet)
    Running,
    Done,
}

struct TaskState {
    pos: Pos,
    sock: Option<UdpSocket>,
    /// Q2: breakpoints after `query.locked` are passed without asking the scheduler
    coarse: bool,
    reply: Option<Vec<u8>>,
    extra_replies: usize,
    // event clock values (0 = not happened)
    t_arrive: HashMap<String, u64>,
    t_release: HashMap<String, u64>,
    last_gate: String,
}

#[derive(Clone, Debug, Default)]
pub struct Trace {
    pub choices: Vec<Task>,
    pub enabled: Vec<Vec<Task>>,
    pub events: Vec<String>,
    pub replies: BTreeMap<&'static str, String>,
    pub verify: String,
    pub log_verdict: String,
    pub findings: Vec<(String, String)>,
    pub blocked_steps: u64,
    pub releases: u64,
    pub machinery: Option<String>,
}

impl Trace {
    fn signature(&self) -> String {
        format!("{:?}|{:?}|{:?}|{}|{}", self.choices, self.enabled, self.replies, self.verify, self.log_verdict)
    }
}

fn classify_reply(r: &[u8], id: u16) -> String {
    let Ok(m) = refwire::decode(r) else {
        return "unparseable".into();
    };
    if m.header.id != id {
        return format!("wrong id {:#06x}", m.header.id);
    }
    let mut cname_ttl = None;
    let mut a = None;
    for rr in &m.answers {
        match &rr.rtype_with_data {
            RecordTypeWithData::CNAME { .. } => cname_ttl = Some(rr.ttl),
            RecordTypeWithData::A { address } => a = Some((address.octets()[3], rr.ttl)),
            _ => {}
        }
    }
    match (m.answers.len(), cname_ttl, a) {
        (2, Some(100), Some((1, 100))) => "old".into(),
        (2, Some(200), Some((2, 200))) => "new".into(),
        _ => format!(
            "mixed/other: rcode {} answers {:?}",
            u8::from(m.header.rcode),
            m.answers.iter().map(|rr| format!("{} {} {:?}", rr.name.to_dotted_string(), rr.ttl, rr.rtype_with_data.rtype())).collect::<Vec<_>>()
        ),
    }
}

impl GateServer {
    /// Release every arrival at once until `until` says stop (used for reset and for the
    /// verification queries).  Returns the gates seen.
    fn auto<F: FnMut(&[String]) -> bool>(&mut self, mut until: F, timeout: Duration) -> Vec<String> {
        let deadline = Instant::now() + timeout;
        let mut seen: Vec<String> = Vec::new();
        loop {
            if until(&seen) {
                return seen;
            }
            let now = Instant::now();
            if now >= deadline {
                return seen;
            }
            match self.rx.recv_timeout((deadline - now).min(Duration::from_millis(20))) {
                Ok(a) => {
                    seen.push(format!("{}:{}", a.gate, a.tag));
                    go(a);
                }
                Err(RecvTimeoutError::Timeout) => {}
                Err(RecvTimeoutError::Disconnected) => return seen,
            }
        }
    }

    /// One query with every gate released at once.
    fn auto_query(&mut self, name: &str, id: u16) -> Option<Vec<u8>> {
        let sock = UdpSocket::bind((Ipv4Addr::LOCALHOST, 0)).ok()?;
        let _ = sock.connect(self.srv.addr);
        let _ = sock.set_nonblocking(true);
        let _ = sock.send(&build_msg(id, 0, &[q(name, 1, 1)], &[], None));
        let mut buf = [0u8; 1024];
        let mut got: Option<Vec<u8>> = None;
        self.auto(
            |_| {
                if let Ok(n) = sock.recv(&mut buf) {
                    got = Some(buf[..n].to_vec());
                }
                got.is_some()
            },
            LONG,
        );
        got
    }

    /// A second SIGUSR1 (announcing a second edit) while the first reload is parked at
    /// `park_at`: the first reload has read its files already, so only a second
    /// reload can make the second edit take effect.  old -> new (signal 1), then
    /// new -> old (signal 2 while parked); afterwards the old configuration must be
    /// in force again.  Err = machinery.
    fn second_signal(&mut self, park_at: &str) -> Result<Vec<(String, String)>, String> {
        let mut findings = Vec::new();
        self.reset()?;
        write_gate_files(&self.dir, 1)?;
        self.srv.signal(libc::SIGUSR1);
        let deadline = Instant::now() + LONG;
        let parked = loop {
            let now = Instant::now();
            if now >= deadline {
                return Err(format!("second-signal: the reload never reached {park_at}"));
            }
            match self.rx.recv_timeout(deadline - now) {
                Ok(a) if a.gate == park_at && a.tag == RELOAD_TAG => break a,
                Ok(a) => go(a),
                Err(RecvTimeoutError::Timeout) => {}
                Err(RecvTimeoutError::Disconnected) => return Err("second-signal: gate channel closed".into()),
            }
        };
        write_gate_files(&self.dir, 0)?;
        self.srv.signal(libc::SIGUSR1);
        // let the signal reach the process before the reload task moves on
        std::thread::sleep(Duration::from_millis(150));
        go(parked);
        // the first reload finishes; a second one must start and finish
        let seen = self.auto(
            |s| {
                let first_done = if park_at == "reload.done" { Some(0) } else { s.iter().position(|g| g.starts_with("reload.done")) };
                match first_done {
                    Some(i) => {
                        let rest = &s[i.min(s.len())..];
                        let sig = rest.iter().position(|g| g.starts_with("reload.signal"));
                        matches!(sig, Some(j) if rest[j..].iter().any(|g| g.starts_with("reload.done")))
                    }
                    None => false,
                }
            },
            LONG,
        );
        let second_started = {
            let from = if park_at == "reload.done" { 0 } else { seen.iter().position(|g| g.starts_with("reload.done")).map(|i| i + 1).unwrap_or(seen.len()) };
            seen[from.min(seen.len())..].iter().any(|g| g.starts_with("reload.signal"))
        };
        if !second_started {
            findings.push((
                "second-signal-lost".to_string(),
                format!("a SIGUSR1 delivered while the reload task was parked at {park_at} started no second reload within {LONG:?} (gates seen afterwards: {seen:?})"),
            ));
        }
        match self.auto_query("x.a.test.", 0x0e0e) {
            Some(r) if classify_reply(&r, 0x0e0e) == "old" => {}
            other => findings.push((
                "after-successful-reload".to_string(),
                format!(
                    "edit 1 + SIGUSR1, then (reload parked at {park_at}) edit 2 + SIGUSR1: the answer afterwards is {:?}, the files on disk say `old`",
                    other.map(|r| classify_reply(&r, 0x0e0e))
                ),
            )),
        }
        Ok(findings)
    }

    /// Bring the server to the old configuration with nothing parked.
    fn reset(&mut self) -> Result<(), String> {
        // drain anything left over
        self.auto(|_| false, Duration::from_millis(1));
        write_gate_files(&self.dir, 0)?;
        let from = self.srv.log.len();
        self.srv.signal(libc::SIGUSR1);
        let seen = self.auto(|s| s.iter().any(|g| g.starts_with("reload.done")), LONG);
        if !seen.iter().any(|g| g.starts_with("reload.done")) {
            return Err(format!("reset: the reload task did not reach reload.done (saw {seen:?})"));
        }
        if self.srv.log.wait_for(from, LONG, |l| l.contains("done - success")).is_none() {
            return Err("reset: no `done - success` line".into());
        }
        match self.auto_query("x.a.test.", 0x0f0f) {
            Some(r) if classify_reply(&r, 0x0f0f) == "old" => Ok(()),
            other => Err(format!("reset: the old configuration is not in force ({:?})", other.map(|r| classify_reply(&r, 0x0f0f)))),
        }
    }

    /// Run one schedule: `prefix` fixes the first choices, afterwards the first parked task
    /// (in the order R, Q1, Q2) is released.  `failing`: the reload must fail.
    fn run_schedule(&mut self, tasks: &[Task], failing: bool, prefix: &[Task]) -> Trace {
        let mut tr = Trace::default();
        if let Err(e) = self.reset() {
            tr.machinery = Some(e);
            return tr;
        }
        if let Err(e) = write_gate_files(&self.dir, if failing { 2 } else { 1 }) {
            tr.machinery = Some(e);
            return tr;
        }
        let log_from = self.srv.log.len();
        let mut clock: u64 = 0;
        let mut st: BTreeMap<Task, TaskState> = BTreeMap::new();
        for &t in tasks {
            let sock = if t == Task::R {
                None
            } else {
                let s = UdpSocket::bind((Ipv4Addr::LOCALHOST, 0)).ok();
                if let Some(s) = &s {
                    let _ = s.connect(self.srv.addr);
                    let _ = s.set_nonblocking(true);
                }
                s
            };
            st.insert(
                t,
                TaskState {
                    pos: Pos::Start,
                    sock,
                    coarse: t == Task::Q2,
                    reply: None,
                    extra_replies: 0,
                    t_arrive: HashMap::new(),
                    t_release: HashMap::new(),
                    last_gate: "start".into(),
                },
            );
        }
        let by_tag = |tag: u32| -> Option<Task> { tasks.iter().copied().find(|t| t.tag() == tag) };

        // --- helpers working on (st, tr, clock) ---------------------------------------
        // Take in one arrival.
        fn admit(st: &mut BTreeMap<Task, TaskState>, tr: &mut Trace, clock: &mut u64, t: Task, a: Arrival) {
            *clock += 1;
            let s = st.get_mut(&t).unwrap();
            s.t_arrive.insert(a.gate.clone(), *clock);
            s.last_gate = a.gate.clone();
            tr.events.push(format!("arrive {}@{}", t.name(), a.gate));
            if s.coarse && a.gate != "query.locked" {
                // coarse task: not a choice point
                *clock += 1;
                s.t_release.insert(a.gate.clone(), *clock);
                tr.events.push(format!("auto-release {}@{}", t.name(), a.gate));
                go(a);
                s.pos = Pos::Running;
            } else {
                s.pos = Pos::Parked(a);
            }
        }
        // Poll replies of running query tasks.
        fn poll_replies(st: &mut BTreeMap<Task, TaskState>, tr: &mut Trace, clock: &mut u64) {
            let mut buf = [0u8; 1024];
            for (t, s) in st.iter_mut() {
                if let Some(sock) = &s.sock {
                    while let Ok(n) = sock.recv(&mut buf) {
                        if s.reply.is_none() {
                            *clock += 1;
                            s.reply = Some(buf[..n].to_vec());
                            tr.events.push(format!("reply {}", t.name()));
                            if matches!(s.pos, Pos::Running) && s.t_release.contains_key("query.resolved") {
                                s.pos = Pos::Done;
                            }
                        } else {
                            s.extra_replies += 1;
                        }
                    }
                }
            }
        }

        let mut step = 0usize;
        loop {
            // take in whatever has arrived meanwhile
            while let Ok(a) = self.rx.try_recv() {
                match by_tag(a.tag) {
                    Some(t) => admit(&mut st, &mut tr, &mut clock, t, a),
                    None => {
                        tr.events.push(format!("foreign arrival {}:{} released", a.gate, a.tag));
                        go(a);
                    }
                }
            }
            poll_replies(&mut st, &mut tr, &mut clock);
            if st.values().all(|s| matches!(s.pos, Pos::Done)) {
                break;
            }
            let enabled: Vec<Task> = st
                .iter()
                .filter(|(_, s)| matches!(s.pos, Pos::Start | Pos::Parked(_)))
                .map(|(t, _)| *t)
                .collect();
            if enabled.is_empty() {
                // everything that is not done is running: wait for any of them
                let deadline = Instant::now() + LONG;
                let mut progressed = false;
                while Instant::now() < deadline && !progressed {
                    if let Ok(a) = self.rx.recv_timeout(Duration::from_millis(5)) {
                        if let Some(t) = by_tag(a.tag) {
                            admit(&mut st, &mut tr, &mut clock, t, a);
                        } else {
                            go(a);
                        }
                        progressed = true;
                    }
                    let before = st.values().filter(|s| matches!(s.pos, Pos::Done)).count();
                    poll_replies(&mut st, &mut tr, &mut clock);
                    if st.values().filter(|s| matches!(s.pos, Pos::Done)).count() > before {
                        progressed = true;
                    }
                }
                if !progressed {
                    let stuck: Vec<String> = st
                        .iter()
                        .filter(|(_, s)| !matches!(s.pos, Pos::Done))
                        .map(|(t, s)| format!("{} after {}", t.name(), s.last_gate))
                        .collect();
                    tr.findings.push(("deadlock".into(), format!("no task is parked and none completes within {LONG:?}: {stuck:?}")));
                    break;
                }
                continue;
            }
            let choice = if step < prefix.len() {
                if !enabled.contains(&prefix[step]) {
                    tr.machinery = Some(format!("schedule prefix asks for {} at step {step} but the parked tasks are {:?} (events {:?})", prefix[step].name(), enabled, tr.events));
                    break;
                }
                prefix[step]
            } else {
                enabled[0]
            };
            tr.choices.push(choice);
            tr.enabled.push(enabled.clone());
            step += 1;
            tr.releases += 1;

            // --- prediction (only to pick the waiting time; the classification is observed) ---
            let inside = |s: &TaskState| s.t_arrive.contains_key("query.locked") && !s.t_release.contains_key("query.resolved");
            let r_state = st.get(&Task::R);
            let r_wants = r_state.map_or(false, |s| s.t_release.contains_key("reload.want_lock") && !s.t_release.contains_key("reload.locked"));
            let from_gate = match &st[&choice].pos {
                Pos::Start => "start".to_string(),
                Pos::Parked(a) => a.gate.clone(),
                _ => String::new(),
            };
            let predicted_block = match choice {
                Task::R => from_gate == "reload.want_lock" && st.iter().any(|(t, s)| *t != Task::R && inside(s)),
                _ => from_gate == "start" && r_wants,
            };
            // --- release ---
            clock += 1;
            {
                let s = st.get_mut(&choice).unwrap();
                s.t_release.insert(from_gate.clone(), clock);
                tr.events.push(format!("release {}@{}", choice.name(), from_gate));
                match std::mem::replace(&mut s.pos, Pos::Running) {
                    Pos::Start => {
                        if choice == Task::R {
                            self.srv.signal(libc::SIGUSR1);
                        } else if let Some(sock) = &s.sock {
                            let id = choice.tag() as u16;
                            let _ = sock.send(&build_msg(id, 0, &[q("x.a.test.", 1, 1)], &[], None));
                        }
                    }
                    Pos::Parked(a) => {
                        let last = a.gate == "reload.done";
                        go(a);
                        if last {
                            s.pos = Pos::Done;
                        }
                    }
                    _ => {}
                }
            }
            // --- wait for the consequence ---
            let settled = |st: &BTreeMap<Task, TaskState>, t: Task| !matches!(st[&t].pos, Pos::Running);
            let deadline = Instant::now() + if predicted_block { QUIET } else { LONG };
            while !settled(&st, choice) && Instant::now() < deadline {
                if let Ok(a) = self.rx.recv_timeout(Duration::from_millis(2)) {
                    match by_tag(a.tag) {
                        Some(t) => admit(&mut st, &mut tr, &mut clock, t, a),
                        None => go(a),
                    }
                }
                poll_replies(&mut st, &mut tr, &mut clock);
            }
            if !settled(&st, choice) {
                tr.blocked_steps += 1;
                tr.events.push(format!("blocked {}{}", choice.name(), if predicted_block { "" } else { " (not predicted)" }));
            } else if predicted_block {
                tr.events.push(format!("not blocked {} (predicted to block)", choice.name()));
            }
            // Tasks that were blocked and, by the driver's bookkeeping, can go on now: give them
            // time to show up (again only a waiting policy; what happens is what is recorded).
            loop {
                let inside_any = st.iter().any(|(t, s)| *t != Task::R && inside(s));
                let r_waiting = st.get(&Task::R).map_or(false, |s| {
                    matches!(s.pos, Pos::Running) && s.t_release.contains_key("reload.want_lock") && !s.t_arrive.contains_key("reload.locked")
                });
                let r_holds_or_waits = st.get(&Task::R).map_or(false, |s| s.t_release.contains_key("reload.want_lock") && !s.t_release.contains_key("reload.locked"));
                let mut due: Vec<Task> = Vec::new();
                if r_waiting && !inside_any {
                    due.push(Task::R);
                }
                for (t, s) in &st {
                    if *t != Task::R && matches!(s.pos, Pos::Running) && s.t_release.contains_key("start") && !s.t_arrive.contains_key("query.locked") && !r_holds_or_waits {
                        due.push(*t);
                    }
                }
                if due.is_empty() {
                    break;
                }
                let deadline = Instant::now() + LONG;
                let pending = |st: &BTreeMap<Task, TaskState>| due.iter().all(|t| !settled(st, *t));
                while pending(&st) && Instant::now() < deadline {
                    if let Ok(a) = self.rx.recv_timeout(Duration::from_millis(2)) {
                        match by_tag(a.tag) {
                            Some(t) => admit(&mut st, &mut tr, &mut clock, t, a),
                            None => go(a),
                        }
                    }
                    poll_replies(&mut st, &mut tr, &mut clock);
                }
                if pending(&st) {
                    tr.events.push(format!("still blocked although the lock looks free: {:?}", due.iter().map(|t| t.name()).collect::<Vec<_>>()));
                    break;
                }
            }
            if step > 64 {
                tr.machinery = Some("schedule longer than 64 steps".into());
                break;
            }
        }

        // release anything still parked so that the server is usable again
        for s in st.values_mut() {
            if let Pos::Parked(a) = std::mem::replace(&mut s.pos, Pos::Done) {
                go(a);
            }
        }
        if tr.machinery.is_some() {
            self.auto(|_| false, Duration::from_millis(200));
            return tr;
        }

        // --- oracle ---
        std::thread::sleep(Duration::from_millis(3));
        poll_replies(&mut st, &mut tr, &mut clock);
        let line = self.srv.log.wait_for(log_from, LONG, |l| l.contains("done - success") || l.contains("done - failure"));
        tr.log_verdict = match &line {
            Some((_, l)) if l.contains("done - success") => "success".into(),
            Some(_) => "failure".into(),
            None => "none".into(),
        };
        let want_verdict = if failing { "failure" } else { "success" };
        if tr.log_verdict != want_verdict && tasks.contains(&Task::R) {
            tr.findings.push(("reload-verdict".into(), format!("the log says `{}`, expected `{want_verdict}`", tr.log_verdict)));
        }
        let r = st.get(&Task::R);
        let r_arrive_locked = r.and_then(|s| s.t_arrive.get("reload.locked").copied());
        let r_release_locked = r.and_then(|s| s.t_release.get("reload.locked").copied());
        for (t, s) in &st {
            if *t == Task::R {
                continue;
            }
            let class = match &s.reply {
                None => "no reply".to_string(),
                Some(rp) => classify_reply(rp, t.tag() as u16),
            };
            tr.replies.insert(t.name(), class.clone());
            if s.reply.is_none() {
                tr.findings.push(("query-unanswered".into(), format!("{} got no reply although every breakpoint was released", t.name())));
                continue;
            }
            if s.extra_replies > 0 {
                tr.findings.push(("query-answered-twice".into(), format!("{} got {} replies", t.name(), 1 + s.extra_replies)));
            }
            if class != "old" && class != "new" {
                tr.findings.push(("mixed-answer".into(), format!("{} was answered neither entirely from the old nor entirely from the new configuration: {class}", t.name())));
                continue;
            }
            let q_locked = s.t_arrive.get("query.locked").copied().unwrap_or(0);
            let q_resolved = s.t_arrive.get("query.resolved").copied().unwrap_or(0);
            if failing {
                if class != "old" {
                    tr.findings.push(("failed-reload-took-effect".into(), format!("{} was answered from the new files although the reload must fail", t.name())));
                }
                continue;
            }
            if let Some(ral) = r_arrive_locked {
                if q_locked > ral && class != "new" {
                    tr.findings.push(("stale-after-swap".into(), format!("{} took the read lock after the reload held the write lock, but was answered from the old configuration", t.name())));
                }
            }
            let before_swap = match r_release_locked {
                None => true,
                Some(rrl) => q_resolved != 0 && q_resolved < rrl,
            };
            if before_swap && class != "old" {
                tr.findings.push(("new-before-swap".into(), format!("{} finished resolving before the reload was let past reload.locked, but was answered from the new configuration", t.name())));
            }
        }
        // afterwards the configuration in force is the new one (or still the old one)
        let gone = self.auto_query("gone.a.test.", 0x0e01).and_then(|r| digest_reply(Some(&r)));
        let fresh = self.auto_query("fresh.b.test.", 0x0e02).and_then(|r| digest_reply(Some(&r)));
        let after = self.auto_query("x.a.test.", 0x0e03).map(|r| classify_reply(&r, 0x0e03));
        tr.verify = format!("gone={} fresh={} x={:?}", show_got(&gone), show_got(&fresh), after);
        let want_new = !failing && tasks.contains(&Task::R);
        let ok = if want_new {
            gone == Some((3, vec![])) && fresh == Some((0, vec![7])) && after.as_deref() == Some("new")
        } else {
            gone == Some((0, vec![8])) && fresh == Some((3, vec![])) && after.as_deref() == Some("old")
        };
        if !ok {
            tr.findings.push((
                if want_new { "after-successful-reload" } else { "after-failed-reload" }.into(),
                format!("after the schedule: {} (expected the {} configuration, whole)", tr.verify, if want_new { "new" } else { "old" }),
            ));
        }
        if !self.srv.alive() {
            tr.findings.push(("liveness".into(), format!("server gone: {}", self.srv.exit_status())));
        }
        tr
    }
}

// =====================================================================================
// Exploration
// =====================================================================================

#[derive(Clone, Debug)]
struct GateJob {
    tasks: Vec<Task>,
    failing: bool,
    prefix: Vec<Task>,
}

fn job_name(tasks: &[Task], failing: bool) -> String {
    format!(
        "{}{}",
        tasks.iter().map(|t| t.name()).collect::<Vec<_>>().join(" || "),
        if failing { " (reload must fail)" } else { "" }
    )
}

#[derive(Default)]
struct GateTotals {
    schedules: u64,
    releases: u64,
    blocked: u64,
    nondeterministic: u64,
    replayed: u64,
    reordered: u64,
    hist: BTreeMap<String, u64>,
    violations: Vec<Violation>,
    samples: Vec<Value>,
    machinery: Vec<String>,
    traces: BTreeSet<String>,
}

fn gate_violation(job: &GateJob, tr: &Trace, clause: &str, text: &str) -> Violation {
    Violation {
        clause: clause.to_string(),
        summary: format!(
            "[gate {}] schedule {}: {text}",
            job_name(&job.tasks, job.failing),
            tr.choices.iter().map(|t| t.name()).collect::<Vec<_>>().join(" "),
        ),
        replay: json!({
            "part": "gate",
            "tasks": job.tasks.iter().map(|t| t.name()).collect::<Vec<_>>(),
            "failing": job.failing,
            "choices": tr.choices.iter().map(|t| t.name()).collect::<Vec<_>>(),
            "events": tr.events,
        }),
        slug: None,
    }
}

/// Stateless DFS over release choices, spread over the gate servers.
fn explore_gates(servers: &mut [GateServer], roots: Vec<GateJob>, deadline: Instant, exhaustive: &mut bool) -> GateTotals {
    let queue: Mutex<VecDeque<GateJob>> = Mutex::new(roots.into_iter().collect());
    let in_flight = AtomicUsize::new(0);
    let totals = Mutex::new(GateTotals::default());
    let capped = AtomicBool::new(false);
    std::thread::scope(|s| {
        for gs in servers.iter_mut() {
            s.spawn(|| loop {
                let job = {
                    let mut qg = queue.lock().unwrap();
                    match qg.pop_back() {
                        Some(j) => {
                            in_flight.fetch_add(1, Ordering::SeqCst);
                            Some(j)
                        }
                        None => None,
                    }
                };
                let Some(job) = job else {
                    if in_flight.load(Ordering::SeqCst) == 0 {
                        break;
                    }
                    std::thread::sleep(Duration::from_millis(2));
                    continue;
                };
                if Instant::now() > deadline {
                    capped.store(true, Ordering::SeqCst);
                    in_flight.fetch_sub(1, Ordering::SeqCst);
                    continue;
                }
                let tr = gs.run_schedule(&job.tasks, job.failing, &job.prefix);
                // children: every alternative at every step at or after the prefix
                let mut children = Vec::new();
                if tr.machinery.is_none() {
                    for i in job.prefix.len()..tr.choices.len() {
                        for alt in &tr.enabled[i] {
                            if *alt != tr.choices[i] {
                                let mut p = tr.choices[..i].to_vec();
                                p.push(*alt);
                                children.push(GateJob { tasks: job.tasks.clone(), failing: job.failing, prefix: p });
                            }
                        }
                    }
                }
                queue.lock().unwrap().extend(children);
                // replay once: same choices must give the same observation
                let again = if tr.machinery.is_none() { Some(gs.run_schedule(&job.tasks, job.failing, &tr.choices)) } else { None };
                let mut t = totals.lock().unwrap();
                if let Some(m) = &tr.machinery {
                    t.machinery.push(format!("{}: {m}", job_name(&job.tasks, job.failing)));
                } else {
                    t.schedules += 1;
                    t.releases += tr.releases;
                    t.blocked += tr.blocked_steps;
                    t.traces.insert(format!("{}|{}", job_name(&job.tasks, job.failing), tr.signature()));
                    let key = format!(
                        "gate/{}/{}",
                        job_name(&job.tasks, job.failing),
                        tr.replies.iter().map(|(k, v)| format!("{k}={}", if v == "old" || v == "new" { v.as_str() } else { "other" })).collect::<Vec<_>>().join(",")
                    );
                    *t.hist.entry(key).or_insert(0) += 1;
                    if tr.blocked_steps > 0 {
                        *t.hist.entry(format!("gate/{}/schedules with a release that blocked on the lock", job_name(&job.tasks, job.failing))).or_insert(0) += 1;
                    }
                    for (c, text) in &tr.findings {
                        let v = gate_violation(&job, &tr, c, text);
                        t.violations.push(v);
                    }
                    if let Some(a) = again {
                        t.replayed += 1;
                        if let Some(m) = &a.machinery {
                            t.nondeterministic += 1;
                            t.machinery.push(format!("replay of {:?}: {m}", tr.choices));
                        } else if a.signature() != tr.signature() {
                            t.nondeterministic += 1;
                            if t.machinery.len() < 5 {
                                t.machinery.push(format!("replay differs: first {} / second {}", tr.signature(), a.signature()));
                            }
                        }
                    }
                    if t.samples.len() < 3 && (tr.blocked_steps > 0 || t.samples.is_empty()) {
                        t.samples.push(json!({"part": "gate", "tasks": job_name(&job.tasks, job.failing), "events": tr.events, "replies": tr.replies, "afterwards": tr.verify}));
                    }
                }
                drop(t);
                in_flight.fetch_sub(1, Ordering::SeqCst);
            });
        }
    });
    if capped.load(Ordering::SeqCst) {
        *exhaustive = false;
    }
    totals.into_inner().unwrap()
}

fn seq_violation(edits: &[&str], forwarding: bool, clause: &str, text: &str) -> Violation {
    Violation {
        clause: clause.to_string(),
        summary: format!("[sequential{}] {text}", if forwarding { ", forwarding mode" } else { "" }),
        replay: json!({"part": "sequential", "forwarding": forwarding, "edits": edits}),
        slug: None,
    }
}

pub fn run(ctx: &Ctx) -> i32 {
    let root = work_dir("c19");
    let _guard = DirGuard(root.clone());
    let n_seq = ctx.tier.pick(4usize, 8);
    let n_gate = ctx.tier.pick(6usize, 8);
    // all processes are started from this (long-lived) thread
    let mut seq_servers: Vec<SeqServer> = Vec::new();
    for k in 0..n_seq {
        match start_seq_server(&root, k) {
            Ok(s) => seq_servers.push(s),
            Err(e) => {
                eprintln!("C19: machinery error: {e}");
                return 2;
            }
        }
    }
    // forwarding-mode servers (harness-run upstream, default cache size): the same
    // sequences up to depth 2, with ANY / A questions before every reload
    let n_fwd = ctx.tier.pick(2usize, 4);
    for k in 0..n_fwd {
        match start_seq_server_mode(&root, k, true) {
            Ok(s) => seq_servers.push(s),
            Err(e) => {
                eprintln!("C19: machinery error: {e}");
                return 2;
            }
        }
    }
    let fwd_sequences = AtomicU64::new(0);
    let mut gate_servers: Vec<GateServer> = Vec::new();
    for k in 0..n_gate {
        match start_gate_server(&root, k) {
            Ok(s) => gate_servers.push(s),
            Err(e) => {
                eprintln!("C19: machinery error: {e}");
                return 2;
            }
        }
    }
    let seq_deadline = ctx.start + Duration::from_secs_f64(ctx.tier.pick(90.0, 900.0));
    let gate_deadline = ctx.start + Duration::from_secs_f64(ctx.tier.pick(90.0, 900.0));
    let mut report = Report::new();
    let sink = Sink::new(6);

    // ---- sequential space -------------------------------------------------------------
    // quick: every sequence of <= 2 applicable edits from the base.  thorough: breadth-first
    // to depth 3, one representative sequence per (files, loaded) state; whatever time is left
    // goes into sequences of length 4 (beyond the stated bound, reported separately, never
    // counted as exhaustive).
    let bound_depth = ctx.tier.pick(2usize, 3);
    let max_depth = ctx.tier.pick(2usize, 4);
    let beyond = AtomicU64::new(0);
    let beyond_cut = AtomicBool::new(false);
    let dedup = ctx.tier == Tier::Thorough;
    let seq_states: Mutex<BTreeSet<(Files, Files)>> = Mutex::new(BTreeSet::new());
    seq_states.lock().unwrap().insert((BASE, BASE));
    let seq_hist: Mutex<BTreeMap<String, u64>> = Mutex::new(BTreeMap::new());
    let seq_counts = (AtomicU64::new(0), AtomicU64::new(0), AtomicU64::new(0), AtomicU64::new(0)); // sequences, signals, marker queries, during queries
    let seq_samples: Mutex<Vec<Value>> = Mutex::new(Vec::new());
    let seq_capped = AtomicBool::new(false);
    let seq_dead = AtomicBool::new(false);

    let mut gate_exhaustive = true;
    let mut gate_totals = GateTotals::default();
    std::thread::scope(|outer| {
        // gate exploration runs beside the sequential one
        let gate_handle = outer.spawn(|| {
            let mut roots = vec![
                GateJob { tasks: vec![Task::R, Task::Q1], failing: false, prefix: vec![] },
                GateJob { tasks: vec![Task::R, Task::Q1], failing: true, prefix: vec![] },
            ];
            if ctx.tier == Tier::Thorough {
                // pushed first = explored last (the queue is a stack)
                roots.insert(0, GateJob { tasks: vec![Task::R, Task::Q1, Task::Q2], failing: false, prefix: vec![] });
                roots.insert(1, GateJob { tasks: vec![Task::R, Task::Q1, Task::Q2], failing: true, prefix: vec![] });
            }
            let mut ex = true;
            // a second signal at every gate of a running reload
            let mut second: Vec<Violation> = Vec::new();
            let mut second_runs = 0u64;
            for park_at in ["reload.signal", "reload.want_lock", "reload.locked", "reload.done"] {
                match gate_servers[0].second_signal(park_at) {
                    Ok(f) => {
                        second_runs += 1;
                        for (c, t) in f {
                            second.push(Violation {
                                clause: c,
                                summary: format!("[gate, two signals] {t}"),
                                replay: json!({"part": "second-signal", "park_at": park_at}),
                                slug: None,
                            });
                        }
                    }
                    Err(e) => {
                        eprintln!("C19: machinery error: {e}");
                        ex = false;
                    }
                }
            }
            let mut t = explore_gates(&mut gate_servers, roots, gate_deadline, &mut ex);
            t.violations.extend(second);
            t.schedules += second_runs;
            (t, ex)
        });

        let mut frontier: Vec<Vec<Edit>> = vec![vec![]];
        for depth in 1..=max_depth {
            // candidate sequences of this depth
            let mut cands: Vec<Vec<Edit>> = Vec::new();
            for pfx in &frontier {
                let mut f = BASE;
                for (_, e) in pfx {
                    f = e(&f).unwrap_or(f);
                }
                for ed in EDITS.iter() {
                    if (ed.1)(&f).is_some() {
                        let mut s = pfx.clone();
                        s.push(*ed);
                        cands.push(s);
                    }
                }
            }
            let next = AtomicUsize::new(0);
            let next_fwd = AtomicUsize::new(0);
            let results: Mutex<Vec<(usize, Option<(Files, Files)>)>> = Mutex::new(Vec::new());
            std::thread::scope(|s| {
                for srv in seq_servers.iter_mut() {
                    s.spawn(|| loop {
                        let is_fwd = srv.fwd.is_some();
                        if is_fwd && depth > 2 {
                            break;
                        }
                        let i = if is_fwd { next_fwd.fetch_add(1, Ordering::Relaxed) } else { next.fetch_add(1, Ordering::Relaxed) };
                        if i >= cands.len() {
                            break;
                        }
                        if Instant::now() > seq_deadline {
                            if depth <= bound_depth {
                                seq_capped.store(true, Ordering::SeqCst);
                            } else {
                                beyond_cut.store(true, Ordering::SeqCst);
                            }
                            break;
                        }
                        if depth > bound_depth {
                            beyond.fetch_add(1, Ordering::Relaxed);
                        }
                        let mut stats = SeqStats::default();
                        let end = srv.run_sequence(&cands[i], &mut stats, dedup && cands[i].len() > 2);
                        seq_counts.0.fetch_add(1, Ordering::Relaxed);
                        seq_counts.1.fetch_add(stats.signals, Ordering::Relaxed);
                        seq_counts.2.fetch_add(stats.marker_queries, Ordering::Relaxed);
                        seq_counts.3.fetch_add(stats.during_queries, Ordering::Relaxed);
                        let names: Vec<&str> = cands[i].iter().map(|(n, _)| *n).collect();
                        for (c, text) in &stats.findings {
                            sink.push(seq_violation(&names, is_fwd, c, text));
                            if c == "liveness" {
                                seq_dead.store(true, Ordering::SeqCst);
                            }
                        }
                        if is_fwd {
                            fwd_sequences.fetch_add(1, Ordering::Relaxed);
                            if let Some((files, _)) = end {
                                let key = format!(
                                    "sequential, forwarding mode/depth {}/last reload {}",
                                    names.len(),
                                    if files.valid() { "succeeds" } else { "fails (old configuration kept)" }
                                );
                                *seq_hist.lock().unwrap().entry(key).or_insert(0) += 1;
                            }
                            continue;
                        }
                        if let Some((files, loaded)) = end {
                            let key = format!(
                                "sequential/depth {}{}/last reload {}",
                                names.len(),
                                if names.len() > bound_depth { " (beyond the bound, as far as time allowed)" } else { "" },
                                if files.valid() { "succeeds" } else { "fails (old configuration kept)" }
                            );
                            *seq_hist.lock().unwrap().entry(key).or_insert(0) += 1;
                            let mut sm = seq_samples.lock().unwrap();
                            if sm.len() < 3 && !files.valid() && names.len() == depth {
                                sm.push(json!({"part": "sequential", "edits": names, "files": files.to_json(), "loaded": loaded.to_json()}));
                            }
                        }
                        results.lock().unwrap().push((i, end));
                    });
                }
            });
            let mut results = results.into_inner().unwrap();
            results.sort_by_key(|(i, _)| *i);
            let mut new_frontier: Vec<Vec<Edit>> = Vec::new();
            let mut states = seq_states.lock().unwrap();
            for (i, end) in results {
                if let Some(st) = end {
                    let fresh = states.insert(st);
                    if fresh || !dedup {
                        new_frontier.push(cands[i].clone());
                    }
                }
            }
            drop(states);
            frontier = new_frontier;
            if seq_capped.load(Ordering::SeqCst) || seq_dead.load(Ordering::SeqCst) {
                break;
            }
        }
        if let Ok((t, ex)) = gate_handle.join() {
            gate_totals = t;
            gate_exhaustive = ex;
        }
    });

    let n_states = seq_states.lock().unwrap().len() as u64;
    let sequences = seq_counts.0.load(Ordering::Relaxed);
    let signals = seq_counts.1.load(Ordering::Relaxed);
    let marker_q = seq_counts.2.load(Ordering::Relaxed);
    let during_q = seq_counts.3.load(Ordering::Relaxed);
    for v in gate_totals.violations.drain(..) {
        sink.push(v);
    }
    // liveness of every process at the end
    for s in seq_servers.iter_mut() {
        if !s.srv.alive() {
            sink.push(seq_violation(&[], s.fwd.is_some(), "liveness", &format!("a server process is gone at the end of the run: {}", s.srv.exit_status())));
        }
    }
    for g in gate_servers.iter_mut() {
        if !g.srv.alive() {
            sink.push(Violation {
                clause: "liveness".into(),
                summary: format!("[gate] a server process is gone at the end of the run: {}", g.srv.exit_status()),
                replay: json!({"part": "gate", "tasks": ["R", "Q1"], "failing": false, "choices": []}),
                slug: None,
            });
        }
    }
    drop(seq_servers);
    drop(gate_servers);

    report.evaluations = sequences + gate_totals.schedules;
    report.states = n_states + gate_totals.traces.len() as u64;
    report.transitions = signals + gate_totals.releases;
    report.traces_validated = sequences + gate_totals.schedules + gate_totals.replayed;
    let failing_seqs: u64 = seq_hist.lock().unwrap().iter().filter(|(k, _)| k.contains("fails")).map(|(_, v)| *v).sum();
    report.distinct_nontrivial = failing_seqs + gate_totals.hist.iter().filter(|(k, _)| k.contains("blocked on the lock")).map(|(_, v)| *v).sum::<u64>();
    report.rule = "sequential: every edit sequence from the reset state (quick: all of length <= 2; thorough: breadth-first to depth 3 keeping one sequence per distinct (files, loaded) state, then sequences of length 4 for as long as the budget lasts, reported separately; from depth 3 on the earlier steps of a sequence, already judged as last steps of shorter sequences, are only checked for their log verdict), SIGUSR1 and all marker queries after every edit; non-trivial = sequences whose last reload must fail (the old configuration has to survive). gate: every schedule of release choices (stateless DFS, each schedule run twice); non-trivial = schedules in which a released task was observed to block on the zones lock (the two critical sections were actually contended)".into();
    report.merge_hist(&seq_hist.lock().unwrap());
    report.merge_hist(&gate_totals.hist);
    report.samples = seq_samples.lock().unwrap().clone();
    report.samples.extend(gate_totals.samples.clone());
    report.exhaustive = gate_exhaustive && !seq_capped.load(Ordering::SeqCst);
    report.bounds = json!({
        "edit_alphabet": EDITS.iter().map(|(n, _)| *n).collect::<Vec<_>>(),
        "max_sequence_length": bound_depth,
        "sequences_of_length_4_run_beyond_the_bound": beyond.load(Ordering::Relaxed),
        "length_4_pass_cut_by_the_clock": beyond_cut.load(Ordering::Relaxed),
        "dedup_on_files_and_loaded": dedup,
        "marker_names": MARKERS,
        "distinct_files_loaded_states": n_states,
        "edit_sequences_run": sequences,
        "sigusr1_sent": signals,
        "marker_queries_after_reload": marker_q,
        "marker_queries_during_reload_not_exhaustive": during_q,
        "gate_task_sets": if ctx.tier == Tier::Thorough { vec!["R || Q1", "R || Q1 (failing)", "R || Q1 || Q2(coarse)", "R || Q1 || Q2(coarse) (failing)"] } else { vec!["R || Q1", "R || Q1 (failing)"] },
        "gate_breakpoints": {"R": ["start (SIGUSR1 sent)", "reload.signal", "reload.want_lock", "reload.locked", "reload.done"], "Q": ["start (datagram sent)", "query.locked", "local.lookup", "local.lookup", "query.resolved"], "Q2": "start and query.locked only; later breakpoints pass unscheduled"},
        "gate_schedules": gate_totals.schedules,
        "gate_schedules_replayed": gate_totals.replayed,
        "gate_releases": gate_totals.releases,
        "gate_releases_observed_blocking": gate_totals.blocked,
        "gate_replays_that_differed": gate_totals.nondeterministic,
        "quiet_period_ms": QUIET.as_millis() as u64,
        "sequential_cap_hit": seq_capped.load(Ordering::SeqCst),
        "gate_cap_hit": !gate_exhaustive,
    });
    report.assumptions = vec![
        "the tokio scheduler is controlled only at the breakpoints; between two breakpoints a task runs unobserved".into(),
        "a task released while the lock it needs is (by the driver's bookkeeping) taken gets 120 ms to reach its next breakpoint before it is classified blocked; every other awaited event gets 6 s; late arrivals join the parked set".into(),
        "queries fired between SIGUSR1 and the log line observe whatever schedule happens (not exhaustive; a disagreement is still a violation)".into(),
        "all servers run --authoritative-only with -s 1".into(),
    ];
    report.violations = sink.take();
    report.extra.insert("violation_counts".into(), json!(sink.counts()));
    if !gate_totals.machinery.is_empty() {
        report.extra.insert("machinery_notes".into(), json!(gate_totals.machinery.iter().take(5).collect::<Vec<_>>()));
    }
    let machinery_failed = (gate_totals.schedules == 0 || gate_totals.nondeterministic > 0 || !gate_totals.machinery.is_empty()) && report.violations.is_empty();
    if machinery_failed {
        for m in gate_totals.machinery.iter().take(5) {
            eprintln!("C19: machinery: {m}");
        }
        eprintln!("C19: machinery error: {} schedules, {} replays differed, {} machinery notes", gate_totals.schedules, gate_totals.nondeterministic, gate_totals.machinery.len());
        let _ = finish(ctx, report);
        return 2;
    }
    finish(ctx, report)
}

pub fn replay(_ctx: &Ctx, v: &Value) -> i32 {
    let root = work_dir("c19");
    let _guard = DirGuard(root.clone());
    let mut bad = false;
    if v["part"].as_str() == Some("second-signal") {
        let park_at = v["park_at"].as_str().unwrap_or("reload.want_lock").to_string();
        let mut gs = match start_gate_server(&root, 0) {
            Ok(g) => g,
            Err(e) => {
                eprintln!("C19: machinery error: {e}");
                return 2;
            }
        };
        match gs.second_signal(&park_at) {
            Ok(f) => {
                println!("C19 replay: second SIGUSR1 while the reload is parked at {park_at}");
                for (c, t) in &f {
                    println!("  MISMATCH {c}: {t}");
                    bad = true;
                }
            }
            Err(e) => {
                eprintln!("C19: machinery error: {e}");
                return 2;
            }
        }
    } else if v["part"].as_str() == Some("gate") {
        let tasks: Vec<Task> = v["tasks"].as_array().cloned().unwrap_or_default().iter().filter_map(|t| Task::from_name(t.as_str().unwrap_or(""))).collect();
        let choices: Vec<Task> = v["choices"].as_array().cloned().unwrap_or_default().iter().filter_map(|t| Task::from_name(t.as_str().unwrap_or(""))).collect();
        let failing = v["failing"].as_bool().unwrap_or(false);
        let mut gs = match start_gate_server(&root, 0) {
            Ok(g) => g,
            Err(e) => {
                eprintln!("C19: machinery error: {e}");
                return 2;
            }
        };
        let tr = gs.run_schedule(&tasks, failing, &choices);
        println!("C19 replay: gate schedule for {}", job_name(&tasks, failing));
        for e in &tr.events {
            println!("  {e}");
        }
        println!("  log verdict: {}; replies: {:?}; afterwards: {}", tr.log_verdict, tr.replies, tr.verify);
        println!("  reference: every reply entirely old or entirely new (new once the reload held the write lock before the query's read lock, old if the query resolved before the reload passed reload.locked{})", if failing { "; the reload must fail, so everything stays old" } else { "" });
        if let Some(m) = &tr.machinery {
            eprintln!("C19: machinery error: {m}");
            return 2;
        }
        for (c, t) in &tr.findings {
            println!("  MISMATCH {c}: {t}");
            bad = true;
        }
    } else {
        let names: Vec<String> = v["edits"].as_array().cloned().unwrap_or_default().iter().map(|e| e.as_str().unwrap_or("").to_string()).collect();
        let edits: Vec<Edit> = names.iter().filter_map(|n| edit_by_name(n)).collect();
        if edits.len() != names.len() {
            eprintln!("C19: replay file names an unknown edit");
            return 2;
        }
        let mut srv = match start_seq_server_mode(&root, 0, v["forwarding"].as_bool().unwrap_or(false)) {
            Ok(s) => s,
            Err(e) => {
                eprintln!("C19: machinery error: {e}");
                return 2;
            }
        };
        let mut stats = SeqStats::default();
        let end = srv.run_sequence(&edits, &mut stats, false);
        println!("C19 replay: edits {names:?}, SIGUSR1 after each");
        if let Some((files, loaded)) = end {
            println!("  reference: files = {}", files.to_json());
            println!("  reference: in force = {}", loaded.to_json());
        }
        for (c, t) in &stats.findings {
            println!("  MISMATCH {c}: {t}");
            bad = true;
        }
        if stats.findings.is_empty() {
            println!("  server: log verdicts and all {} marker answers agree with the table after each of the {} reloads", MARKERS.len(), stats.signals);
        }
    }
    if bad {
        println!("VIOLATION property=C19 replay=(replayed case)");
        1
    } else {
        println!("holds on the replayed case");
        0
    }
}

/// Entry point for `vcheck worker C19 <args...>` (child-process mode): unused.
pub fn worker(_args: &[String]) -> i32 {
    2
}
