#![allow(dead_code, unused_imports, clippy::all)]
//! vcheck — bounded-exhaustive checks of barrucadu/resolved (see /verif/DESIGN.md).
//!
//! usage: vcheck <ID> [--tier quick|thorough] [--replay <file>]
//! exit 0: property held on everything explored; 1: violation; 2: machinery error.

mod c02;
mod common;
mod refwire;
mod refzone;
mod util;

use common::{Ctx, Tier};
use std::path::PathBuf;
use std::time::Instant;

fn main() {
    let args: Vec<String> = std::env::args().collect();
    if args.len() < 2 {
        eprintln!("usage: vcheck <ID> [--tier quick|thorough] [--replay <file>]");
        std::process::exit(2);
    }
    let id_arg = args[1].to_uppercase();
    let mut tier = match std::env::var("VERIF_TIER").ok().as_deref() {
        Some("thorough") => Tier::Thorough,
        _ => Tier::Quick,
    };
    let mut replay: Option<PathBuf> = None;
    let mut rest: Vec<String> = Vec::new();
    let mut i = 2;
    while i < args.len() {
        match args[i].as_str() {
            "--tier" => {
                i += 1;
                tier = match args.get(i).map(String::as_str) {
                    Some("quick") => Tier::Quick,
                    Some("thorough") => Tier::Thorough,
                    other => {
                        eprintln!("bad tier {other:?}");
                        std::process::exit(2);
                    }
                };
            }
            "--replay" => {
                i += 1;
                replay = args.get(i).map(PathBuf::from);
            }
            other => rest.push(other.to_string()),
        }
        i += 1;
    }
    let seed = std::env::var("VERIF_SEED")
        .ok()
        .and_then(|s| s.parse::<i64>().ok())
        .map(|v| v as u64)
        .unwrap_or(0);
    let threads = std::env::var("VERIF_THREADS")
        .ok()
        .and_then(|s| s.parse::<usize>().ok())
        .unwrap_or_else(|| {
            std::thread::available_parallelism()
                .map(|n| n.get())
                .unwrap_or(4)
                .min(16)
        });

    let id: &'static str = match id_arg.as_str() {
        "C02" => "C02",
        other => {
            eprintln!("unknown check {other}");
            std::process::exit(2);
        }
    };
    let ctx = Ctx {
        id,
        tier,
        seed,
        start: Instant::now(),
        threads,
    };
    let _ = rest;

    let code = if let Some(path) = replay {
        let v = common::read_replay(&path);
        match id {
            "C02" => c02::replay(&ctx, &v),
            _ => 2,
        }
    } else {
        match id {
            "C02" => c02::run(&ctx),
            _ => 2,
        }
    };
    std::process::exit(code);
}
