#![allow(dead_code, unused_imports, clippy::all)]
//! vcheck — bounded-exhaustive checks of barrucadu/resolved (see /verif/DESIGN.md).
//!
//! usage: vcheck <ID> [--tier quick|thorough] [--replay <file>]
//!        vcheck worker <ID> <args...>      (child-process mode used by some checks)
//! exit 0: property held on everything explored; 1: violation; 2: machinery error.

mod c01;
mod c02;
mod c03;
mod c04;
mod c05;
mod c06;
mod c07;
mod c08;
mod c09;
mod c10;
mod c11;
mod c12;
mod c13;
mod c14;
mod c15;
mod c16;
mod c17;
mod c18;
mod c19;
mod c05net;
mod c08real;
mod cachemodel;
mod common;
mod procpar;
mod net;
mod ugen;
mod refwire;
mod refzone;
mod util;

use common::{Ctx, Tier};
use std::path::PathBuf;
use std::time::Instant;

fn main() {
    let args: Vec<String> = std::env::args().collect();
    if args.len() < 2 {
        eprintln!("usage: vcheck <ID> [--tier quick|thorough] [--replay <file>]");
        std::process::exit(2);
    }
    if args[1] == "worker" {
        if args.len() < 3 {
            std::process::exit(2);
        }
        let code = match args[2].to_uppercase().as_str() {
            "C01" => c01::worker(&args[3..]),
            "C02" => c02::worker(&args[3..]),
            "C03" => c03::worker(&args[3..]),
            "C04" => c04::worker(&args[3..]),
            "C05" => c05::worker(&args[3..]),
            "C06" => c06::worker(&args[3..]),
            "C07" => c07::worker(&args[3..]),
            "C08" => c08::worker(&args[3..]),
            "C09" => c09::worker(&args[3..]),
            "C10" => c10::worker(&args[3..]),
            "C11" => c11::worker(&args[3..]),
            "C12" => c12::worker(&args[3..]),
            "C13" => c13::worker(&args[3..]),
            "C14" => c14::worker(&args[3..]),
            "C15" => c15::worker(&args[3..]),
            "C16" => c16::worker(&args[3..]),
            "C17" => c17::worker(&args[3..]),
            "C18" => c18::worker(&args[3..]),
            "C19" => c19::worker(&args[3..]),
            _ => 2,
        };
        std::process::exit(code);
    }
    let id_arg = args[1].to_uppercase();
    let mut tier = match std::env::var("VERIF_TIER").ok().as_deref() {
        Some("thorough") => Tier::Thorough,
        _ => Tier::Quick,
    };
    let mut replay: Option<PathBuf> = None;
    let mut i = 2;
    while i < args.len() {
        match args[i].as_str() {
            "--tier" => {
                i += 1;
                tier = match args.get(i).map(String::as_str) {
                    Some("quick") => Tier::Quick,
                    Some("thorough") => Tier::Thorough,
                    other => {
                        eprintln!("bad tier {other:?}");
                        std::process::exit(2);
                    }
                };
            }
            "--replay" => {
                i += 1;
                replay = args.get(i).map(PathBuf::from);
            }
            other => {
                eprintln!("unknown argument {other}");
                std::process::exit(2);
            }
        }
        i += 1;
    }
    let seed = std::env::var("VERIF_SEED")
        .ok()
        .and_then(|s| s.parse::<i64>().ok())
        .map(|v| v as u64)
        .unwrap_or(0);
    let threads = std::env::var("VERIF_THREADS")
        .ok()
        .and_then(|s| s.parse::<usize>().ok())
        .unwrap_or_else(|| {
            std::thread::available_parallelism()
                .map(|n| n.get())
                .unwrap_or(4)
                .min(16)
        });

    let id: &'static str = match id_arg.as_str() {
        "C01" => "C01",
        "C02" => "C02",
        "C03" => "C03",
        "C04" => "C04",
        "C05" => "C05",
        "C06" => "C06",
        "C07" => "C07",
        "C08" => "C08",
        "C09" => "C09",
        "C10" => "C10",
        "C11" => "C11",
        "C12" => "C12",
        "C13" => "C13",
        "C14" => "C14",
        "C15" => "C15",
        "C16" => "C16",
        "C17" => "C17",
        "C18" => "C18",
        "C19" => "C19",
        other => {
            eprintln!("unknown check {other}");
            std::process::exit(2);
        }
    };
    let ctx = Ctx {
        id,
        tier,
        seed,
        start: Instant::now(),
        threads,
    };

    let code = if let Some(path) = replay {
        let v = common::read_replay(&path);
        match id {
            "C01" => c01::replay(&ctx, &v),
            "C02" => c02::replay(&ctx, &v),
            "C03" => c03::replay(&ctx, &v),
            "C04" => c04::replay(&ctx, &v),
            "C05" => c05::replay(&ctx, &v),
            "C06" => c06::replay(&ctx, &v),
            "C07" => c07::replay(&ctx, &v),
            "C08" => c08::replay(&ctx, &v),
            "C09" => c09::replay(&ctx, &v),
            "C10" => c10::replay(&ctx, &v),
            "C11" => c11::replay(&ctx, &v),
            "C12" => c12::replay(&ctx, &v),
            "C13" => c13::replay(&ctx, &v),
            "C14" => c14::replay(&ctx, &v),
            "C15" => c15::replay(&ctx, &v),
            "C16" => c16::replay(&ctx, &v),
            "C17" => c17::replay(&ctx, &v),
            "C18" => c18::replay(&ctx, &v),
            "C19" => c19::replay(&ctx, &v),
            _ => 2,
        }
    } else {
        match id {
            "C01" => c01::run(&ctx),
            "C02" => c02::run(&ctx),
            "C03" => c03::run(&ctx),
            "C04" => c04::run(&ctx),
            "C05" => c05::run(&ctx),
            "C06" => c06::run(&ctx),
            "C07" => c07::run(&ctx),
            "C08" => c08::run(&ctx),
            "C09" => c09::run(&ctx),
            "C10" => c10::run(&ctx),
            "C11" => c11::run(&ctx),
            "C12" => c12::run(&ctx),
            "C13" => c13::run(&ctx),
            "C14" => c14::run(&ctx),
            "C15" => c15::run(&ctx),
            "C16" => c16::run(&ctx),
            "C17" => c17::run(&ctx),
            "C18" => c18::run(&ctx),
            "C19" => c19::run(&ctx),
            _ => 2,
        }
    };
    std::process::exit(code);
}
