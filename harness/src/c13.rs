//! C13 — writing a zone to text and reading it back changes nothing.
//!
//! z1 = parse(t) (or a zone built through the insertion API), t2 =
//! serialise(z1), z2 = parse(t2): z2 must denote the same zone as z1 (apex,
//! SOA, records, wildcard records, TTLs — compared as sorted dumps so that
//! HashMap/Vec order can never raise an alarm) and serialise(z2) must be t2
//! again; the `ztoz` binary must map t to t2 and t2 to t2.

use crate::c02::{name_from_wire, wire_name};
use crate::common::*;
use crate::util::*;
use crate::c11::zonegen::*;
use dns_types::protocol::types::*;
use dns_types::zones::types::{Zone, SOA};
use serde_json::{json, Value};
use std::collections::{BTreeMap, BTreeSet};
use std::io::Write;
use std::process::{Command, Stdio};

pub const SLUG_LONE_AT: &str = "lone-at-label";

/// The 13 special octets of DESIGN C13.
const SPECIALS: [u8; 13] = [b'"', b'\\', b';', b'(', b')', b' ', b'\t', b'@', b'*', b'$', b'#', b'\n', 0];

fn ztoz_path() -> String {
    std::env::var("VERIF_ZTOZ")
        .unwrap_or_else(|_| crate::common::bin_dir().join("ztoz").display().to_string())
}

// ---------------------------------------------------------------------------
// observation helpers
// ---------------------------------------------------------------------------

fn parse(text: &str) -> Result<Result<Zone, String>, ()> {
    std::panic::catch_unwind(|| Zone::deserialise(text).map_err(|e| format!("{e:?}"))).map_err(|_| ())
}

fn serialise(z: &Zone) -> Result<String, ()> {
    std::panic::catch_unwind(std::panic::AssertUnwindSafe(|| z.serialise())).map_err(|_| ())
}

/// Lines sorted inside every blank-line-separated block: `Zone::serialise`
/// prints the record types of one name in HashMap order, which differs from
/// map to map and from process to process; the order carries no meaning.
fn canonical(text: &str) -> String {
    let mut out = String::new();
    let mut block: Vec<&str> = Vec::new();
    for line in text.split('\n') {
        if line.is_empty() {
            block.sort_unstable();
            for l in block.drain(..) {
                out.push_str(l);
                out.push('\n');
            }
            out.push('\n');
        } else {
            block.push(line);
        }
    }
    block.sort_unstable();
    for l in block {
        out.push_str(l);
        out.push('\n');
    }
    out
}

/// True when no name of the zone holds two record types in one map (SOA
/// aside), i.e. when `serialise` has only one possible output.
fn single_order(z: &Zone) -> bool {
    for (_, zrs) in z.all_records() {
        let mut types = BTreeSet::new();
        for zr in zrs {
            let t = zr.rtype_with_data.rtype();
            if t != RecordType::SOA {
                types.insert(u16::from(t));
            }
        }
        if types.len() > 1 {
            return false;
        }
    }
    for (_, zrs) in z.all_wildcard_records() {
        let mut types = BTreeSet::new();
        for zr in zrs {
            types.insert(u16::from(zr.rtype_with_data.rtype()));
        }
        if types.len() > 1 {
            return false;
        }
    }
    true
}

fn short(text: &str) -> String {
    let mut s = String::new();
    for c in text.chars() {
        match c {
            '\n' => s.push_str("\\n"),
            '\t' => s.push_str("\\t"),
            '\0' => s.push_str("\\0"),
            c => s.push(c),
        }
    }
    s
}

/// What the dump of z1 becomes if every name that is exactly the label `@`
/// under the apex is read back as the apex itself (the anticipated defect).
fn lone_at_reading(d: &Dump) -> Option<Dump> {
    if d.soa.is_none() || d.apex == "." {
        return None;
    }
    let needle = format!("@.{}", d.apex);
    let fix = |line: &String| -> String {
        line.split(' ')
            .map(|tok| if tok == needle { d.apex.clone() } else { tok.to_string() })
            .collect::<Vec<_>>()
            .join(" ")
    };
    let mut any = false;
    let mut conv = |v: &Vec<String>| -> Vec<String> {
        let mut o: Vec<String> = v
            .iter()
            .map(|l| {
                let f = fix(l);
                any |= f != *l;
                f
            })
            .collect();
        o.sort();
        o.dedup();
        o
    };
    let recs = conv(&d.recs);
    let wild = conv(&d.wild);
    let soa = d.soa.as_ref().map(&fix);
    any |= soa != d.soa;
    if !any {
        return None;
    }
    Some(Dump {
        apex: d.apex.clone(),
        soa,
        recs,
        wild,
    })
}

#[derive(Default)]
struct Acc {
    cases: u64,
    calls: u64,
    validated: u64,
    hist: BTreeMap<String, u64>,
    /// hash of canonical(t2), lowest bit = non-trivial
    hashes: Vec<u64>,
    samples: Vec<Value>,
    vcount: BTreeMap<String, u64>,
}

impl Acc {
    fn h(&mut self, k: &str) {
        *self.hist.entry(k.to_string()).or_insert(0) += 1;
    }
}

fn violate(acc: &mut Acc, sink: &Sink, clause: &str, slug: Option<&'static str>, summary: String, replay: Value) {
    let n = acc.vcount.entry(format!("{clause}|{}", slug.unwrap_or(""))).or_insert(0);
    *n += 1;
    if *n > 10 {
        return;
    }
    sink.push(Violation {
        clause: clause.to_string(),
        summary,
        replay,
        slug,
    });
}

/// The round trip from a zone value.  `origin` describes the input for
/// messages and the replay file.
fn round_trip(acc: &mut Acc, sink: &Sink, space: &str, z1: &Zone, shown: &str, replay: &Value) {
    let d1 = dump_zone(z1);
    acc.calls += 1;
    let t2 = match serialise(z1) {
        Ok(t) => t,
        Err(()) => {
            violate(acc, sink, "panic", None, format!("{shown} [{space}]: Zone::serialise panicked"), replay.clone());
            return;
        }
    };
    let nontrivial = t2.contains('\\') || t2.contains('@') || t2.contains("*.") || t2.contains('"');
    acc.hashes.push((fnv64(canonical(&t2).as_bytes()) & !1) | u64::from(nontrivial));
    acc.calls += 1;
    let z2 = match parse(&t2) {
        Err(()) => {
            violate(acc, sink, "panic", None, format!("{shown} [{space}]: parsing the serialised zone panicked: {}", short(&t2)), replay.clone());
            return;
        }
        Ok(Err(e)) => {
            acc.h(&format!("{space}:VIOLATION-reparse-fails"));
            violate(
                acc,
                sink,
                "serialised-zone-does-not-parse",
                None,
                format!("{shown} [{space}]: serialised as {} which is rejected: {e}", short(&t2)),
                replay.clone(),
            );
            return;
        }
        Ok(Ok(z)) => z,
    };
    acc.validated += 1;
    let d2 = dump_zone(&z2);
    if d2 != d1 {
        let part = if d1.apex != d2.apex {
            "apex"
        } else if d1.soa != d2.soa {
            "soa"
        } else if d1.recs != d2.recs {
            "records"
        } else {
            "wildcard-records"
        };
        let slug = match lone_at_reading(&d1) {
            Some(alt) if alt == d2 => Some(SLUG_LONE_AT),
            _ => None,
        };
        let clause = if slug.is_some() { "lone-at-label-read-as-apex".to_string() } else { format!("zone-changed:{part}") };
        acc.h(&format!("{space}:VIOLATION-{clause}"));
        violate(
            acc,
            sink,
            &clause,
            slug,
            format!(
                "{shown} [{space}]: zone {} is written as {} and read back as {}",
                d1.to_json(),
                short(&t2),
                d2.to_json()
            ),
            replay.clone(),
        );
        return;
    }
    if z2 != *z1 {
        // same meaning, different internal layout: not part of the statement
        acc.h("same-dump-but-structural-eq-differs");
    }
    acc.calls += 1;
    let t3 = match serialise(&z2) {
        Ok(t) => t,
        Err(()) => {
            violate(acc, sink, "panic", None, format!("{shown} [{space}]: second serialise panicked"), replay.clone());
            return;
        }
    };
    let single = single_order(z1);
    if canonical(&t3) != canonical(&t2) {
        acc.h(&format!("{space}:VIOLATION-not-idempotent"));
        violate(
            acc,
            sink,
            "second-normalisation-differs",
            None,
            format!("{shown} [{space}]: first output {} second output {}", short(&t2), short(&t3)),
            replay.clone(),
        );
        return;
    }
    if single {
        if t3 != t2 {
            violate(
                acc,
                sink,
                "second-normalisation-differs-bytewise",
                None,
                format!("{shown} [{space}]: first output {} second output {}", short(&t2), short(&t3)),
                replay.clone(),
            );
            return;
        }
        acc.h(&format!("{space}:ok-bytewise"));
    } else {
        acc.h(&format!("{space}:ok-up-to-line-order-within-a-name"));
    }
    if acc.samples.len() < 2 && acc.cases % 4099 == 7 {
        acc.samples.push(json!({"space": space, "input": shown, "serialised": t2}));
    }
}

fn check_text(acc: &mut Acc, sink: &Sink, space: &str, text: &str) {
    acc.cases += 1;
    acc.calls += 1;
    let replay = json!({"kind": "roundtrip-text", "space": space, "text": text});
    match parse(text) {
        Err(()) => violate(acc, sink, "panic", None, format!("{} [{space}]: Zone::deserialise panicked", short(text)), replay),
        Ok(Err(_)) => acc.h(&format!("{space}:input-not-a-zone")),
        Ok(Ok(z1)) => round_trip(acc, sink, space, &z1, &short(text), &replay),
    }
}

// ---------------------------------------------------------------------------
// zones built through the insertion API
// ---------------------------------------------------------------------------

#[derive(Clone)]
struct ApiRec {
    owner: DomainName,
    wild: bool,
    data: RecordTypeWithData,
    ttl: u32,
}

#[derive(Clone)]
struct ApiZone {
    apex: DomainName,
    soa: Option<SOA>,
    recs: Vec<ApiRec>,
}

impl ApiZone {
    fn build(&self) -> Zone {
        let mut z = Zone::new(self.apex.clone(), self.soa.clone());
        for r in &self.recs {
            if r.wild {
                z.insert_wildcard(&r.owner, r.data.clone(), r.ttl);
            } else {
                z.insert(&r.owner, r.data.clone(), r.ttl);
            }
        }
        z
    }
    fn to_json(&self) -> Value {
        json!({
            "kind": "roundtrip-api",
            "apex": hex(&wire_name(&self.apex)),
            "apex_text": show_name(&self.apex),
            "soa": self.soa.as_ref().map(|s| hex(&crate::refwire::encode_rdata_with_type(&s.to_rdata()))),
            "records": self.recs.iter().map(|r| json!({
                "owner": hex(&wire_name(&r.owner)),
                "owner_text": show_name(&r.owner),
                "wildcard": r.wild,
                "ttl": r.ttl,
                "data": show_data(&r.data),
                "rr_wire": hex(&crate::refwire::encode_rdata_with_type(&r.data)),
            })).collect::<Vec<_>>(),
        })
    }
    fn from_json(v: &Value) -> Option<ApiZone> {
        let apex = name_from_wire(&unhex(v["apex"].as_str()?));
        let soa = match v["soa"].as_str() {
            Some(h) => match crate::refwire::decode_rdata_with_type(&unhex(h))? {
                RecordTypeWithData::SOA { mname, rname, serial, refresh, retry, expire, minimum } => Some(SOA {
                    mname,
                    rname,
                    serial,
                    refresh,
                    retry,
                    expire,
                    minimum,
                }),
                _ => return None,
            },
            None => None,
        };
        let mut recs = Vec::new();
        for r in v["records"].as_array()? {
            recs.push(ApiRec {
                owner: name_from_wire(&unhex(r["owner"].as_str()?)),
                wild: r["wildcard"].as_bool()?,
                data: crate::refwire::decode_rdata_with_type(&unhex(r["rr_wire"].as_str()?))?,
                ttl: r["ttl"].as_u64()? as u32,
            });
        }
        Some(ApiZone { apex, soa, recs })
    }
    fn shown(&self) -> String {
        format!(
            "Zone::new({}, {}) + {}",
            show_name(&self.apex),
            match &self.soa {
                Some(s) => show_data(&s.to_rdata()),
                None => "no SOA".to_string(),
            },
            self.recs
                .iter()
                .map(|r| format!("{}{} {} {}", if r.wild { "*." } else { "" }, show_name(&r.owner), r.ttl, show_data(&r.data)))
                .collect::<Vec<_>>()
                .join(" + ")
        )
    }
}

fn check_api(acc: &mut Acc, sink: &Sink, space: &str, az: &ApiZone) {
    acc.cases += 1;
    let z1 = match std::panic::catch_unwind(|| az.build()) {
        Ok(z) => z,
        Err(_) => {
            violate(acc, sink, "panic", None, format!("{} [{space}]: building the zone panicked", az.shown()), az.to_json());
            return;
        }
    };
    round_trip(acc, sink, space, &z1, &az.shown(), &az.to_json());
}

fn std_soa(apex: &DomainName, minimum: u32) -> SOA {
    SOA {
        mname: prepend(b"ns1", apex),
        rname: prepend(b"admin", apex),
        serial: 1,
        refresh: 7200,
        retry: 600,
        expire: 3600000,
        minimum,
    }
}

/// Labels holding octet `b` alone, first, in the middle, last.
/// Labels that spell a word of the zone-file syntax (control entries, class
/// and type mnemonics, numbers): written relative to the apex they stand
/// where the reader expects that syntax.
const KEYWORD_LABELS: [&[u8]; 14] = [
    b"$origin", b"$include", b"$ttl", b"$generate", b"in", b"ch", b"a", b"ns", b"soa", b"cname", b"txt", b"300", b"0",
    b"4294967295",
];

fn labels_with(b: u8) -> Vec<Vec<u8>> {
    vec![vec![b], vec![b, b'x', b'y'], vec![b'x', b, b'y'], vec![b'x', b'y', b]]
}

/// The three kinds of zone: (apex, authoritative)
fn zone_kinds() -> Vec<(DomainName, bool)> {
    vec![(dn("ex."), true), (dn("."), false), (dn("."), true)]
}

fn api_corpus(level: u8) -> Vec<(&'static str, ApiZone)> {
    let mut out: Vec<(&'static str, ApiZone)> = Vec::new();
    let mk = |apex: &DomainName, auth: bool, recs: Vec<ApiRec>| ApiZone {
        apex: apex.clone(),
        soa: if auth { Some(std_soa(apex, 60)) } else { None },
        recs,
    };
    let a_rec = |owner: DomainName, wild: bool| ApiRec { owner, wild, data: a([10, 0, 0, 1]), ttl: 300 };
    // (1) every ASCII octet except `.` in a label, four positions, four roles
    let mut label_sets: Vec<Vec<u8>> = Vec::new();
    for b in 0u8..128 {
        if b == b'.' {
            continue;
        }
        for l in labels_with(b) {
            if l[0] == b'*' {
                continue; // outside the statement (labels do not start with `*`)
            }
            label_sets.push(l);
        }
    }
    for k in KEYWORD_LABELS {
        label_sets.push(k.to_vec());
    }
    // (2) ordered pairs of the special octets
    for x in SPECIALS {
        for y in SPECIALS {
            if x == b'*' {
                continue;
            }
            label_sets.push(vec![x, y]);
            label_sets.push(vec![b'a', x, y, b'z']);
        }
    }
    for l in &label_sets {
        for (apex, auth) in zone_kinds() {
            let name = prepend(l, &apex);
            // owner (relative to the apex when the zone is authoritative and not the root)
            out.push(("api-label-owner", mk(&apex, auth, vec![a_rec(name.clone(), false)])));
            out.push(("api-label-wildcard-owner", mk(&apex, auth, vec![a_rec(name.clone(), true)])));
            // two labels deep, the swept label not leftmost
            out.push(("api-label-owner", mk(&apex, auth, vec![a_rec(prepend(b"www", &name), false)])));
            // inside RDATA names
            out.push((
                "api-label-rdata",
                mk(
                    &apex,
                    auth,
                    vec![
                        ApiRec { owner: prepend(b"www", &apex), wild: false, data: cname(&name), ttl: 300 },
                        ApiRec { owner: apex.clone(), wild: false, data: mx(10, &name), ttl: 300 },
                    ],
                ),
            ));
            if auth {
                // SOA mname / rname
                let mut z = mk(&apex, true, vec![]);
                if let Some(s) = &mut z.soa {
                    s.mname = name.clone();
                    s.rname = prepend(b"admin", &name);
                }
                out.push(("api-label-rdata", z));
                // as the apex label itself
                let apex2 = name.clone();
                out.push((
                    "api-label-apex",
                    mk(&apex2, true, vec![a_rec(apex2.clone(), false), a_rec(prepend(b"www", &apex2), false)]),
                ));
            }
        }
    }
    // (3) every octet in opaque RDATA, four positions, four types
    for b in 0u16..256 {
        let b = b as u8;
        for content in labels_with(b) {
            for (apex, auth) in zone_kinds().into_iter().take(if level >= 2 { 3 } else { 1 }) {
                let o = bytes::Bytes::copy_from_slice(&content);
                let recs = vec![
                    ApiRec { owner: prepend(b"t", &apex), wild: false, data: RecordTypeWithData::TXT { octets: o.clone() }, ttl: 300 },
                    ApiRec { owner: prepend(b"h", &apex), wild: false, data: RecordTypeWithData::HINFO { octets: o.clone() }, ttl: 300 },
                    ApiRec { owner: prepend(b"n", &apex), wild: true, data: RecordTypeWithData::NULL { octets: o.clone() }, ttl: 300 },
                    ApiRec { owner: apex.clone(), wild: false, data: RecordTypeWithData::WKS { octets: o.clone() }, ttl: 300 },
                ];
                out.push(("api-octet-rdata", mk(&apex, auth, recs)));
            }
        }
    }
    for x in SPECIALS {
        for y in SPECIALS {
            let apex = dn("ex.");
            let o = bytes::Bytes::copy_from_slice(&[x, y]);
            out.push((
                "api-octet-rdata",
                mk(&apex, true, vec![ApiRec { owner: apex.clone(), wild: false, data: RecordTypeWithData::TXT { octets: o }, ttl: 300 }]),
            ));
        }
    }
    out.push((
        "api-octet-rdata",
        mk(&dn("ex."), true, vec![ApiRec { owner: dn("e.ex."), wild: false, data: RecordTypeWithData::TXT { octets: bytes::Bytes::new() }, ttl: 300 }]),
    ));
    // (4) every type and RDATA variant x owner kind x zone kind x TTL
    for (apex, auth) in zone_kinds() {
        let base: Name = apex.labels.iter().filter(|l| !l.is_empty()).map(|l| l.octets().to_vec()).collect();
        for t in NON_SOA_TYPES {
            for rv in rdata_variants(t, &base, 2) {
                for (owner, wild) in [
                    (apex.clone(), false),
                    (apex.clone(), true),
                    (prepend(b"www", &apex), false),
                    (prepend(b"www", &apex), true),
                    (prepend(b"a", &prepend(b"b", &apex)), false),
                ] {
                    for ttl in [300u32, 30, 0, u32::MAX] {
                        out.push(("api-types", mk(&apex, auth, vec![ApiRec { owner: owner.clone(), wild, data: rv.data.to_rtwd(), ttl }])));
                    }
                }
            }
        }
        // several types at one name, normal and wildcard sets side by side
        let mut many = Vec::new();
        for (i, t) in NON_SOA_TYPES.iter().enumerate() {
            let rv = rdata_variants(*t, &base, 0).remove(0);
            many.push(ApiRec { owner: prepend(b"www", &apex), wild: i % 2 == 0, data: rv.data.to_rtwd(), ttl: 100 + i as u32 });
            many.push(ApiRec { owner: apex.clone(), wild: i % 3 == 0, data: rv.data.to_rtwd(), ttl: 100 + i as u32 });
        }
        many.push(ApiRec { owner: prepend(b"www", &apex), wild: false, data: a([10, 0, 0, 2]), ttl: 7 });
        many.push(ApiRec { owner: prepend(b"www", &apex), wild: false, data: a([10, 0, 0, 2]), ttl: 8 });
        out.push(("api-many", mk(&apex, auth, many)));
    }
    // other SOA minimum values
    for minimum in [0u32, 1, u32::MAX] {
        let apex = dn("ex.");
        let mut z = mk(&apex, true, vec![a_rec(prepend(b"www", &apex), false), a_rec(apex.clone(), true)]);
        z.soa = Some(std_soa(&apex, minimum));
        out.push(("api-types", z));
    }
    out
}

// ---------------------------------------------------------------------------
// sweeps written as text
// ---------------------------------------------------------------------------

fn ddd(bytes: &[u8]) -> String {
    bytes.iter().map(|b| format!("\\{b:03}")).collect()
}

/// Text forms of an octet string inside a name or a bare token: all `\DDD`;
/// `\X` for printing non-digit octets.
fn label_forms(l: &[u8]) -> Vec<String> {
    let mut v = vec![ddd(l)];
    let mut s = String::new();
    for &b in l {
        if (33..=126).contains(&b) && !b.is_ascii_digit() {
            s.push('\\');
            s.push(b as char);
        } else {
            s.push_str(&format!("\\{b:03}"));
        }
    }
    v.push(s);
    // raw, when that is ordinary text
    if l.iter().all(|b| b.is_ascii_alphanumeric() || *b == b'-' || *b == b'_') {
        v.push(String::from_utf8_lossy(l).to_string());
    }
    v
}

fn text_corpus(level: u8) -> Vec<(&'static str, String)> {
    let mut out: Vec<(&'static str, String)> = Vec::new();
    let soa = "@ 3600 IN SOA ns1 admin 1 7200 600 3600000 60\n";
    // (1) labels: every ASCII octet except `.`, four positions, roles
    let mut labels: Vec<Vec<u8>> = Vec::new();
    for b in 0u8..128 {
        if b != b'.' {
            labels.extend(labels_with(b));
        }
    }
    for x in SPECIALS {
        for y in SPECIALS {
            labels.push(vec![x, y]);
            labels.push(vec![b'a', x, y, b'z']);
        }
    }
    for k in KEYWORD_LABELS {
        labels.push(k.to_vec());
    }
    for l in &labels {
        for f in label_forms(l) {
            // relative owner in an authoritative zone (written absolutely: the
            // serialiser is the one that has to write it relatively)
            out.push(("text-label-owner", format!("$ORIGIN ex.\n{soa}{f}.ex. 300 IN A 10.0.0.1\nwww.{f}.ex. 300 IN A 10.0.0.2\n")));
            // written relatively as well
            out.push(("text-label-owner", format!("$ORIGIN ex.\n{soa}{f} 300 IN A 10.0.0.1\nwww.{f} 300 IN A 10.0.0.2\n*.{f} 300 IN A 10.0.0.3\n")));
            // absolute owner, no SOA
            out.push(("text-label-owner", format!("{f}.ex. 300 IN A 10.0.0.1\n*.{f}. 300 IN A 10.0.0.3\n")));
            // root apex, authoritative
            out.push(("text-label-owner", format!(". 3600 IN SOA ns1. admin. 1 7200 600 3600000 60\n{f}. 300 IN A 10.0.0.1\n")));
            // the apex label itself
            out.push(("text-label-apex", format!("{f}.ex. 3600 IN SOA ns1.{f}.ex. admin.ex. 1 7200 600 3600000 60\nwww.{f}.ex. 300 IN A 10.0.0.1\n{f}.ex. 300 IN A 10.0.0.2\n")));
            // inside RDATA names
            out.push((
                "text-label-rdata",
                format!("$ORIGIN ex.\n@ 3600 IN SOA {f} admin.{f} 1 7200 600 3600000 60\nwww 300 IN CNAME {f}.ex.\n@ 300 IN MX 10 {f}\n@ 300 IN MINFO {f}.other. x.{f}\n"),
            ));
            out.push(("text-label-rdata", format!("www.ex. 300 IN CNAME {f}.ex.\nex. 300 IN SRV 1 2 3 {f}.\n")));
        }
    }
    // (2) opaque RDATA: every octet, four positions, four types, three forms
    let mut contents: Vec<Vec<u8>> = Vec::new();
    for b in 0u16..256 {
        contents.extend(labels_with(b as u8));
    }
    for x in SPECIALS {
        for y in SPECIALS {
            contents.push(vec![x, y]);
        }
    }
    for c in &contents {
        let mut forms = vec![ddd(c)];
        for f in [OpForm::Bare, OpForm::Quoted, OpForm::QuotedAllX] {
            if let Some(s) = render_opaque(c, f) {
                forms.push(s);
            }
        }
        for f in forms {
            for t in ["TXT", "HINFO", "NULL", "WKS"] {
                out.push(("text-octet-rdata", format!("$ORIGIN ex.\n{soa}t 300 IN {t} {f}\n* 300 IN {t} {f}\n")));
                if level >= 2 {
                    out.push(("text-octet-rdata", format!("t.ex. 300 IN {t} {f}\n")));
                    out.push(("text-octet-rdata", format!(". 3600 IN SOA ns1. admin. 1 7200 600 3600000 60\n. 300 IN {t} {f}\n")));
                }
            }
        }
    }
    for z in base_corpus() {
        out.push(("base-corpus", z));
    }
    out
}

// ---------------------------------------------------------------------------
// the ztoz binary
// ---------------------------------------------------------------------------

fn run_ztoz(bin: &str, input: &str) -> Result<(i32, String), String> {
    let mut child = Command::new(bin)
        .stdin(Stdio::piped())
        .stdout(Stdio::piped())
        .stderr(Stdio::null())
        .spawn()
        .map_err(|e| format!("cannot start {bin}: {e}"))?;
    {
        let mut stdin = child.stdin.take().ok_or("no stdin")?;
        // ignore EPIPE: the program may exit before reading everything
        let _ = stdin.write_all(input.as_bytes());
    }
    let out = child.wait_with_output().map_err(|e| format!("wait: {e}"))?;
    let code = out.status.code().unwrap_or(-1);
    Ok((code, String::from_utf8_lossy(&out.stdout).to_string()))
}

/// 0 agree, 1 violation pushed, 2 machinery problem
fn check_ztoz(acc: &mut Acc, sink: &Sink, bin: &str, text: &str, errors: &std::sync::Mutex<Vec<String>>) {
    acc.cases += 1;
    let replay = json!({"kind": "ztoz", "text": text});
    let z1 = match parse(text) {
        Ok(Ok(z)) => z,
        _ => {
            // the program must refuse it as well
            match run_ztoz(bin, text) {
                Ok((code, out)) => {
                    acc.calls += 1;
                    if code == 0 {
                        violate(acc, sink, "ztoz-accepts-what-the-library-rejects", None, format!("{}: ztoz printed {}", short(text), short(&out)), replay);
                    } else {
                        acc.h("ztoz:rejected-like-the-library");
                    }
                }
                Err(e) => errors.lock().unwrap().push(e),
            }
            return;
        }
    };
    let t2 = match serialise(&z1) {
        Ok(t) => t,
        Err(()) => return,
    };
    let single = single_order(&z1);
    let same = |a: &str, b: &str| if single { a == b } else { canonical(a) == canonical(b) };
    let (c1, o1) = match run_ztoz(bin, text) {
        Ok(x) => x,
        Err(e) => {
            errors.lock().unwrap().push(e);
            return;
        }
    };
    acc.calls += 1;
    if c1 != 0 || !same(&o1, &t2) {
        violate(
            acc,
            sink,
            "ztoz-output-differs-from-serialise",
            None,
            format!("{}: ztoz exit {c1} output {} but Zone::serialise gives {}", short(text), short(&o1), short(&t2)),
            replay,
        );
        return;
    }
    let (c2, o2) = match run_ztoz(bin, &o1) {
        Ok(x) => x,
        Err(e) => {
            errors.lock().unwrap().push(e);
            return;
        }
    };
    acc.calls += 1;
    acc.validated += 1;
    if c2 != 0 || !same(&o2, &o1) {
        // is it the anticipated defect?
        let slug = match (parse(&o1), lone_at_reading(&dump_zone(&z1))) {
            (Ok(Ok(z2)), Some(alt)) if dump_zone(&z2) == alt => Some(SLUG_LONE_AT),
            _ => None,
        };
        let clause = if slug.is_some() { "lone-at-label-read-as-apex" } else { "ztoz-twice-differs" };
        violate(
            acc,
            sink,
            clause,
            slug,
            format!("{}: ztoz gives {} and, fed that, exit {c2} output {}", short(text), short(&o1), short(&o2)),
            replay,
        );
        return;
    }
    if single {
        acc.h("ztoz:ok-bytewise");
    } else {
        acc.h("ztoz:ok-up-to-line-order-within-a-name");
    }
}

// ---------------------------------------------------------------------------

fn merge(total: &mut Acc, parts: Vec<Acc>) {
    for p in parts {
        total.cases += p.cases;
        total.calls += p.calls;
        total.validated += p.validated;
        for (k, v) in p.hist {
            *total.hist.entry(k).or_insert(0) += v;
        }
        for (k, v) in p.vcount {
            *total.vcount.entry(k).or_insert(0) += v;
        }
        total.hashes.extend(p.hashes);
        for s in p.samples {
            if total.samples.len() < 6 {
                total.samples.push(s);
            }
        }
    }
}

pub fn run(ctx: &Ctx) -> i32 {
    let level: u8 = ctx.tier.pick(1, 2);
    let sink = Sink::new(30);
    let mut report = Report::new();
    let mut total = Acc::default();
    let cap = ctx.tier.pick(50.0, 540.0);
    let mut exhaustive = true;
    let mut sizes: BTreeMap<String, Value> = BTreeMap::new();

    let bin = ztoz_path();
    if !std::path::Path::new(&bin).exists() {
        eprintln!("machinery error: {bin} not found (build it with /verif/check C13, or set VERIF_ZTOZ)");
        return 2;
    }

    // (a) sweeps written as text
    let texts = text_corpus(level);
    sizes.insert("text-sweeps".into(), json!(texts.len()));
    let parts = par_fold(texts.len(), ctx.threads, ctx.seed, Acc::default, |acc, i| {
        check_text(acc, &sink, texts[i].0, &texts[i].1);
    });
    merge(&mut total, parts);

    // (b) zones built through the insertion API
    let apis = api_corpus(level);
    sizes.insert("api-zones".into(), json!(apis.len()));
    let parts = par_fold(apis.len(), ctx.threads, ctx.seed, Acc::default, |acc, i| {
        check_api(acc, &sink, apis[i].0, &apis[i].1);
    });
    merge(&mut total, parts);

    // (c) C11's corpus of single records and ordered pairs (every owner /
    //     TTL / class / name form, every RDATA variant; one layout, since the
    //     layout does not reach the zone value)
    let singles = Singles::with(0, level);
    let pairs = Pairs::new(if level >= 2 { 1 } else { 0 });
    let triples = Triples::new(1);
    let spaces: Vec<(&'static str, usize, Box<dyn Fn(usize) -> Option<FileSpec> + Sync + '_>)> = vec![
        ("c11-singles", singles.count(), Box::new(|i| singles.spec(i))),
        ("c11-triples", if level >= 2 { triples.count() } else { 0 }, Box::new(|i| triples.spec(i))),
        ("c11-pairs", pairs.count(), Box::new(|i| pairs.spec(i))),
    ];
    let mut ztoz_inputs: Vec<String> = Vec::new();
    for (name, count, spec) in &spaces {
        if ctx.elapsed() > cap {
            exhaustive = false;
            sizes.insert(name.to_string(), json!({"index_space": count, "skipped_because_of_time_cap": true}));
            continue;
        }
        let stop = std::sync::atomic::AtomicBool::new(false);
        let parts = par_fold(*count, ctx.threads, ctx.seed, Acc::default, |acc, i| {
            if stop.load(std::sync::atomic::Ordering::Relaxed) {
                acc.h("cut-by-time-cap");
                return;
            }
            if i % 4096 == 0 && ctx.elapsed() > cap {
                stop.store(true, std::sync::atomic::Ordering::Relaxed);
            }
            if let Some(b) = spec(i).and_then(|s| build(&s, Hyp::default())) {
                check_text(acc, &sink, name, &b.text);
            } else {
                acc.h("index-without-file");
            }
        });
        if stop.load(std::sync::atomic::Ordering::Relaxed) {
            exhaustive = false;
        }
        merge(&mut total, parts);
        sizes.insert(name.to_string(), json!({"index_space": count, "done_at_s": ctx.elapsed()}));
        // a deterministic stride of this space also goes through the binary
        let stride = (*count / ctx.tier.pick(15, 120)).max(1);
        let mut i = 0;
        while i < *count {
            if let Some(b) = spec(i).and_then(|s| build(&s, Hyp::default())) {
                ztoz_inputs.push(b.text);
            }
            i += stride;
        }
    }

    // (d) the ztoz binary on a sub-corpus
    {
        let stride = ctx.tier.pick(1499, 149);
        for (i, (_, t)) in texts.iter().enumerate() {
            if i % stride == 0 {
                ztoz_inputs.push(t.clone());
            }
        }
        // every ordered pair of special octets as label and as RDATA, always
        for x in SPECIALS {
            for y in SPECIALS {
                let l = ddd(&[x, y]);
                ztoz_inputs.push(format!("$ORIGIN ex.\n@ 3600 IN SOA ns1 admin 1 7200 600 3600000 60\n{l}.ex. 300 IN TXT {l}\n"));
            }
        }
        for x in SPECIALS {
            let l = ddd(&[x]);
            ztoz_inputs.push(format!("$ORIGIN ex.\n@ 3600 IN SOA ns1 admin 1 7200 600 3600000 60\n{l}.ex. 300 IN TXT {l}\nwww 300 IN CNAME {l}.ex.\n"));
        }
        ztoz_inputs.sort();
        ztoz_inputs.dedup();
        sizes.insert("ztoz-inputs".into(), json!(ztoz_inputs.len()));
        let errors = std::sync::Mutex::new(Vec::new());
        let stop = std::sync::atomic::AtomicBool::new(false);
        let hard_cap = cap + ctx.tier.pick(8.0, 50.0);
        let parts = par_jobs(ztoz_inputs.len(), ctx.threads, Acc::default, |acc, i| {
            if stop.load(std::sync::atomic::Ordering::Relaxed) {
                acc.h("cut-by-time-cap");
                return;
            }
            if ctx.elapsed() > hard_cap {
                stop.store(true, std::sync::atomic::Ordering::Relaxed);
            }
            check_ztoz(acc, &sink, &bin, &ztoz_inputs[i], &errors);
        });
        if stop.load(std::sync::atomic::Ordering::Relaxed) {
            exhaustive = false;
        }
        merge(&mut total, parts);
        let errs = errors.into_inner().unwrap();
        if !errs.is_empty() {
            eprintln!("machinery error: ztoz could not be run: {}", errs[0]);
            return 2;
        }
    }

    total.hashes.sort_unstable();
    total.hashes.dedup();
    let cut = total.hist.remove("cut-by-time-cap").unwrap_or(0);
    report.evaluations = total.cases;
    report.states = total.hashes.len() as u64;
    report.transitions = total.calls;
    report.traces_validated = total.validated;
    report.distinct_nontrivial = total.hashes.iter().filter(|h| *h & 1 == 1).count() as u64;
    report.rule = "inputs: (a) text sweeps (every ASCII octet except `.` in a label alone/first/middle/last and every ordered pair of the 13 special octets, as owner written absolutely and relatively, under a wildcard, as apex label, inside CNAME/MX/MINFO/SRV/SOA names; every octet 0..255 and every special pair in TXT/HINFO/NULL/WKS RDATA in up to four text forms; authoritative non-root, authoritative root and non-authoritative zones), (b) the same label and octet sweeps plus every type/RDATA variant/owner kind/TTL and many-types-per-name zones built with Zone::new/insert/insert_wildcard, (c) C11's single-record and ordered-pair corpus in one layout, (d) a stride of all of these through the ztoz binary; states = distinct serialisations (hash of the text with lines sorted inside each name block); a case is non-trivial when the serialised text contains an escape, a quoted string, `@` or a wildcard owner; transitions = parse/serialise/ztoz calls; traces validated = round trips completed and compared".into();
    report.samples = total.samples;
    report.bounds = json!({"level": level, "sizes": sizes, "indices_cut_by_time_cap": cut, "time_cap_s": cap, "ztoz": bin});
    report.exhaustive = exhaustive;
    report.outcome_histogram = total.hist;
    report.assumptions = vec![
        "equality of zones is judged on apex, SOA, records, wildcard records and TTLs as sorted lists; `Zone: PartialEq` is evaluated too but a structural difference with equal lists is only counted (histogram key same-dump-but-structural-eq-differs)".into(),
        "Zone::serialise prints the record types of one name in HashMap iteration order, which differs between two maps and between processes: byte-for-byte equality of two serialisations (and of ztoz output) is demanded only for zones in which no name holds two types; otherwise the lines of one name are compared as a multiset".into(),
        "zones built through the API are root-apex non-authoritative or authoritative (a non-authoritative zone with another apex cannot be obtained by parsing); labels ASCII, no dot, not starting with `*` (statement); D9: the 18 text-representable types".into(),
        "text inputs the parser rejects are not zones and are only counted".into(),
    ];
    report.extra.insert("violation_counts".into(), json!(total.vcount));
    report.violations = sink.take();
    // unanticipated families first: `finish` prints only the first dozen
    report.violations.sort_by_key(|v| v.slug.is_some());
    finish(ctx, report)
}

pub fn replay(ctx: &Ctx, v: &Value) -> i32 {
    let sink = Sink::new(10);
    let mut acc = Acc::default();
    match v["kind"].as_str().unwrap_or("") {
        "roundtrip-text" => {
            let text = v["text"].as_str().unwrap_or("");
            println!("input text:\n{text}");
            if let Ok(Ok(z1)) = parse(text) {
                println!("zone read:      {}", dump_zone(&z1).to_json());
                if let Ok(t2) = serialise(&z1) {
                    println!("serialised as:\n{t2}");
                    match parse(&t2) {
                        Ok(Ok(z2)) => println!("read back as:   {}", dump_zone(&z2).to_json()),
                        Ok(Err(e)) => println!("read back as:   error {e}"),
                        Err(()) => println!("read back:      panic"),
                    }
                }
            } else {
                println!("the input is not a zone file");
            }
            check_text(&mut acc, &sink, "replay", text);
        }
        "roundtrip-api" => match ApiZone::from_json(v) {
            Some(az) => {
                println!("zone built: {}", az.shown());
                let z1 = az.build();
                if let Ok(t2) = serialise(&z1) {
                    println!("serialised as:\n{t2}");
                    match parse(&t2) {
                        Ok(Ok(z2)) => println!("zone built:   {}\nread back as: {}", dump_zone(&z1).to_json(), dump_zone(&z2).to_json()),
                        Ok(Err(e)) => println!("read back as: error {e}"),
                        Err(()) => println!("read back: panic"),
                    }
                }
                check_api(&mut acc, &sink, "replay", &az);
            }
            None => {
                eprintln!("bad replay file");
                return 2;
            }
        },
        "ztoz" => {
            let text = v["text"].as_str().unwrap_or("");
            let bin = ztoz_path();
            println!("input text:\n{text}");
            if let Ok((c, o)) = run_ztoz(&bin, text) {
                println!("ztoz exit {c}, output:\n{o}");
                if let Ok((c2, o2)) = run_ztoz(&bin, &o) {
                    println!("ztoz on its own output: exit {c2}, output:\n{o2}");
                }
            }
            let errors = std::sync::Mutex::new(Vec::new());
            check_ztoz(&mut acc, &sink, &bin, text, &errors);
            if let Some(e) = errors.into_inner().unwrap().first() {
                eprintln!("machinery error: {e}");
                return 2;
            }
        }
        other => {
            eprintln!("unknown replay kind {other}");
            return 2;
        }
    }
    let vs = sink.take();
    if vs.is_empty() {
        println!("replay: property holds on this case");
        0
    } else {
        for x in &vs {
            println!("clause {}: {}", x.clause, x.summary);
        }
        println!("VIOLATION property={} replay=(replayed case)", ctx.id);
        1
    }
}

pub fn worker(_args: &[String]) -> i32 {
    2
}
