//! C07 — recursive resolution finds the authoritative answer in any
//! (consistent) delegation tree.  E-NET: every generated universe x question
//! history x order in which candidate nameservers are tried.

use crate::common::*;
use crate::net::*;
use crate::ugen::*;
use crate::util::*;
use dns_resolver::util::types::{ProtocolMode, ResolvedRecord};
use dns_types::protocol::types::*;
use dns_types::zones::types::Zones;
use serde_json::{json, Value};
use std::collections::{BTreeMap, BTreeSet};
use std::sync::Arc;
use std::time::Duration;

pub fn universes(tier: Tier) -> Vec<GenParams> {
    let mut out = Vec::new();
    let styles = [NsStyle::InZoneGlue, NsStyle::InParent, NsStyle::Sibling];
    let max_depth = tier.pick(3, 5);
    for depth in 1..=max_depth {
        // all style assignments for depth <= 2 (quick) / <= 3 (thorough); above
        // that homogeneous and alternating patterns
        let full = depth <= tier.pick(2, 3);
        let mut assignments: Vec<Vec<NsStyle>> = Vec::new();
        if full {
            let n = 3usize.pow(depth as u32);
            for i in 0..n {
                let mut v = Vec::new();
                let mut k = i;
                for _ in 0..depth {
                    v.push(styles[k % 3]);
                    k /= 3;
                }
                assignments.push(v);
            }
        } else {
            for s in styles {
                assignments.push(vec![s; depth]);
            }
            assignments.push((0..depth).map(|i| styles[i % 3]).collect());
            assignments.push((0..depth).map(|i| styles[(i + 1) % 3]).collect());
        }
        for a in assignments {
            let ns_opts: Vec<usize> = match tier {
                Tier::Quick => {
                    if depth <= 2 {
                        vec![1, 2]
                    } else {
                        vec![1]
                    }
                }
                Tier::Thorough => {
                    if depth <= 2 {
                        vec![1, 2, 3]
                    } else if depth == 3 {
                        vec![1, 2]
                    } else {
                        vec![1]
                    }
                }
            };
            for ns in ns_opts {
                for (send_additional, chase) in [(true, false), (false, true)] {
                    let mut p = GenParams::simple(depth, NsStyle::InZoneGlue, ns);
                    p.styles = a.clone();
                    p.send_additional = send_additional;
                    p.chase_in_reply = chase;
                    out.push(p);
                }
            }
        }
    }
    // multi-homed nameserver hosts (two addresses each), and a zone served by
    // the sibling zone's own nameserver
    for depth in 1..=2usize {
        for s in [NsStyle::InZoneGlue, NsStyle::InParent, NsStyle::Sibling, NsStyle::SiblingApexNs] {
            for send_additional in [true, false] {
                let mut p = GenParams::simple(depth, s, 1);
                p.send_additional = send_additional;
                p.families = vec![Family::V4Two; depth + 2];
                out.push(p);
            }
        }
    }
    // the other protocol modes of the resolver: a consistent tree must resolve whenever
    // the mode allows an address family the servers have (prefer-v6 with v4-only
    // servers, prefer-v4 with v6-only servers, either with dual-stack servers, only-v6)
    for depth in 1..=2usize {
        for s in [NsStyle::InZoneGlue, NsStyle::InParent, NsStyle::Sibling, NsStyle::SiblingApexNs] {
            for send_additional in [true, false] {
                for (fam, mode) in [
                    (Family::V4, 2u8),
                    (Family::V4, 1),
                    (Family::V6, 1),
                    (Family::V6, 2),
                    (Family::V6, 3),
                    (Family::Dual, 1),
                    (Family::Dual, 2),
                    (Family::Dual, 3),
                ] {
                    if depth == 2 && mode == 3 && fam == Family::Dual {
                        continue;
                    }
                    let mut p = GenParams::simple(depth, s, 1);
                    p.send_additional = send_additional;
                    p.families = vec![fam; depth + 2];
                    p.resolver_mode = mode;
                    out.push(p);
                }
            }
        }
    }
    out
}

pub fn base_spec(u: Arc<Universe>, steps: Vec<Step>) -> RunSpec {
    let mut zones = Zones::new();
    zones.insert(u.hints_zone());
    RunSpec {
        universe: u,
        zones,
        cache_size: 512,
        steps,
        mode: Mode::Recursive,
        protocol_mode: ProtocolMode::OnlyV4,
        port: 53,
        faults: vec![Fault::Honest],
        fault_window: 0,
        explore_orders: true,
        record_held: false,
        sticky: Vec::new(),
    }
}

fn key(r: &ResourceRecord) -> (DomainName, RecordTypeWithData) {
    (r.name.clone(), r.rtype_with_data.clone())
}

/// Compare one answer with the truth; returns (clause, message) on mismatch.
pub fn judge_answer(truth: &Truth, outcome: &Outcome) -> Option<(&'static str, String)> {
    let (rrs, soa) = match outcome {
        Outcome::Ok(ResolvedRecord::NonAuthoritative { rrs, soa_rr }) => (rrs.clone(), soa_rr.clone()),
        Outcome::Ok(other) => {
            return Some((
                "answer-kind",
                format!("expected a non-authoritative answer, got {}", show_outcome(&Outcome::Ok(other.clone()))),
            ))
        }
        Outcome::Err(e) => return Some(("resolution-failed", format!("resolution failed: {e}"))),
        Outcome::Panic(m) => return Some(("panic", format!("panicked: {m}"))),
    };
    let (chain, fin, want_soa): (&Vec<ResourceRecord>, Vec<ResourceRecord>, Option<&ResourceRecord>) =
        match truth {
            Truth::Records(c, f) => (c, f.clone(), None),
            Truth::NoData(c, s) => (c, Vec::new(), Some(s)),
            Truth::NxDomain(c, s) => (c, Vec::new(), Some(s)),
            Truth::Undefined(_) => return None,
        };
    if rrs.len() < chain.len() {
        return Some((
            "chain",
            format!("answer {} is shorter than the alias chain {}", show_rrs(&rrs), show_rrs(chain)),
        ));
    }
    for (i, c) in chain.iter().enumerate() {
        if key(&rrs[i]) != key(c) {
            return Some((
                "chain",
                format!("answer {} does not start with the alias chain {}", show_rrs(&rrs), show_rrs(chain)),
            ));
        }
        if rrs[i].ttl > c.ttl {
            return Some(("ttl", format!("{} has a larger TTL than the authoritative {}", show_rr(&rrs[i]), show_rr(c))));
        }
    }
    let mut got: Vec<_> = rrs[chain.len()..].iter().map(key).collect();
    let mut want: Vec<_> = fin.iter().map(key).collect();
    got.sort();
    want.sort();
    if got != want {
        return Some((
            "final-records",
            format!(
                "records after the chain are {} but the authoritative servers hold {}",
                show_rrs(&rrs[chain.len()..]),
                show_rrs(&fin)
            ),
        ));
    }
    for r in &rrs[chain.len()..] {
        if let Some(w) = fin.iter().find(|w| key(w) == key(r)) {
            if r.ttl > w.ttl {
                return Some(("ttl", format!("{} has a larger TTL than the authoritative {}", show_rr(r), show_rr(w))));
            }
        }
    }
    if let Some(ws) = want_soa {
        match &soa {
            Some(s) if key(s) == key(ws) => {}
            other => {
                return Some((
                    "negative-soa",
                    format!(
                        "empty answer must carry the SOA {} of the denying zone, got {:?}",
                        show_rr(ws),
                        other.as_ref().map(show_rr)
                    ),
                ))
            }
        }
    }
    None
}

/// Log oracle: known addresses only; for one question within one step the
/// zones asked get strictly deeper.
pub fn judge_log(u: &Universe, res: &RunResult) -> Option<(&'static str, String)> {
    let known = u.all_addresses();
    for e in &res.log {
        if !known.contains(&e.addr.ip()) {
            return Some(("unknown-server", format!("exchange with {} which is no server of the universe", e.addr)));
        }
    }
    let mut last: BTreeMap<(usize, DomainName, u16), usize> = BTreeMap::new();
    for e in &res.log {
        if e.proto != dns_resolver::verif::transport::Proto::Udp {
            continue;
        }
        if let Some(q) = &e.question {
            let zone_depth = u
                .serving
                .get(&e.addr.ip())
                .and_then(|zs| zs.iter().map(|z| u.zones[*z].apex.labels.len()).max())
                .unwrap_or(0);
            let k = (e.step, q.name.clone(), u16::from(q.qtype));
            if let Some(prev) = last.get(&k) {
                if zone_depth <= *prev {
                    return Some((
                        "referral-not-closer",
                        format!(
                            "{} {} was asked of a zone at depth {} after one at depth {}: {}",
                            show_name(&q.name),
                            q.qtype,
                            zone_depth,
                            prev,
                            show_log(&res.log)
                        ),
                    ));
                }
            }
            last.insert(k, zone_depth);
        }
    }
    None
}

fn spec_to_replay(p: &GenParams, steps: &[Step], choices: &[usize]) -> Value {
    json!({
        "kind": "net-history",
        "universe": {
            "depth": p.depth,
            "styles": p.styles.iter().map(|s| format!("{s:?}")).collect::<Vec<_>>(),
            "ns_count": p.ns_count,
            "send_additional": p.send_additional,
            "chase_in_reply": p.chase_in_reply,
            "v6_glue_first": p.v6_glue_first,
            "glue_family": p.glue_family,
            "resolver_mode": p.resolver_mode,
            "families": p.families.iter().map(|f| format!("{f:?}")).collect::<Vec<_>>(),
        },
        "steps": steps.iter().map(step_to_json).collect::<Vec<_>>(),
        "choices": choices,
    })
}

pub fn protocol_of(p: &GenParams) -> ProtocolMode {
    match p.resolver_mode {
        1 => ProtocolMode::PreferV4,
        2 => ProtocolMode::PreferV6,
        3 => ProtocolMode::OnlyV6,
        _ => ProtocolMode::OnlyV4,
    }
}

pub fn step_to_json(s: &Step) -> Value {
    match s {
        Step::Ask(q) => json!({"ask": {"name": q.name.to_dotted_string(), "qtype": u16::from(q.qtype)}}),
        Step::Advance(d) => json!({"advance_ms": d.as_millis() as u64}),
        Step::UpstreamOff => json!("upstream_off"),
        Step::Seed(rrs) => json!({"seed": rrs.iter().map(|r| json!({"name": r.name.to_dotted_string(), "ttl": r.ttl, "data": hex(&crate::refwire::encode_rdata_with_type(&r.rtype_with_data))})).collect::<Vec<_>>()}),
    }
}

pub fn step_from_json(v: &Value) -> Option<Step> {
    if v == "upstream_off" {
        return Some(Step::UpstreamOff);
    }
    if let Some(a) = v.get("ask") {
        return Some(Step::Ask(question(
            &dn(a["name"].as_str()?),
            QueryType::from(a["qtype"].as_u64()? as u16),
        )));
    }
    if let Some(ms) = v.get("advance_ms") {
        return Some(Step::Advance(Duration::from_millis(ms.as_u64()?)));
    }
    if let Some(seed) = v.get("seed") {
        let mut rrs = Vec::new();
        for r in seed.as_array()? {
            rrs.push(rr(
                &dn(r["name"].as_str()?),
                crate::refwire::decode_rdata_with_type(&unhex(r["data"].as_str()?))?,
                r["ttl"].as_u64()? as u32,
            ));
        }
        return Some(Step::Seed(rrs));
    }
    None
}

pub fn params_from_json(v: &Value) -> GenParams {
    let style = |s: &str| match s {
        "InParent" => NsStyle::InParent,
        "Sibling" => NsStyle::Sibling,
        "SiblingApexNs" => NsStyle::SiblingApexNs,
        _ => NsStyle::InZoneGlue,
    };
    let fam = |s: &str| match s {
        "V6" => Family::V6,
        "Dual" => Family::Dual,
        "V6Mapped" => Family::V6Mapped,
        "DualMapped" => Family::DualMapped,
        "V4Two" => Family::V4Two,
        _ => Family::V4,
    };
    GenParams {
        depth: v["depth"].as_u64().unwrap_or(1) as usize,
        styles: v["styles"].as_array().map(|a| a.iter().map(|s| style(s.as_str().unwrap_or(""))).collect()).unwrap_or_default(),
        ns_count: v["ns_count"].as_array().map(|a| a.iter().map(|n| n.as_u64().unwrap_or(1) as usize).collect()).unwrap_or_default(),
        send_additional: v["send_additional"].as_bool().unwrap_or(true),
        chase_in_reply: v["chase_in_reply"].as_bool().unwrap_or(false),
        v6_glue_first: v["v6_glue_first"].as_bool().unwrap_or(false),
        glue_family: v["glue_family"].as_u64().unwrap_or(0) as u8,
        resolver_mode: v["resolver_mode"].as_u64().unwrap_or(0) as u8,
        families: v["families"].as_array().map(|a| a.iter().map(|s| fam(s.as_str().unwrap_or(""))).collect()).unwrap_or_default(),
    }
}

use crate::procpar::{self, JsonAcc};

pub fn check_history(acc: &mut JsonAcc, p: &GenParams, u: &Arc<Universe>, steps: Vec<Step>, max_exec: u64) {
    let mut spec = base_spec(u.clone(), steps.clone());
    spec.protocol_mode = protocol_of(p);
    acc.count("histories", 1);
    let truths: Vec<Truth> = steps
        .iter()
        .filter_map(|s| match s {
            Step::Ask(q) => Some(u.truth(q)),
            _ => None,
        })
        .collect();
    let mut stats = ExploreStats::default();
    if acc.trace {
        let (p2, steps2) = (p.clone(), steps.clone());
        stats.pre = Some(Box::new(move |prefix: &[usize]| {
            println!("EXEC {}", spec_to_replay(&p2, &steps2, prefix));
            use std::io::Write;
            let _ = std::io::stdout().flush();
        }));
    }
    let mut visit = |res: &RunResult, choices: &[usize]| {
        if let Some(d) = &res.divergence {
            acc.violate("machinery-divergence", d.clone(), spec_to_replay(p, &steps, choices), None);
            return;
        }
        for (i, ask) in res.asks.iter().enumerate() {
            let class = match &truths[i] {
                Truth::Records(c, _) if c.is_empty() => "records",
                Truth::Records(_, _) => "alias+records",
                Truth::NoData(c, _) if c.is_empty() => "nodata",
                Truth::NoData(_, _) => "alias+nodata",
                Truth::NxDomain(c, _) if c.is_empty() => "nxdomain",
                Truth::NxDomain(_, _) => "alias+nxdomain",
                Truth::Undefined(_) => "undefined",
            };
            acc.hist(class, 1);
            if let Some((clause, msg)) = judge_answer(&truths[i], &ask.outcome) {
                acc.violate(
                    clause,
                    format!(
                        "universe [{}] question #{} {} {}: {} :: log {}",
                        p.describe(),
                        i,
                        show_name(&ask.question.name),
                        ask.question.qtype,
                        msg,
                        show_log(&res.log)
                    ),
                    spec_to_replay(p, &steps, choices),
                    None,
                );
            }
        }
        if let Some((clause, msg)) = judge_log(u, res) {
            acc.violate(
                clause,
                format!("universe [{}]: {}", p.describe(), msg),
                spec_to_replay(p, &steps, choices),
                None,
            );
        }
        // non-trivial: followed >= 2 referrals, or needed more distinct
        // upstream questions than were asked
        let distinct_q: BTreeSet<String> = res
            .log
            .iter()
            .filter_map(|e| e.question.as_ref().map(|q| format!("{} {}", q.name, q.qtype)))
            .collect();
        let referrals = res
            .log
            .iter()
            .filter(|e| e.honest_kind == ReplyKind::Referral)
            .count();
        if referrals >= 2 || distinct_q.len() > res.asks.len() {
            acc.count("nontrivial", 1);
        }
        let mut fp = String::new();
        for a in &res.asks {
            fp.push_str(&format!("{}|{:?}|", show_outcome(&a.outcome), canon_rrs_nottl(&a.cache_after)));
        }
        acc.states.insert(fnv64(fp.as_bytes()) ^ fnv64(p.describe().as_bytes()));
        if res.log.len() >= 3 && res.asks.len() == 2 {
            acc.sample(json!({
                "universe": p.describe(),
                "questions": res.asks.iter().map(|a| format!("{} {}", show_name(&a.question.name), a.question.qtype)).collect::<Vec<_>>(),
                "answers": res.asks.iter().map(|a| show_outcome(&a.outcome)).collect::<Vec<_>>(),
                "exchanges": show_log(&res.log),
                "choices": choices,
            }));
        }
    };
    explore(&spec, 0, max_exec, &mut stats, &mut visit);
    acc.count("executions", stats.executions);
    acc.count("exchanges", stats.exchanges);
    acc.count("choice_points", stats.choice_points);
    if stats.capped {
        acc.capped = true;
    }
}

struct Items {
    built: Vec<(GenParams, Arc<Universe>, Vec<Question>)>,
    items: Vec<(usize, usize)>,
}

fn items(tier: Tier) -> Items {
    let params = universes(tier);
    let built: Vec<(GenParams, Arc<Universe>, Vec<Question>)> = params
        .iter()
        .map(|p| (p.clone(), Arc::new(build(p)), questions(p)))
        .collect();
    let mut items = Vec::new();
    for (ui, (_, _, qs)) in built.iter().enumerate() {
        for qi in 0..qs.len() {
            items.push((ui, qi));
        }
    }
    Items { built, items }
}

fn run_item(tier: Tier, it: &Items, i: usize, acc: &mut JsonAcc) {
    let (ui, qi) = it.items[i];
    let (p, u, qs) = &it.built[ui];
    let max_exec = 4096;
    // thorough: every ordered pair up to depth 3, every 4th second question beyond
    let stride = match tier {
        Tier::Quick => {
            if p.depth >= 3 {
                3usize
            } else {
                1
            }
        }
        Tier::Thorough => {
            if p.depth >= 4 {
                4
            } else if p.depth == 3 && p.ns_count[0] >= 2 {
                2
            } else {
                1
            }
        }
    };
    check_history(acc, p, u, vec![Step::Ask(qs[qi].clone())], max_exec);
    // ordered pairs sharing one cache, clock advanced by 0 or past the short TTL
    // (a strided selection always keeps the pairs that ask the same name for
    // another type: they re-use cached aliases with an uncached final set)
    for j in 0..qs.len() {
        if !(j % stride == (qi * 7) % stride || qs[j].name == qs[qi].name) {
            continue;
        }
        for adv in [0u64, (SHORT_TTL as u64 + 1) * 1000] {
            let mut steps = vec![Step::Ask(qs[qi].clone())];
            if adv > 0 {
                steps.push(Step::Advance(Duration::from_millis(adv)));
            }
            steps.push(Step::Ask(qs[j].clone()));
            check_history(acc, p, u, steps, max_exec);
        }
    }
}

pub fn run(ctx: &Ctx) -> i32 {
    let it = items(ctx.tier);
    let (acc, crashes) = procpar::parent(ctx, it.items.len(), ctx.tier.pick(90.0, 1800.0), &[]);
    let mut report = Report::new();
    report.evaluations = acc.counters.get("executions").copied().unwrap_or(0);
    report.transitions = acc.counters.get("exchanges").copied().unwrap_or(0)
        + acc.counters.get("choice_points").copied().unwrap_or(0);
    report.traces_validated = report.evaluations;
    report.distinct_nontrivial = acc.counters.get("nontrivial").copied().unwrap_or(0);
    procpar::into_report(acc, crashes, &mut report);
    report.rule = "every generated universe (delegation chain from the root hints; per-level nameserver naming style in-zone+glue / in-parent / sibling-zone-without-glue; 1..3 nameservers; with additional data or with in-reply CNAME chasing) x every question of the menu alone and as ordered pairs sharing one cache (clock advanced by 0 or past the short TTL) x every order in which candidate nameservers are tried; one execution = one run of dns_resolver::resolve per question to completion on the paused clock; states = distinct (answers, cache contents) observations; non-trivial = executions that followed >= 2 referrals or needed more distinct upstream questions than were asked (nested nameserver lookup / alias across zones)".into();
    report.bounds = json!({
        "universes": it.built.len(),
        "work_items(universe x first question)": it.items.len(),
        "max_depth": ctx.tier.pick(3, 5),
        "second_question_stride": ctx.tier.pick("3", "1 up to depth 3 (2 for depth 3 with >= 2 nameservers), 4 beyond"),
        "deviation_bound": 0,
        "max_executions_per_history": 4096,
    });
    report.assumptions = vec![
        "consistent universes only (faults are C08); one address per family per nameserver host".into(),
        "TTLs are only required not to exceed the authoritative TTL".into(),
        "D5: no CNAME/ANY questions at alias names".into(),
    ];
    finish(ctx, report)
}

fn replay_inner(ctx: &Ctx, v: &Value) -> i32 {
    let p = params_from_json(&v["universe"]);
    let u = Arc::new(build(&p));
    let steps: Vec<Step> = v["steps"]
        .as_array()
        .cloned()
        .unwrap_or_default()
        .iter()
        .filter_map(step_from_json)
        .collect();
    let choices: Vec<usize> = v["choices"]
        .as_array()
        .cloned()
        .unwrap_or_default()
        .iter()
        .filter_map(|c| c.as_u64().map(|c| c as usize))
        .collect();
    let mut spec = base_spec(u.clone(), steps.clone());
    spec.protocol_mode = protocol_of(&p);
    let res = run_once(&spec, &choices);
    let res2 = run_once(&spec, &choices);
    println!("universe: {}", u.describe());
    println!("exchanges: {}", show_log(&res.log));
    if format!("{:?}", res.asks.iter().map(|a| show_outcome(&a.outcome)).collect::<Vec<_>>())
        != format!("{:?}", res2.asks.iter().map(|a| show_outcome(&a.outcome)).collect::<Vec<_>>())
        || res.log.len() != res2.log.len()
    {
        eprintln!("machinery error: replay is not deterministic");
        return 2;
    }
    let mut bad = false;
    for ask in &res.asks {
        let t = u.truth(&ask.question);
        println!(
            "question {} {}\n  implementation: {}\n  truth: {:?}",
            show_name(&ask.question.name),
            ask.question.qtype,
            show_outcome(&ask.outcome),
            t
        );
        if let Some((c, m)) = judge_answer(&t, &ask.outcome) {
            println!("  finding [{c}]: {m}");
            bad = true;
        }
    }
    if let Some((c, m)) = judge_log(&u, &res) {
        println!("  finding [{c}]: {m}");
        bad = true;
    }
    if bad {
        println!("VIOLATION property={} replay=(replayed case)", ctx.id);
        1
    } else {
        println!("replay: property holds on this case");
        0
    }
}

pub fn replay(ctx: &Ctx, v: &Value) -> i32 {
    procpar::replay_in_child(ctx, v)
}

pub fn worker(args: &[String]) -> i32 {
    if let Some(v) = procpar::replay_arg(args) {
        let ctx = Ctx {
            id: "C07",
            tier: Tier::Quick,
            seed: 0,
            start: std::time::Instant::now(),
            threads: 1,
        };
        return replay_inner(&ctx, &v);
    }
    let tier = if args.first().map(String::as_str) == Some("thorough") {
        Tier::Thorough
    } else {
        Tier::Quick
    };
    let it = items(tier);
    procpar::child_main(args, move |tier, i, acc| run_item(tier, &it, i, acc))
}
