//! C10 — CNAME chains are returned whole, in order, and loops end safely.
//!
//! Alias graphs whose links live in four kinds of source (authoritative local
//! zone `a.`, non-authoritative local zone data under `n.`, cache entries under
//! `k.`, upstream zone `u.`), every assignment of links to sources, straight
//! chains, over-long chains and cycles, in all three resolver modes.

use crate::c07::base_spec;
use crate::common::*;
use crate::net::*;
use crate::procpar::{self, JsonAcc};
use crate::refzone::{FlatRec, FlatZone};
use crate::ugen::*;
use crate::util::*;
use dns_resolver::util::types::ResolvedRecord;
use dns_types::protocol::types::*;
use dns_types::zones::types::{Zone, Zones, SOA};
use serde_json::{json, Value};
use std::collections::BTreeSet;
use std::net::{IpAddr, Ipv4Addr, SocketAddr};
use std::sync::Arc;

#[derive(Debug, Copy, Clone, Eq, PartialEq)]
enum Src {
    Auth,
    NonAuth,
    Cache,
    Up,
}
const SRCS: [Src; 4] = [Src::Auth, Src::NonAuth, Src::Cache, Src::Up];

fn src_dom(s: Src) -> &'static str {
    match s {
        Src::Auth => "a.",
        Src::NonAuth => "n.",
        Src::Cache => "k.",
        Src::Up => "u.",
    }
}

#[derive(Debug, Copy, Clone, Eq, PartialEq)]
enum Final {
    HasType,
    NoData,
    Missing,
}

#[derive(Debug, Copy, Clone, Eq, PartialEq)]
enum ModeK {
    Local,
    Recursive,
    Forwarding,
}

#[derive(Debug, Clone)]
struct Graph {
    /// source of node i (node i is named c<i>.<dom>.)
    srcs: Vec<Src>,
    /// next[i] = Some(j): node i is an alias of node j
    next: Vec<Option<usize>>,
    fin: Final,
    /// a conflicting cached alias for node 1 (zone data must win)
    conflicting_cache: bool,
    chase_in_reply: bool,
    /// links held by a zone (local or upstream) are wildcard records matched
    /// two labels down: node i is `c<i>.deep.w<i>.<dom>.` and its alias is
    /// the record `*.w<i>.<dom>. CNAME ...`
    wild: bool,
}

fn node_name(g: &Graph, i: usize) -> DomainName {
    if g.wild && g.srcs[i] != Src::Cache && g.next[i].is_some() {
        dn(&format!("c{}.deep.w{}.{}", i, i, src_dom(g.srcs[i])))
    } else {
        dn(&format!("c{}.{}", i, src_dom(g.srcs[i])))
    }
}

fn wild_parent(g: &Graph, i: usize) -> DomainName {
    dn(&format!("w{}.{}", i, src_dom(g.srcs[i])))
}

fn final_data(qtype: RecordType, i: usize) -> RecordTypeWithData {
    match qtype {
        RecordType::TXT => txt(format!("final{i}").as_bytes()),
        _ => a([10, 77, (i / 256) as u8, (i % 256) as u8]),
    }
}

struct World {
    universe: Arc<Universe>,
    zones: Zones,
    seed: Vec<ResourceRecord>,
    /// all true records of the graph: (owner, data)
    truth: BTreeSet<(DomainName, RecordTypeWithData)>,
}

fn soa_of(apex: &DomainName) -> SOA {
    SOA {
        mname: prepend(b"mname", apex),
        rname: prepend(b"hostmaster", apex),
        serial: 1,
        refresh: 2,
        retry: 3,
        expire: 4,
        minimum: 30,
    }
}

fn build_world(g: &Graph, qtype: RecordType) -> World {
    let mut p = GenParams::simple(1, NsStyle::InZoneGlue, 1);
    p.chase_in_reply = g.chase_in_reply;
    let mut u = build(&p);
    // add the upstream zone u. (delegated from the root, in-zone glue)
    let up = dn("u.");
    let up_ns = dn("ns1.u.");
    let up_addr = Ipv4Addr::new(10, 0, 7, 1);
    let rec = |owner: &DomainName, data: RecordTypeWithData| FlatRec {
        owner: owner.clone(),
        wildcard: false,
        data,
        ttl: 300,
    };
    u.zones[0].recs.push(rec(&up, ns(&up_ns)));
    u.zones[0].recs.push(rec(&up_ns, RecordTypeWithData::A { address: up_addr }));
    let mut upzone = FlatZone {
        apex: up.clone(),
        soa: Some(soa_of(&up)),
        recs: vec![rec(&up, ns(&up_ns)), rec(&up_ns, RecordTypeWithData::A { address: up_addr })],
    };
    let auth_apex = dn("a.");
    let mut auth = Zone::new(auth_apex.clone(), Some(soa_of(&auth_apex)));
    let mut nonauth = u.hints_zone();
    let mut seed = Vec::new();
    let mut truth = BTreeSet::new();
    let mut put = |src: Src, owner: &DomainName, data: RecordTypeWithData,
                   upzone: &mut FlatZone, auth: &mut Zone, nonauth: &mut Zone, seed: &mut Vec<ResourceRecord>| {
        truth.insert((owner.clone(), data.clone()));
        match src {
            Src::Auth => auth.insert(owner, data, 300),
            Src::NonAuth => nonauth.insert(owner, data, 300),
            Src::Cache => seed.push(rr(owner, data, 300)),
            Src::Up => upzone.recs.push(FlatRec {
                owner: owner.clone(),
                wildcard: false,
                data,
                ttl: 300,
            }),
        }
    };
    let n = g.srcs.len();
    let mut wild_truth: Vec<(DomainName, RecordTypeWithData)> = Vec::new();
    for i in 0..n {
        let name = node_name(g, i);
        match g.next[i] {
            Some(j) if g.wild && g.srcs[i] != Src::Cache => {
                let target = node_name(g, j);
                let parent = wild_parent(g, i);
                wild_truth.push((name.clone(), cname(&target)));
                match g.srcs[i] {
                    Src::Auth => auth.insert_wildcard(&parent, cname(&target), 300),
                    Src::NonAuth => nonauth.insert_wildcard(&parent, cname(&target), 300),
                    _ => upzone.recs.push(FlatRec {
                        owner: parent,
                        wildcard: true,
                        data: cname(&target),
                        ttl: 300,
                    }),
                }
            }
            Some(j) => {
                let target = node_name(g, j);
                put(g.srcs[i], &name, cname(&target), &mut upzone, &mut auth, &mut nonauth, &mut seed);
            }
            None => match g.fin {
                Final::HasType => {
                    put(g.srcs[i], &name, final_data(qtype, i), &mut upzone, &mut auth, &mut nonauth, &mut seed);
                    put(g.srcs[i], &name, final_data(qtype, i + 1000), &mut upzone, &mut auth, &mut nonauth, &mut seed);
                }
                Final::NoData => {
                    // the name exists with another type
                    let other = if qtype == RecordType::TXT {
                        a([10, 78, 0, 1])
                    } else {
                        txt(b"other")
                    };
                    put(g.srcs[i], &name, other, &mut upzone, &mut auth, &mut nonauth, &mut seed);
                }
                Final::Missing => {}
            },
        }
    }
    if g.conflicting_cache && n > 1 {
        // a cached alias for node 1 that disagrees with its real source
        seed.push(rr(&node_name(g, 1), cname(&dn("elsewhere.k.")), 300));
        seed.push(rr(&dn("elsewhere.k."), final_data(qtype, 4000), 300));
    }
    truth.extend(wild_truth);
    let up_idx = u.zones.len();
    u.zones.push(upzone);
    u.serving.entry(IpAddr::V4(up_addr)).or_default().push(up_idx);
    let mut zones = Zones::new();
    zones.insert(nonauth);
    zones.insert(auth);
    World {
        universe: Arc::new(u),
        zones,
        seed,
        truth,
    }
}

/// The walk from node 0: indices in order until a node without alias, or
/// until a node repeats (cycle).
fn walk(g: &Graph) -> (Vec<usize>, bool) {
    let mut seen = vec![false; g.srcs.len()];
    let mut path = vec![0usize];
    seen[0] = true;
    let mut cur = 0;
    loop {
        match g.next[cur] {
            None => return (path, false),
            Some(j) => {
                if seen[j] {
                    path.push(j);
                    return (path, true);
                }
                seen[j] = true;
                path.push(j);
                cur = j;
            }
        }
    }
}

fn fwd_addr() -> SocketAddr {
    SocketAddr::new(IpAddr::V4(Ipv4Addr::new(10, 9, 9, 9)), 53)
}

fn graph_json(g: &Graph, qtype: QueryType, mode: ModeK) -> Value {
    json!({
        "kind": "alias-graph",
        "srcs": g.srcs.iter().map(|s| format!("{s:?}")).collect::<Vec<_>>(),
        "next": g.next,
        "fin": format!("{:?}", g.fin),
        "conflicting_cache": g.conflicting_cache,
        "chase_in_reply": g.chase_in_reply,
        "wild": g.wild,
        "qtype": u16::from(qtype),
        "mode": format!("{mode:?}"),
    })
}

fn graph_from_json(v: &Value) -> Option<(Graph, QueryType, ModeK)> {
    let srcs = v["srcs"]
        .as_array()?
        .iter()
        .map(|s| match s.as_str().unwrap_or("") {
            "Auth" => Src::Auth,
            "NonAuth" => Src::NonAuth,
            "Cache" => Src::Cache,
            _ => Src::Up,
        })
        .collect();
    let next = v["next"]
        .as_array()?
        .iter()
        .map(|n| n.as_u64().map(|x| x as usize))
        .collect();
    let fin = match v["fin"].as_str()? {
        "HasType" => Final::HasType,
        "NoData" => Final::NoData,
        _ => Final::Missing,
    };
    let mode = match v["mode"].as_str()? {
        "Local" => ModeK::Local,
        "Recursive" => ModeK::Recursive,
        _ => ModeK::Forwarding,
    };
    Some((
        Graph {
            srcs,
            next,
            fin,
            conflicting_cache: v["conflicting_cache"].as_bool().unwrap_or(false),
            chase_in_reply: v["chase_in_reply"].as_bool().unwrap_or(false),
            wild: v["wild"].as_bool().unwrap_or(false),
        },
        QueryType::from(v["qtype"].as_u64()? as u16),
        mode,
    ))
}

fn rtype_of(q: QueryType) -> RecordType {
    match q {
        QueryType::Record(t) => t,
        _ => RecordType::A,
    }
}

/// Run one graph and judge it.
fn check_graph(g: &Graph, qtype: QueryType, mode: ModeK) -> (Vec<(&'static str, String)>, RunResult, String) {
    let world = build_world(g, rtype_of(qtype));
    let q = question(&node_name(g, 0), qtype);
    let mut spec = base_spec(world.universe.clone(), vec![Step::Seed(world.seed.clone()), Step::Ask(q.clone())]);
    spec.zones = world.zones.clone();
    spec.mode = match mode {
        ModeK::Local => Mode::Local,
        ModeK::Recursive => Mode::Recursive,
        ModeK::Forwarding => Mode::Forwarding(fwd_addr()),
    };
    spec.explore_orders = false;
    // every 16th execution under a log-rendering subscriber (net.rs)
    let res = run_once_some_traced(&spec, &[], 16);
    let mut out: Vec<(&'static str, String)> = Vec::new();
    let ask = &res.asks[0];
    let elapsed_ms = (ask.end_ns - ask.start_ns) / 1_000_000;
    if elapsed_ms > 60_002 {
        out.push(("over-budget", format!("took {elapsed_ms} ms of virtual time")));
    }
    let (path, cyclic) = walk(g);
    let links: Vec<(DomainName, DomainName)> = path
        .windows(2)
        .map(|w| (node_name(g, w[0]), node_name(g, w[1])))
        .collect();
    let class;
    match &ask.outcome {
        Outcome::Panic(m) => {
            out.push(("panic", format!("panicked: {m}")));
            class = "panic".to_string();
        }
        Outcome::Err(e) => {
            class = format!("error: {}", match e {
                dns_resolver::util::types::ResolutionError::RecursionLimit => "recursion limit",
                dns_resolver::util::types::ResolutionError::DuplicateQuestion { .. } => "duplicate question",
                dns_resolver::util::types::ResolutionError::DeadEnd { .. } => "dead end",
                dns_resolver::util::types::ResolutionError::Timeout => "timeout",
                _ => "other",
            });
            // an error is acceptable for cycles, over-long chains, and when
            // the mode cannot reach the rest of the chain
            let unreachable = reachable_links(g, &path, mode) < links.len()
                || (g.next[*path.last().unwrap()].is_none() && !final_reachable(g, &path, mode));
            let nothing_local = matches!(g.fin, Final::Missing | Final::NoData) && links.is_empty();
            let not_chased = matches!(qtype, QueryType::Record(RecordType::CNAME) | QueryType::Wildcard);
            if !(cyclic || links.len() > 30 || unreachable || nothing_local || not_chased) {
                // the whole chain is resolvable: a negative final answer may
                // still be an error in local mode for non-authoritative data
                let final_src = g.srcs[*path.last().unwrap()];
                let negative = g.fin != Final::HasType;
                if !(negative && matches!(final_src, Src::NonAuth | Src::Cache)) {
                    out.push((
                        "chain-not-returned",
                        format!("resolvable chain of {} links ended in error {e}", links.len()),
                    ));
                }
            }
        }
        Outcome::Ok(r) => {
            let rrs = r.clone().rrs();
            class = format!("ok: {} records", if rrs.len() > 8 { ">8".into() } else { rrs.len().to_string() });
            if matches!(qtype, QueryType::Record(RecordType::CNAME) | QueryType::Wildcard) {
                // not chased (locally); soundness + presence of the alias
                for r in &rrs {
                    if !world.truth.contains(&(r.name.clone(), r.rtype_with_data.clone())) {
                        out.push(("unsound-record", format!("answer contains {} which is not in the graph", show_rr(r))));
                    }
                }
                if g.next[0].is_some() && !rrs.iter().any(|r| r.name == q.name && r.rtype_with_data.rtype() == RecordType::CNAME) {
                    out.push(("alias-record-missing", format!("answer {} lacks the alias record of the question name", show_rrs(&rrs))));
                }
            } else {
                // split into leading CNAMEs and the rest
                let k = rrs
                    .iter()
                    .take_while(|r| r.rtype_with_data.rtype() == RecordType::CNAME)
                    .count();
                let (chain, rest) = rrs.split_at(k);
                // chain order: starts at the question name, each owner is the previous target
                let mut expect_owner = q.name.clone();
                let mut seen = BTreeSet::new();
                for (i, c) in chain.iter().enumerate() {
                    if c.name != expect_owner {
                        out.push(("chain-order", format!("record #{i} {} is not owned by {}: {}", show_rr(c), show_name(&expect_owner), show_rrs(&rrs))));
                        break;
                    }
                    if !seen.insert(c.name.clone()) {
                        out.push(("alias-followed-twice", format!("alias {} occurs twice: {}", show_name(&c.name), show_rrs(&rrs))));
                        break;
                    }
                    if i >= links.len() || links[i].0 != c.name || !matches!(&c.rtype_with_data, RecordTypeWithData::CNAME { cname } if *cname == links[i].1) {
                        out.push(("chain-not-true", format!("record #{i} {} is not link #{i} of the true chain", show_rr(c))));
                        break;
                    }
                    if let RecordTypeWithData::CNAME { cname } = &c.rtype_with_data {
                        expect_owner = cname.clone();
                    }
                }
                for r in rest {
                    if r.rtype_with_data.rtype() == RecordType::CNAME {
                        out.push(("chain-order", format!("CNAME {} after non-CNAME records: {}", show_rr(r), show_rrs(&rrs))));
                    } else if !r.rtype_with_data.matches(qtype) {
                        out.push(("wrong-type-in-answer", format!("{} is not of the asked type", show_rr(r))));
                    } else if r.name != expect_owner {
                        out.push(("final-owner", format!("{} is not owned by the final target {}", show_rr(r), show_name(&expect_owner))));
                    } else if !world.truth.contains(&(r.name.clone(), r.rtype_with_data.clone())) {
                        out.push(("unsound-record", format!("{} is not in the graph", show_rr(r))));
                    }
                }
                let mut dedup = BTreeSet::new();
                for r in &rrs {
                    if !dedup.insert((r.name.clone(), r.rtype_with_data.clone())) {
                        out.push(("repeated-record", format!("{} occurs twice", show_rr(r))));
                    }
                }
                // completeness
                if out.is_empty() && !cyclic && links.len() <= 30 {
                    let reach = reachable_links(g, &path, mode);
                    if chain.len() < reach {
                        out.push((
                            "chain-not-whole",
                            format!(
                                "answer {} holds {} of the {} alias links this mode can follow",
                                show_rrs(&rrs),
                                chain.len(),
                                reach
                            ),
                        ));
                    } else if reach == links.len() && final_reachable(g, &path, mode) && g.fin == Final::HasType {
                        let fin_idx = *path.last().unwrap();
                        let want: BTreeSet<_> = world
                            .truth
                            .iter()
                            .filter(|(n, d)| *n == node_name(g, fin_idx) && d.rtype().matches(qtype))
                            .cloned()
                            .collect();
                        let got: BTreeSet<_> = rest.iter().map(|r| (r.name.clone(), r.rtype_with_data.clone())).collect();
                        if got != want {
                            out.push((
                                "final-records",
                                format!("final records {} but the target holds {} records of the type", show_rrs(rest), want.len()),
                            ));
                        }
                    }
                }
            }
        }
    }
    (out, res, class)
}

/// How many links (from the start) the mode can follow.
fn reachable_links(g: &Graph, path: &[usize], mode: ModeK) -> usize {
    let n_links = path.len() - 1;
    match mode {
        ModeK::Recursive => n_links,
        ModeK::Local => {
            // stops at the first node whose data is upstream
            path.iter().take(n_links).position(|i| g.srcs[*i] == Src::Up).unwrap_or(n_links)
        }
        ModeK::Forwarding => {
            // the forwarder is trusted to complete what it starts: after the
            // first upstream node only upstream nodes can follow
            match path.iter().position(|i| g.srcs[*i] == Src::Up) {
                None => n_links,
                Some(first_up) => {
                    let mut k = first_up;
                    while k < n_links && g.srcs[path[k]] == Src::Up {
                        k += 1;
                    }
                    if k < n_links {
                        // the forwarder's reply ends where the chain leaves its zones
                        k.min(n_links)
                    } else {
                        n_links
                    }
                }
            }
        }
    }
}

fn final_reachable(g: &Graph, path: &[usize], mode: ModeK) -> bool {
    let fin = *path.last().unwrap();
    match mode {
        ModeK::Recursive => true,
        ModeK::Local => reachable_links(g, path, mode) == path.len() - 1 && g.srcs[fin] != Src::Up,
        ModeK::Forwarding => {
            if reachable_links(g, path, mode) != path.len() - 1 {
                return false;
            }
            match path.iter().position(|i| g.srcs[*i] == Src::Up) {
                None => true,
                Some(first_up) => path[first_up..].iter().all(|i| g.srcs[*i] == Src::Up),
            }
        }
    }
}

// ---------------------------------------------------------------------------
// the space
// ---------------------------------------------------------------------------

fn graphs_for_item(tier: Tier, item: usize) -> Vec<Graph> {
    let max_l = tier.pick(5usize, 6usize);
    let mut out = Vec::new();
    if item <= max_l {
        // straight chains of `item` links: every assignment of the nodes to sources
        let l = item;
        let nodes = l + 1;
        let total = 4usize.pow(nodes as u32);
        for code in 0..total {
            let mut srcs = Vec::with_capacity(nodes);
            let mut c = code;
            for _ in 0..nodes {
                srcs.push(SRCS[c % 4]);
                c /= 4;
            }
            let next: Vec<Option<usize>> = (0..nodes).map(|i| if i + 1 < nodes { Some(i + 1) } else { None }).collect();
            for fin in [Final::HasType, Final::NoData, Final::Missing] {
                for chase in [false, true] {
                    if chase && !srcs.iter().any(|s| *s == Src::Up) {
                        continue;
                    }
                    out.push(Graph { srcs: srcs.clone(), next: next.clone(), fin, conflicting_cache: false, chase_in_reply: chase, wild: false });
                    // the same chain with its zone-held links written as deep-matching wildcards
                    if l >= 1 && l <= 4 && srcs[..l].iter().any(|s| *s != Src::Cache) {
                        out.push(Graph { srcs: srcs.clone(), next: next.clone(), fin, conflicting_cache: false, chase_in_reply: chase, wild: true });
                    }
                }
            }
        }
        return out;
    }
    match item - max_l - 1 {
        0 => {
            // long chains, homogeneous and two-segment source patterns
            for l in [7usize, 16, 31, 32, 33, 40] {
                let nodes = l + 1;
                let next: Vec<Option<usize>> = (0..nodes).map(|i| if i + 1 < nodes { Some(i + 1) } else { None }).collect();
                for s1 in SRCS {
                    for s2 in SRCS {
                        let srcs: Vec<Src> = (0..nodes).map(|i| if i < nodes / 2 { s1 } else { s2 }).collect();
                        for chase in [false, true] {
                            out.push(Graph { srcs: srcs.clone(), next: next.clone(), fin: Final::HasType, conflicting_cache: false, chase_in_reply: chase, wild: false });
                        }
                    }
                }
            }
        }
        1 => {
            // cycles: self-loop, 2-cycle, 3-cycle, tail into a cycle; every source assignment (<= 4 nodes)
            let shapes: Vec<Vec<Option<usize>>> = vec![
                vec![Some(0)],
                vec![Some(1), Some(0)],
                vec![Some(1), Some(2), Some(0)],
                vec![Some(1), Some(1)],
                vec![Some(1), Some(2), Some(1)],
                vec![Some(1), Some(2), Some(3), Some(1)],
                vec![Some(1), Some(2), Some(3), Some(2)],
            ];
            for next in shapes {
                let nodes = next.len();
                for code in 0..4usize.pow(nodes as u32) {
                    let mut srcs = Vec::new();
                    let mut c = code;
                    for _ in 0..nodes {
                        srcs.push(SRCS[c % 4]);
                        c /= 4;
                    }
                    for chase in [false, true] {
                        out.push(Graph { srcs: srcs.clone(), next: next.clone(), fin: Final::HasType, conflicting_cache: false, chase_in_reply: chase, wild: false });
                    }
                }
            }
        }
        _ => {
            // a cached alias that disagrees with the zone / upstream alias of node 1
            for s0 in SRCS {
                for s1 in [Src::Auth, Src::NonAuth] {
                    for s2 in SRCS {
                        out.push(Graph {
                            srcs: vec![s0, s1, s2],
                            next: vec![Some(1), Some(2), None],
                            fin: Final::HasType,
                            conflicting_cache: true,
                            chase_in_reply: false,
                            wild: false,
                        });
                    }
                }
            }
        }
    }
    out
}

fn n_items(tier: Tier) -> usize {
    tier.pick(5usize, 6usize) + 1 + 3
}

const QTYPES: [QueryType; 4] = [
    QueryType::Record(RecordType::A),
    QueryType::Record(RecordType::TXT),
    QueryType::Record(RecordType::CNAME),
    QueryType::Wildcard,
];

/// An alias that was repointed while its old record was still cached: the cache
/// holds two CNAME records for one owner (it keeps records with different RDATA side
/// by side).  Whichever of the two the resolver follows, the answer must be one
/// well-formed chain: one alias per owner, each record owned by the previous
/// record's target, only records of the final target after the chain.
fn changed_alias_cases(acc: &mut JsonAcc) {
    let p = GenParams::simple(1, NsStyle::InZoneGlue, 1);
    let u = Arc::new(build(&p));
    let (old, first, second, entry) = (dn("old.k."), dn("first.k."), dn("second.k."), dn("entry.k."));
    for order in 0..2usize {
        for with_entry in [false, true] {
            for qtype in [QueryType::Record(RecordType::A), QueryType::Record(RecordType::TXT)] {
                for mode in [ModeK::Local, ModeK::Recursive, ModeK::Forwarding] {
                    let mut seed = vec![rr(&old, cname(&first), 300), rr(&old, cname(&second), 300)];
                    if order == 1 {
                        seed.reverse();
                    }
                    seed.push(rr(&first, final_data(rtype_of(qtype), 1), 300));
                    seed.push(rr(&second, final_data(rtype_of(qtype), 2), 300));
                    let start = if with_entry {
                        seed.push(rr(&entry, cname(&old), 300));
                        entry.clone()
                    } else {
                        old.clone()
                    };
                    let q = question(&start, qtype);
                    let mut spec = base_spec(u.clone(), vec![Step::Seed(seed), Step::Ask(q.clone())]);
                    spec.mode = match mode {
                        ModeK::Local => Mode::Local,
                        ModeK::Recursive => Mode::Recursive,
                        ModeK::Forwarding => Mode::Forwarding(fwd_addr()),
                    };
                    spec.explore_orders = false;
                    let res = run_once(&spec, &[]);
                    acc.count("executions", 1);
                    acc.hist("two cached aliases at one owner", 1);
                    let mut problems: Vec<String> = Vec::new();
                    match &res.asks[0].outcome {
                        Outcome::Panic(m) => problems.push(format!("panicked: {m}")),
                        Outcome::Err(_) => {}
                        Outcome::Ok(r) => {
                            let rrs = r.clone().rrs();
                            let mut at = start.clone();
                            let mut owners = BTreeSet::new();
                            for x in &rrs {
                                match &x.rtype_with_data {
                                    RecordTypeWithData::CNAME { cname: t } => {
                                        if x.name != at {
                                            problems.push(format!("{} is not owned by {}", show_rr(x), show_name(&at)));
                                        }
                                        if !owners.insert(x.name.clone()) {
                                            problems.push(format!("two aliases for {}", show_name(&x.name)));
                                        }
                                        at = t.clone();
                                    }
                                    _ => {
                                        if x.name != at {
                                            problems.push(format!("{} is not owned by the final target {}", show_rr(x), show_name(&at)));
                                        }
                                    }
                                }
                            }
                        }
                    }
                    for m in problems {
                        acc.violate(
                            "chain-order",
                            format!(
                                "cache holds two aliases for old.k. (order {order}, asked through entry.k.: {with_entry}) question {} {} mode {mode:?}: {m} :: outcome {}",
                                show_name(&start),
                                qtype,
                                show_outcome(&res.asks[0].outcome)
                            ),
                            json!({"kind": "changed-alias"}),
                            None,
                        );
                    }
                }
            }
        }
    }
}

fn run_slice(tier: Tier, item: usize, sub: usize, nsub: usize, acc: &mut JsonAcc) {
    if item == 0 && sub == 0 {
        changed_alias_cases(acc);
    }
    let graphs = graphs_for_item(tier, item);
    for (gi, g) in graphs.iter().enumerate() {
        if gi % nsub != sub {
            continue;
        }
        for qtype in QTYPES {
            if !matches!(qtype, QueryType::Record(RecordType::A)) && g.srcs.len() > 5 && tier == Tier::Quick {
                continue;
            }
            for mode in [ModeK::Local, ModeK::Recursive, ModeK::Forwarding] {
                if acc.trace {
                    acc.announce(&graph_json(g, qtype, mode));
                }
                let (findings, res, class) = check_graph(g, qtype, mode);
                acc.count("executions", 1);
                acc.count("exchanges", res.log.len() as u64);
                acc.hist(&format!("{mode:?}: {class}"), 1);
                let srcs: BTreeSet<String> = g.srcs.iter().map(|s| format!("{s:?}")).collect();
                if srcs.len() >= 2 && g.srcs.len() >= 3 {
                    acc.count("nontrivial", 1);
                }
                acc.states.insert(fnv64(format!("{}|{:?}|{}", g.srcs.len(), srcs, class).as_bytes()));
                for (clause, msg) in findings {
                    acc.violate(
                        clause,
                        format!(
                            "graph srcs={:?} next={:?} final={:?} conflicting_cache={} chase={} question {} {} mode {:?}: {} :: outcome {} :: log {}",
                            g.srcs, g.next, g.fin, g.conflicting_cache, g.chase_in_reply,
                            show_name(&node_name(g, 0)), qtype, mode, msg,
                            show_outcome(&res.asks[0].outcome),
                            show_log(&res.log)
                        ),
                        graph_json(g, qtype, mode),
                        None,
                    );
                }
                if g.srcs.len() == 4 && srcs.len() == 4 && mode == ModeK::Recursive {
                    acc.sample(json!({
                        "graph": graph_json(g, qtype, mode),
                        "outcome": show_outcome(&res.asks[0].outcome),
                        "exchanges": show_log(&res.log),
                    }));
                }
            }
        }
    }
}

/// Items are (graph family, sub-slice) pairs so that the big families are
/// spread over all workers.
const NSUB: usize = 16;

pub fn run(ctx: &Ctx) -> i32 {
    let n = n_items(ctx.tier) * NSUB;
    let (acc, crashes) = procpar::parent(ctx, n, ctx.tier.pick(90.0, 1800.0), &[]);
    let mut report = Report::new();
    let c = |k: &str| acc.counters.get(k).copied().unwrap_or(0);
    report.evaluations = c("executions");
    report.transitions = c("exchanges") + c("executions");
    report.traces_validated = report.evaluations;
    report.distinct_nontrivial = c("nontrivial");
    procpar::into_report(acc, crashes, &mut report);
    report.rule = "every straight alias chain of 0..L links with every assignment of its nodes to the four sources (authoritative zone a., non-authoritative zone data under n., cache entries under k., upstream zone u.) x final target {has the type, other type only, missing} x upstream replies {one link per reply, chained in one reply}; chains of 7/16/31/32/33/40 links (homogeneous and two-segment source patterns); every cycle shape (self, 2, 3, tail into cycle) in every source assignment; a cached alias contradicting the real one; x question types A, TXT, CNAME, ANY x modes local / recursive / forwarding; one execution = one run of dns_resolver::resolve (child process, 2 MiB stack); non-trivial = graphs of >= 3 nodes mixing >= 2 sources".into();
    report.bounds = json!({
        "max_exhaustive_chain_length": ctx.tier.pick(5, 6),
        "long_chains": [7, 16, 31, 32, 33, 40],
        "cycle_shapes": 7,
    });
    report.assumptions = vec![
        "D5: CNAME/ANY questions are only checked for soundness and presence of the alias record".into(),
        "D7: a complete correct chain longer than the limit is accepted".into(),
        "local mode cannot follow upstream links; forwarding mode relies on the forwarder for everything after the first upstream link: completeness is only required for what the mode can reach, an error is accepted where the rest is unreachable".into(),
    ];
    finish(ctx, report)
}

fn replay_inner(ctx: &Ctx, v: &Value) -> i32 {
    if v["kind"] == "changed-alias" {
        let mut acc = JsonAcc::default();
        changed_alias_cases(&mut acc);
        for x in &acc.violations {
            println!("  finding [{}]: {}", x.clause, x.summary);
        }
        return if acc.violations.is_empty() {
            println!("replay: property holds on this case");
            0
        } else {
            println!("VIOLATION property={} replay=(replayed case)", ctx.id);
            1
        };
    }
    let (g, qtype, mode) = match graph_from_json(v) {
        Some(x) => x,
        None => return 2,
    };
    let (findings, res, class) = check_graph(&g, qtype, mode);
    println!("graph: {}", graph_json(&g, qtype, mode));
    println!("exchanges: {}", show_log(&res.log));
    println!("outcome ({class}): {}", show_outcome(&res.asks[0].outcome));
    for (c, m) in &findings {
        println!("  finding [{c}]: {m}");
    }
    if findings.is_empty() {
        println!("replay: property holds on this case");
        0
    } else {
        println!("VIOLATION property={} replay=(replayed case)", ctx.id);
        1
    }
}

pub fn replay(ctx: &Ctx, v: &Value) -> i32 {
    procpar::replay_in_child(ctx, v)
}

pub fn worker(args: &[String]) -> i32 {
    if let Some(v) = procpar::replay_arg(args) {
        let ctx = Ctx {
            id: "C10",
            tier: Tier::Quick,
            seed: 0,
            start: std::time::Instant::now(),
            threads: 1,
        };
        return replay_inner(&ctx, &v);
    }
    procpar::child_main(args, move |tier, i, acc| run_slice(tier, i / NSUB, i % NSUB, NSUB, acc))
}
