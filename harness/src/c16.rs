//! C16 — domain names are always well-formed and compared case-insensitively.
//!
//! Bounded-exhaustive enumeration of every way the code constructs a
//! `DomainName` (from labels, from dotted text, from the wire, by joining a
//! relative name to an origin through `make_subdomain_of`,
//! `from_relative_dotted_string` and the zone-file reader), compared with a
//! reference that works on plain `Vec<Vec<u8>>` label lists:
//!  * invariant on every name obtained: last label empty, no other empty label,
//!    labels <= 63, `len == sum(1 + |label|) <= 255`, no upper-case ASCII letter;
//!  * constructors succeed exactly when the reference says the limits hold, and
//!    the labels obtained are the reference's (ASCII letters lower-cased, every
//!    other octet untouched);
//!  * `==`, `Hash`, `Ord`, `Zones::get` and `SharedCache` lookups do not see
//!    letter case;
//!  * dotted text of a name made of ASCII labels without dots reads back as the
//!    same name;
//!  * `is_subdomain_of` is the label-wise suffix relation.

use crate::c03;
use crate::common::*;
use crate::refwire;
use crate::util::*;
use dns_resolver::cache::SharedCache;
use dns_types::protocol::types::*;
use dns_types::zones::types::{Zone, Zones};
use serde_json::{json, Value};
use std::collections::hash_map::DefaultHasher;
use std::collections::BTreeMap;
use std::hash::{Hash, Hasher};
use std::sync::atomic::{AtomicBool, AtomicUsize, Ordering};

type Labels = Vec<Vec<u8>>; // non-root labels, leftmost first

// ---------------------------------------------------------------------------------------------
// reference
// ---------------------------------------------------------------------------------------------

fn ref_lower(b: &[u8]) -> Vec<u8> {
    b.iter().map(|c| if (b'A'..=b'Z').contains(c) { c + 32 } else { *c }).collect()
}

/// wire length of the absolute name made of these non-root labels
fn ref_len(l: &Labels) -> usize {
    l.iter().map(|x| 1 + x.len()).sum::<usize>() + 1
}

/// May these non-root labels form a name?
fn ref_valid(l: &Labels) -> bool {
    l.iter().all(|x| !x.is_empty() && x.len() <= 63) && ref_len(l) <= 255
}

fn ref_is_suffix(sub: &Labels, sup: &Labels) -> bool {
    sub.len() >= sup.len() && sub[sub.len() - sup.len()..] == sup[..]
}

/// Reference reading of an absolute dotted string; `None` = must be refused.
/// (The empty string is not judged, D9.)
fn ref_parse_absolute(s: &str) -> Option<Labels> {
    if s == "." {
        return Some(vec![]);
    }
    let body = s.strip_suffix('.')?;
    let labels: Labels = body.split('.').map(|x| ref_lower(x.as_bytes())).collect();
    if ref_valid(&labels) {
        Some(labels)
    } else {
        None
    }
}

/// The invariant every constructed name must satisfy.
pub fn invariant(n: &DomainName) -> Result<(), String> {
    if n.labels.is_empty() {
        return Err("no labels at all".into());
    }
    let last = n.labels.len() - 1;
    let mut total = 0usize;
    for (i, l) in n.labels.iter().enumerate() {
        let o = l.octets();
        if o.len() > 63 {
            return Err(format!("label {i} has {} octets", o.len()));
        }
        if i == last && !o.is_empty() {
            return Err("last label is not the root label".into());
        }
        if i != last && o.is_empty() {
            return Err(format!("empty label at position {i}"));
        }
        if o.iter().any(|c| c.is_ascii_uppercase()) {
            return Err(format!("label {i} holds an upper-case letter"));
        }
        total += 1 + o.len();
    }
    if n.len != total {
        return Err(format!("recorded len {} but encoded length {total}", n.len));
    }
    if total > 255 {
        return Err(format!("encoded length {total} > 255"));
    }
    Ok(())
}

fn invariant_ok(n: &DomainName) -> bool {
    if n.labels.is_empty() {
        return false;
    }
    let last = n.labels.len() - 1;
    let mut total = 0usize;
    for (i, l) in n.labels.iter().enumerate() {
        let o = l.octets();
        if o.len() > 63 || (i == last) != o.is_empty() || o.iter().any(|c| c.is_ascii_uppercase()) {
            return false;
        }
        total += 1 + o.len();
    }
    n.len == total && total <= 255
}

fn labels_of(n: &DomainName) -> Labels {
    n.labels.iter().filter(|l| !l.is_empty()).map(|l| l.octets().to_vec()).collect()
}

fn show_labels(l: &Labels) -> String {
    if l.is_empty() {
        return ".".into();
    }
    let mut s = String::new();
    for x in l {
        if x.len() > 12 {
            s.push_str(&format!("{}…({})", show_bytes(&x[..6]), x.len()));
        } else {
            s.push_str(&show_bytes(x));
        }
        s.push('.');
    }
    s
}

fn hash_of<T: Hash>(t: &T) -> u64 {
    let mut h = DefaultHasher::new();
    t.hash(&mut h);
    h.finish()
}

// ---------------------------------------------------------------------------------------------
// accumulation
// ---------------------------------------------------------------------------------------------

#[derive(Default)]
struct Acc {
    evals: u64,
    names: u64,
    hist: BTreeMap<String, u64>,
    nontrivial: Vec<u64>,
    viols: Vec<Violation>,
    viol_counts: BTreeMap<String, u64>,
    samples: Vec<Value>,
}

impl Acc {
    fn h(&mut self, k: &str) {
        match self.hist.get_mut(k) {
            Some(v) => *v += 1,
            None => {
                self.hist.insert(k.to_string(), 1);
            }
        }
    }
    fn nt(&mut self, tag: &str, data: &[u8]) {
        let mut h = fnv64(tag.as_bytes());
        h ^= fnv64(data).rotate_left(17);
        self.nontrivial.push(h);
    }
    fn bad(&mut self, clause: &str, summary: String, replay: Value) {
        *self.viol_counts.entry(clause.to_string()).or_insert(0) += 1;
        let have = self.viols.iter().filter(|v| v.clause == clause).count();
        if have < 6 {
            self.viols.push(Violation { clause: clause.into(), summary, replay, slug: None });
        } else if let Some(pos) = self.viols.iter().position(|v| v.clause == clause && v.summary.len() > summary.len()) {
            // keep the shortest witnesses
            self.viols[pos] = Violation { clause: clause.into(), summary, replay, slug: None };
        }
    }
    /// invariant + expected labels of a name that was obtained
    fn check_name(&mut self, what: &str, n: &DomainName, expect: Option<&Labels>, replay: &Value) -> bool {
        self.names += 1;
        if let Err(e) = invariant(n) {
            self.bad("invariant", format!("{what}: {e} (name `{}`)", show_name(n)), replay.clone());
            return false;
        }
        if let Some(e) = expect {
            if labels_of(n) != *e {
                self.bad(
                    "labels",
                    format!("{what}: obtained `{}` but the reference reads `{}`", show_name(n), show_labels(e)),
                    replay.clone(),
                );
                return false;
            }
        }
        true
    }
    fn merge(&mut self, o: Acc) {
        self.evals += o.evals;
        self.names += o.names;
        for (k, v) in o.hist {
            *self.hist.entry(k).or_insert(0) += v;
        }
        self.nontrivial.extend(o.nontrivial);
        for (k, v) in o.viol_counts {
            *self.viol_counts.entry(k).or_insert(0) += v;
        }
        self.viols.extend(o.viols);
        for s in o.samples {
            if self.samples.len() < 8 {
                self.samples.push(s);
            }
        }
    }
}

thread_local! {
    static GUARDED: std::cell::Cell<bool> = const { std::cell::Cell::new(false) };
}

/// Panics of the code under test are caught and judged by the caller; their
/// messages are not printed (panics of the harness itself still are).
fn install_quiet_hook() {
    let default = std::panic::take_hook();
    std::panic::set_hook(Box::new(move |info| {
        if !GUARDED.with(|g| g.get()) {
            default(info);
        }
    }));
}

fn guarded<T>(f: impl FnOnce() -> T) -> Result<T, ()> {
    let before = GUARDED.with(|g| g.replace(true));
    let r = std::panic::catch_unwind(std::panic::AssertUnwindSafe(f)).map_err(|_| ());
    GUARDED.with(|g| g.set(before));
    r
}

// ---------------------------------------------------------------------------------------------
// A/B: from_labels, Label::try_from
// ---------------------------------------------------------------------------------------------

fn label_bytes(len: usize, salt: usize) -> Vec<u8> {
    // letters of both cases, a digit and a hyphen, so lower-casing is visible
    const AL: &[u8] = b"aBcDeFgH1-";
    (0..len).map(|i| AL[(i + salt) % AL.len()]).collect()
}

/// Every vector of label lengths with encoded length 240..=262 made of: any
/// number of labels of 62 or 63 octets, labels of 31 octets (only in vectors
/// without a free label), at most `small` labels of length 1 or 2, and at most
/// one "free" label of any other length 3..=61 — each in any position.  The
/// free label makes every total in the range (in particular 254, 255, 256)
/// reachable in many ways.
fn length_vectors(small: usize, free_with_31: bool) -> Vec<Vec<usize>> {
    struct St {
        smalls: usize,
        free: bool,
        has31: bool,
    }
    fn rec(cur: &mut Vec<usize>, total: usize, st: &mut St, max_small: usize, free_with_31: bool, out: &mut Vec<Vec<usize>>) {
        let enc = total + 1;
        if (240..=262).contains(&enc) {
            out.push(cur.clone());
        }
        if enc >= 262 {
            return;
        }
        for l in 1..=63usize {
            let is_small = l <= 2;
            let is_big = l == 62 || l == 63;
            let is31 = l == 31;
            let is_free = !is_small && !is_big && !is31;
            if total + 1 + l + 1 > 262 {
                continue;
            }
            if is_small && st.smalls >= max_small {
                continue;
            }
            if is_free && (st.free || (st.has31 && !free_with_31)) {
                continue;
            }
            if is31 && st.free && !free_with_31 {
                continue;
            }
            let (s0, f0, h0) = (st.smalls, st.free, st.has31);
            st.smalls += usize::from(is_small);
            st.free |= is_free;
            st.has31 |= is31;
            cur.push(l);
            rec(cur, total + 1 + l, st, max_small, free_with_31, out);
            cur.pop();
            st.smalls = s0;
            st.free = f0;
            st.has31 = h0;
        }
    }
    let mut out = Vec::new();
    rec(&mut Vec::new(), 0, &mut St { smalls: 0, free: false, has31: false }, small, free_with_31, &mut out);
    out
}

fn check_from_labels(acc: &mut Acc, lens: &[usize], salt: usize) {
    let raw: Labels = lens.iter().enumerate().map(|(i, l)| label_bytes(*l, i + salt)).collect();
    let lowered: Labels = raw.iter().map(|l| ref_lower(l)).collect();
    let mk = |ls: &Labels, root_at: Option<usize>| -> Vec<Label> {
        let mut v: Vec<Label> = ls.iter().map(|l| Label::try_from(&l[..]).expect("harness label")).collect();
        if let Some(p) = root_at {
            v.insert(p, Label::new());
        }
        v
    };
    let replay = |root_at: Option<usize>| json!({"kind": "from_labels", "lengths": lens, "salt": salt, "empty_label_at": root_at});
    // the empty label in every position (position == len: the well-formed place)
    for p in 0..=raw.len() {
        acc.evals += 1;
        let want_ok = p == raw.len() && ref_valid(&lowered);
        let got = guarded(|| DomainName::from_labels(mk(&raw, Some(p))));
        let tag = if want_ok { "from_labels/accepted" } else if p == raw.len() { "from_labels/refused-too-long" } else { "from_labels/refused-inner-empty-label" };
        acc.h(tag);
        if p == raw.len() {
            let mut d: Vec<u8> = lens.iter().map(|l| *l as u8).collect();
            d.push(salt as u8);
            acc.nt("from_labels", &d);
        }
        match got {
            Err(()) => acc.bad("panic", format!("from_labels panicked for lengths {lens:?} with the empty label at {p}"), replay(Some(p))),
            Ok(Some(n)) => {
                if !want_ok {
                    acc.bad(
                        "accepts-invalid",
                        format!("from_labels accepted lengths {lens:?} (encoded length {}) with the empty label at position {p} of {}", ref_len(&lowered), raw.len()),
                        replay(Some(p)),
                    );
                } else {
                    acc.check_name(&format!("from_labels lengths {lens:?}"), &n, Some(&lowered), &replay(Some(p)));
                }
            }
            Ok(None) => {
                if want_ok {
                    acc.bad(
                        "rejects-valid",
                        format!("from_labels refused lengths {lens:?} (encoded length {})", ref_len(&lowered)),
                        replay(Some(p)),
                    );
                }
            }
        }
    }
    // no terminating empty label at all
    acc.evals += 1;
    acc.h("from_labels/refused-no-root");
    if let Ok(Some(_)) = guarded(|| DomainName::from_labels(mk(&raw, None))) {
        acc.bad("accepts-invalid", format!("from_labels accepted lengths {lens:?} without a root label"), replay(None));
    }
}

fn check_label_try_from(acc: &mut Acc) {
    for len in [0usize, 1, 2, 31, 62, 63, 64, 65, 127, 128, 255, 256, 1000] {
        for salt in 0..3 {
            acc.evals += 1;
            let raw = label_bytes(len, salt);
            let got = guarded(|| Label::try_from(&raw[..]));
            acc.nt("label", &[len as u8, (len >> 8) as u8, salt as u8]);
            let replay = json!({"kind": "label", "len": len, "salt": salt});
            match got {
                Err(()) => acc.bad("panic", format!("Label::try_from panicked at {len} octets"), replay),
                Ok(Ok(l)) => {
                    acc.h("label/accepted");
                    if len > 63 {
                        acc.bad("accepts-invalid", format!("Label::try_from accepted {len} octets"), replay);
                    } else if l.octets()[..] != ref_lower(&raw)[..] || l.len() as usize != len {
                        acc.bad("labels", format!("Label::try_from({}) holds {}", show_bytes(&raw), show_bytes(l.octets())), replay);
                    }
                }
                Ok(Err(_)) => {
                    acc.h("label/refused");
                    if len <= 63 {
                        acc.bad("rejects-valid", format!("Label::try_from refused {len} octets"), replay);
                    }
                }
            }
        }
    }
    // every octet value alone in a label: only A-Z change
    for c in 0..=255u8 {
        acc.evals += 1;
        let raw = [b'x', c, b'Y'];
        match guarded(|| Label::try_from(&raw[..])) {
            Ok(Ok(l)) if l.octets()[..] == ref_lower(&raw)[..] => acc.h("label/octet-preserved"),
            Ok(Ok(l)) => acc.bad("labels", format!("Label::try_from({}) holds {}", show_bytes(&raw), show_bytes(l.octets())), json!({"kind": "label-octet", "octet": c})),
            _ => acc.bad("rejects-valid", format!("Label::try_from refused a 3-octet label holding {c:#04x}"), json!({"kind": "label-octet", "octet": c})),
        }
    }
}

// ---------------------------------------------------------------------------------------------
// C: from_dotted_string
// ---------------------------------------------------------------------------------------------

fn check_dotted(acc: &mut Acc, s: &str, space: &str) {
    acc.evals += 1;
    let replay = json!({"kind": "dotted", "text": s});
    if s.is_empty() {
        // D9: not judged, but whatever comes back must satisfy the invariant
        if let Ok(Some(n)) = guarded(|| DomainName::from_dotted_string(s)) {
            acc.check_name("from_dotted_string(\"\")", &n, None, &replay);
        }
        acc.h(&format!("{space}/empty-string-not-judged"));
        return;
    }
    let want = ref_parse_absolute(s);
    let got = guarded(|| DomainName::from_dotted_string(s));
    let near_limit = s.len() > 200 || s.split('.').any(|l| l.len() >= 63);
    if near_limit || s.bytes().any(|c| c.is_ascii_uppercase()) || want.is_none() {
        acc.nt("dotted", s.as_bytes());
    }
    let short = if s.len() > 40 { format!("{}…({} chars)", &s[..30], s.len()) } else { s.to_string() };
    match (got, want) {
        (Err(()), _) => acc.bad("panic", format!("from_dotted_string panicked on {short:?}"), replay),
        (Ok(Some(n)), Some(w)) => {
            acc.h(&format!("{space}/accepted"));
            if acc.check_name(&format!("from_dotted_string({short:?})"), &n, Some(&w), &replay) {
                // FromStr must agree
                if s.parse::<DomainName>().ok().as_ref() != Some(&n) {
                    acc.bad("labels", format!("FromStr differs from from_dotted_string on {short:?}"), replay);
                }
            }
        }
        (Ok(Some(n)), None) => {
            acc.h(&format!("{space}/accepted-but-invalid"));
            acc.bad("accepts-invalid", format!("from_dotted_string accepted {short:?} as `{}`", show_name(&n)), replay);
        }
        (Ok(None), Some(w)) => {
            acc.h(&format!("{space}/refused-but-valid"));
            acc.bad("rejects-valid", format!("from_dotted_string refused {short:?} (reference: `{}`, {} octets)", show_labels(&w), ref_len(&w)), replay);
        }
        (Ok(None), None) => acc.h(&format!("{space}/refused")),
    }
}

fn small_string(mut idx: u64, maxlen: usize) -> String {
    // all strings of length 0..=maxlen over {a, B, .}, shortest first
    const AL: [char; 3] = ['a', 'B', '.'];
    let mut len = 0usize;
    let mut block = 1u64;
    while idx >= block {
        idx -= block;
        block *= 3;
        len += 1;
        if len > maxlen {
            return String::new();
        }
    }
    let mut v = vec!['a'; len];
    for i in (0..len).rev() {
        v[i] = AL[(idx % 3) as usize];
        idx /= 3;
    }
    v.into_iter().collect()
}

fn n_small_strings(maxlen: usize) -> u64 {
    (0..=maxlen as u32).map(|k| 3u64.pow(k)).sum()
}

/// Boundary strings: for every label stride 1..=64 a name of wire length
/// 250..=258 (labels of `stride` octets, the last one shortened to fit), written
/// with and without the final dot, in lower and mixed case.
fn boundary_strings() -> Vec<String> {
    let mut v = Vec::new();
    for stride in 1..=64usize {
        for wire in 250..=258usize {
            let mut rem = wire - 1;
            let mut labels: Vec<String> = Vec::new();
            let mut i = 0usize;
            while rem > 0 {
                let take = if rem >= stride + 1 + 2 || rem == stride + 1 { stride + 1 } else { rem };
                if take < 2 {
                    break;
                }
                let c = if i % 2 == 0 { 'k' } else { 'Z' };
                labels.push(std::iter::repeat(c).take(take - 1).collect());
                rem -= take;
                i += 1;
            }
            if rem != 0 {
                continue;
            }
            let body = labels.join(".");
            v.push(format!("{body}."));
            v.push(body.clone());
            v.push(format!("{body}.."));
            v.push(format!(".{body}."));
        }
    }
    for n in [62usize, 63, 64, 65, 255, 256] {
        let l: String = std::iter::repeat('m').take(n).collect();
        v.push(format!("{l}."));
        v.push(format!("a.{l}."));
        v.push(format!("{l}.a."));
        v.push(l);
    }
    for s in [".", "..", "...", "a", "a..", ".a", "a..b.", "A.", "a.B.", "*.a.", "@.", " .", "a b.", "-.", "0."] {
        v.push(s.to_string());
    }
    v
}

// ---------------------------------------------------------------------------------------------
// E: joins
// ---------------------------------------------------------------------------------------------

/// non-root labels (letters only) whose encoding takes exactly `n` octets
fn labels_taking(n: usize, fill: u8) -> Option<Labels> {
    if n == 1 {
        return None;
    }
    let mut out = Vec::new();
    let mut rem = n;
    while rem > 0 {
        let take = if rem > 64 && rem != 65 { 64 } else if rem == 65 { 63 } else { rem };
        out.push(vec![fill; take - 1]);
        rem -= take;
    }
    Some(out)
}

fn text_of(l: &Labels) -> String {
    l.iter().map(|x| String::from_utf8_lossy(x).to_string()).collect::<Vec<_>>().join(".")
}

/// Builds the name through the public fields, so that inputs handed to the
/// functions under test do not depend on `from_labels` (which is itself judged).
fn abs_name(l: &Labels) -> DomainName {
    let mut labels: Vec<Label> = l.iter().map(|x| Label::try_from(&x[..]).expect("harness label")).collect();
    labels.push(Label::new());
    let len = ref_len(l);
    DomainName { labels, len }
}

fn zone_owner_of_a(z: &Zone) -> Option<DomainName> {
    for (name, recs) in z.all_records() {
        if recs.iter().any(|r| matches!(r.rtype_with_data, RecordTypeWithData::A { .. })) {
            return Some(name.clone());
        }
    }
    None
}

fn zone_cname_target(z: &Zone) -> Option<DomainName> {
    for (_, recs) in z.all_records() {
        for r in recs {
            if let RecordTypeWithData::CNAME { cname } = &r.rtype_with_data {
                return Some(cname.clone());
            }
        }
    }
    None
}

fn check_join(acc: &mut Acc, r: usize, o: usize) {
    // relative part of r octets, origin of o octets (root included)
    let rel = match labels_taking(r, b'R') {
        Some(l) => l,
        None => return,
    };
    let org: Labels = if o == 1 { vec![] } else { match labels_taking(o - 1, b'g') { Some(l) => l, None => return } };
    let joined: Labels = rel.iter().chain(org.iter()).map(|l| ref_lower(l)).collect();
    let want_ok = ref_valid(&joined);
    debug_assert_eq!(ref_len(&joined), r + o);
    let origin = abs_name(&org);
    let rel_text = text_of(&rel);
    let origin_text = if org.is_empty() { ".".to_string() } else { format!("{}.", text_of(&org)) };
    let replay = json!({"kind": "join", "relative_octets": r, "origin_octets": o});
    let tag = if want_ok { "join/fits" } else { "join/too-long" };
    acc.nt("join", &[(r & 0xff) as u8, (r >> 8) as u8, (o & 0xff) as u8, (o >> 8) as u8]);

    let mut judge = |acc: &mut Acc, route: &str, got: Result<Option<DomainName>, ()>| {
        acc.evals += 1;
        acc.h(&format!("{tag}/{route}"));
        match got {
            Err(()) => acc.bad("panic", format!("{route} panicked joining {r} + {o} octets"), replay.clone()),
            Ok(Some(n)) => {
                if want_ok {
                    acc.check_name(&format!("{route} joining {r} + {o} octets"), &n, Some(&joined), &replay);
                } else if invariant(&n).is_err() || labels_of(&n) == joined {
                    acc.bad("accepts-invalid", format!("{route} produced a name of {} octets from {r} + {o} octets", n.len), replay.clone());
                } else {
                    acc.bad("labels", format!("{route} joining {r} + {o} octets (too long) produced the unrelated name `{}`", show_name(&n)), replay.clone());
                }
            }
            Ok(None) => {
                if want_ok {
                    acc.bad("rejects-valid", format!("{route} refused to join {r} + {o} = {} octets", r + o), replay.clone());
                }
            }
        }
    };

    let rel_abs = abs_name(&rel);
    judge(acc, "make_subdomain_of", guarded(|| rel_abs.make_subdomain_of(&origin)));
    judge(acc, "from_relative_dotted_string", guarded(|| DomainName::from_relative_dotted_string(&origin, &rel_text)));
    // zone file: owner relative to $ORIGIN
    let z1 = format!("$ORIGIN {origin_text}\n{rel_text} 300 IN A 10.0.0.1\n");
    judge(acc, "zone-file-owner", guarded(|| Zone::deserialise(&z1).ok().and_then(|z| zone_owner_of_a(&z))));
    // zone file: RDATA name relative to $ORIGIN
    let z2 = format!("$ORIGIN {origin_text}\nx.zz. 300 IN CNAME {rel_text}\n");
    judge(acc, "zone-file-rdata", guarded(|| Zone::deserialise(&z2).ok().and_then(|z| zone_cname_target(&z))));
    // zone file: relative $ORIGIN joined to the previous origin, then `@`
    let z3 = format!("$ORIGIN {origin_text}\n$ORIGIN {rel_text}\n@ 300 IN A 10.0.0.1\n");
    judge(acc, "zone-file-relative-origin", guarded(|| Zone::deserialise(&z3).ok().and_then(|z| zone_owner_of_a(&z))));
}

// ---------------------------------------------------------------------------------------------
// F: case patterns
// ---------------------------------------------------------------------------------------------

const CASE_POOL: [&str; 30] = [
    "a.", "z.", "ab.", "a.b.", "abc.", "a.b.c.", "ab.cd.", "abcdef.", "a-b.c.", "a1.b2.", "x.y.z.", "www.ex.", "m.n.op.",
    "a.a.", "b.a.", "ba.", "a.ba.", "q-1.r.", "0a.", "a0.", "k.", "kk.", "k.k.k.", "abc.d.", "d.abc.", "ab.c.d.", "e.f.gh.", "z9.y8.x7.", "o.p.q.", "az.za.",
];

fn apply_case(base: &str, mask: u32) -> String {
    let mut k = 0;
    base.chars()
        .map(|c| {
            if c.is_ascii_lowercase() {
                let up = mask & (1 << k) != 0;
                k += 1;
                if up {
                    c.to_ascii_uppercase()
                } else {
                    c
                }
            } else {
                c
            }
        })
        .collect()
}

fn wire_question(labels: &Labels) -> Vec<u8> {
    let mut m = vec![0x51, 0x51, 0, 0, 0, 1, 0, 0, 0, 0, 0, 0];
    for l in labels {
        m.push(l.len() as u8);
        m.extend_from_slice(l);
    }
    m.extend_from_slice(&[0, 0, 1, 0, 1]);
    m
}

fn name_from_wire_labels(labels: &Labels) -> Option<DomainName> {
    Message::from_octets(&wire_question(labels)).ok().and_then(|m| m.questions.into_iter().next()).map(|q| q.name)
}

fn check_case(acc: &mut Acc, pi: usize, pool: &[DomainName]) {
    let base_text = CASE_POOL[pi];
    let base = &pool[pi];
    let letters = base_text.chars().filter(|c| c.is_ascii_lowercase()).count() as u32;
    let base_labels = labels_of(base);
    let full = (1u32 << letters) - 1;
    for mask in 0..=full {
        let text = apply_case(base_text, mask);
        let raw: Labels = text.trim_end_matches('.').split('.').map(|l| l.as_bytes().to_vec()).collect();
        let replay = json!({"kind": "case", "base": base_text, "variant": text});
        if mask != 0 {
            acc.nt("case", text.as_bytes());
        }
        let built = guarded(|| {
            let n_a = DomainName::from_dotted_string(&text);
            let mut ls: Vec<Label> = raw.iter().map(|l| Label::try_from(&l[..]).expect("harness label")).collect();
            ls.push(Label::new());
            let n_b = DomainName::from_labels(ls);
            let n_c = name_from_wire_labels(&raw);
            (n_a, n_b, n_c)
        });
        let (n_a, n_b, n_c) = match built {
            Ok(x) => x,
            Err(()) => {
                acc.bad("panic", format!("constructing `{text}` panicked"), replay);
                continue;
            }
        };
        for (route, n) in [("from_dotted_string", n_a), ("from_labels", n_b), ("wire", n_c)] {
            acc.evals += 1;
            acc.h(&format!("case/{route}"));
            let n = match n {
                Some(n) => n,
                None => {
                    acc.bad("rejects-valid", format!("{route} refused `{text}`"), replay.clone());
                    continue;
                }
            };
            if !acc.check_name(&format!("{route}(`{text}`)"), &n, Some(&base_labels), &replay) {
                continue;
            }
            if n != *base {
                acc.bad("case-eq", format!("`{text}` ({route}) != `{base_text}`"), replay.clone());
            }
            if hash_of(&n) != hash_of(base) {
                acc.bad("case-hash", format!("`{text}` ({route}) hashes differently from `{base_text}`"), replay.clone());
            }
            if n.cmp(base) != std::cmp::Ordering::Equal || n.partial_cmp(base) != Some(std::cmp::Ordering::Equal) {
                acc.bad("case-ord", format!("`{text}` ({route}) does not compare Equal to `{base_text}`"), replay.clone());
            }
            // ordering against every other pool name does not depend on the case pattern
            for other in pool {
                if n.cmp(other) != base.cmp(other) || other.cmp(&n) != other.cmp(base) {
                    acc.bad("case-ord", format!("`{text}` vs `{}` orders differently from `{base_text}`", show_name(other)), replay.clone());
                }
            }
            // zone selection and cache lookup: store under this pattern, ask with the opposite one
            let asked_text = apply_case(base_text, !mask & full);
            let asked = match guarded(|| DomainName::from_dotted_string(&format!("Sub.{asked_text}"))) {
                Ok(Some(x)) => x,
                _ => continue,
            };
            let found = guarded(|| {
                let mut zs = Zones::new();
                zs.insert(Zone::new(n.clone(), None));
                zs.insert(Zone::new(DomainName::root_domain(), None));
                let z = zs.get(&asked).map(|z| z.get_apex().clone());
                let z_exact = zs.get(&DomainName::from_dotted_string(&asked_text).expect("harness")).map(|z| z.get_apex().clone());
                (z, z_exact)
            });
            acc.evals += 1;
            match found {
                Ok((Some(z1), Some(z2))) if labels_of(&z1) == base_labels && labels_of(&z2) == base_labels => acc.h("case/zones-get-found"),
                Ok(other) => acc.bad(
                    "case-zone-selection",
                    format!("zone stored with apex `{text}` ({route}); Zones::get(`Sub.{asked_text}`) / get(`{asked_text}`) selected {:?}", (other.0.map(|z| show_name(&z)), other.1.map(|z| show_name(&z)))),
                    replay.clone(),
                ),
                Err(()) => acc.bad("panic", format!("Zones::get panicked for `{asked_text}`"), replay.clone()),
            }
            let cached = guarded(|| {
                let cache = SharedCache::new();
                cache.insert(&rr(&n, a([192, 0, 2, 7]), 3600));
                let q = DomainName::from_dotted_string(&asked_text).expect("harness");
                (cache.get(&q, QueryType::Record(RecordType::A)), cache.get(&q, QueryType::Wildcard))
            });
            acc.evals += 1;
            match cached {
                Ok((one, any)) if one.len() == 1 && any.len() == 1 && one[0].rtype_with_data == a([192, 0, 2, 7]) && labels_of(&one[0].name) == base_labels => acc.h("case/cache-hit"),
                Ok((one, any)) => acc.bad(
                    "case-cache-lookup",
                    format!("record cached under `{text}` ({route}); lookup of `{asked_text}` returned {} (A) / {} (ANY) records", one.len(), any.len()),
                    replay.clone(),
                ),
                Err(()) => acc.bad("panic", format!("cache lookup panicked for `{asked_text}`"), replay.clone()),
            }
        }
    }
}

// ---------------------------------------------------------------------------------------------
// G: text round trip, H: subdomain relation
// ---------------------------------------------------------------------------------------------

fn check_text_round_trip(acc: &mut Acc) {
    for c in 0..128u8 {
        if c == b'.' {
            continue;
        }
        let forms: [Vec<u8>; 5] = [vec![c], vec![c, b'a'], vec![b'a', c, b'a'], vec![b'a', c], vec![c, c]];
        for (fi, f) in forms.iter().enumerate() {
            for shape in 0..3 {
                acc.evals += 1;
                let labels: Labels = match shape {
                    0 => vec![f.clone()],
                    1 => vec![f.clone(), b"x".to_vec()],
                    _ => vec![b"y".to_vec(), f.clone(), f.clone()],
                };
                let replay = json!({"kind": "text-round-trip", "octet": c, "form": fi, "shape": shape});
                acc.nt("text", &[c, fi as u8, shape as u8]);
                let r = guarded(|| {
                    let n = abs_name(&labels);
                    let s = n.to_dotted_string();
                    let back = DomainName::from_dotted_string(&s);
                    (n, s, back)
                });
                match r {
                    Err(()) => acc.bad("panic", format!("text round trip panicked for octet {c:#04x}"), replay),
                    Ok((n, s, Some(back))) if back == n => {
                        acc.h("text-round-trip/same");
                        let lowered: Labels = labels.iter().map(|l| ref_lower(l)).collect();
                        acc.check_name(&format!("text `{}`", show_bytes(s.as_bytes())), &back, Some(&lowered), &replay);
                    }
                    Ok((n, s, back)) => acc.bad(
                        "text-round-trip",
                        format!("`{}` written as {:?} reads back as {:?}", show_name(&n), s, back.map(|b| show_name(&b))),
                        replay,
                    ),
                }
            }
        }
    }
    // root
    acc.evals += 1;
    let root = DomainName::root_domain();
    if DomainName::from_dotted_string(&root.to_dotted_string()).as_ref() != Some(&root) {
        acc.bad("text-round-trip", "the root name does not read back".into(), json!({"kind": "text-round-trip-root"}));
    }
}

fn names_over(alphabet: &[&[u8]], max_labels: usize) -> Vec<Labels> {
    let mut out: Vec<Labels> = vec![vec![]];
    let mut layer: Vec<Labels> = vec![vec![]];
    for _ in 0..max_labels {
        let mut next = Vec::new();
        for n in &layer {
            for a in alphabet {
                let mut m = n.clone();
                m.push(a.to_vec());
                next.push(m);
            }
        }
        out.extend(next.iter().cloned());
        layer = next;
    }
    out
}

fn check_subdomain(acc: &mut Acc, pool: &[Labels], tag: &str) {
    let built: Vec<Option<DomainName>> = pool.iter().map(|l| guarded(|| name_from_wire_labels(l)).ok().flatten()).collect();
    for (i, a) in pool.iter().enumerate() {
        let na = match &built[i] {
            Some(n) => n,
            None => {
                acc.bad("rejects-valid", format!("wire decoding refused `{}`", show_labels(a)), json!({"kind": "subdomain", "a": show_labels(a)}));
                continue;
            }
        };
        let replay_a = json!({"kind": "wire-name", "labels": a.iter().map(|l| hex(l)).collect::<Vec<_>>()});
        acc.check_name("wire name", na, Some(a), &replay_a);
        for (j, b) in pool.iter().enumerate() {
            let nb = match &built[j] {
                Some(n) => n,
                None => continue,
            };
            acc.evals += 1;
            let want = ref_is_suffix(a, b);
            let got = guarded(|| na.is_subdomain_of(nb));
            let text_suffix = text_of(a).ends_with(&text_of(b));
            if want != text_suffix || (want && a.len() != b.len()) {
                let mut d = Vec::new();
                for l in a.iter().chain(std::iter::once(&b"|".to_vec())).chain(b.iter()) {
                    d.push(l.len() as u8);
                    d.extend_from_slice(l);
                }
                acc.nt("sub", &d);
            }
            acc.h(&format!("{tag}/{}", if want { "is-subdomain" } else if text_suffix { "not-subdomain-though-text-suffix" } else { "not-subdomain" }));
            if got != Ok(want) {
                acc.bad(
                    "subdomain",
                    format!("`{}`.is_subdomain_of(`{}`) = {:?}, label-wise suffix says {want}", show_labels(a), show_labels(b), got),
                    json!({"kind": "subdomain", "a": a.iter().map(|l| hex(l)).collect::<Vec<_>>(), "b": b.iter().map(|l| hex(l)).collect::<Vec<_>>()}),
                );
            }
        }
    }
}

// ---------------------------------------------------------------------------------------------
// D: names that come off the wire (C03's corpus)
// ---------------------------------------------------------------------------------------------

fn names_of_message<'a>(m: &'a Message, out: &mut Vec<&'a DomainName>) {
    for q in &m.questions {
        out.push(&q.name);
    }
    for r in m.answers.iter().chain(&m.authority).chain(&m.additional) {
        out.push(&r.name);
        match &r.rtype_with_data {
            RecordTypeWithData::NS { nsdname: n }
            | RecordTypeWithData::MD { madname: n }
            | RecordTypeWithData::MF { madname: n }
            | RecordTypeWithData::CNAME { cname: n }
            | RecordTypeWithData::MB { madname: n }
            | RecordTypeWithData::MG { mdmname: n }
            | RecordTypeWithData::MR { newname: n }
            | RecordTypeWithData::PTR { ptrdname: n }
            | RecordTypeWithData::MX { exchange: n, .. }
            | RecordTypeWithData::SRV { target: n, .. } => out.push(n),
            RecordTypeWithData::SOA { mname, rname, .. } => {
                out.push(mname);
                out.push(rname);
            }
            RecordTypeWithData::MINFO { rmailbx, emailbx } => {
                out.push(rmailbx);
                out.push(emailbx);
            }
            _ => {}
        }
    }
}

fn same_labels(g: &DomainName, w: &DomainName) -> bool {
    g.labels.len() == w.labels.len() && g.labels.iter().zip(&w.labels).all(|(x, y)| x.octets() == y.octets())
}

fn digest_name(n: &DomainName) -> u64 {
    let mut h: u64 = 0xcbf2_9ce4_8422_2325;
    for l in &n.labels {
        h ^= u64::from(l.len());
        h = h.wrapping_mul(0x0000_0100_0000_01b3);
        for b in l.octets().iter() {
            h ^= u64::from(*b);
            h = h.wrapping_mul(0x0000_0100_0000_01b3);
        }
    }
    h
}

fn check_wire_input(acc: &mut Acc, bytes: &[u8]) {
    let want = match refwire::decode(bytes) {
        Ok(m) => m,
        Err(e) => {
            // An input refused for a name limit must not yield names at all; if
            // the implementation accepts it, whatever names it built are judged
            // against the invariant.  (Whether it should be refused for other
            // reasons is C03's business.)
            if matches!(e.kind, refwire::RefErrKind::NameTooLong | refwire::RefErrKind::LabelType) {
                acc.evals += 1;
                acc.h("wire/refused-for-a-name-limit");
                if let Ok(Ok(m)) = guarded(|| Message::from_octets(bytes)) {
                    let mut names = Vec::new();
                    names_of_message(&m, &mut names);
                    let replay = json!({"kind": "wire", "input_hex": hex(bytes)});
                    let mut all_fine = true;
                    for n in names {
                        all_fine &= acc.check_name(&format!("name decoded from {} (which the reference refuses: {:?})", c03::describe_input(bytes), e.kind), n, None, &replay);
                    }
                    if all_fine {
                        acc.bad(
                            "accepts-invalid",
                            format!("from_octets accepts {} although a name in it breaks a limit ({:?})", c03::describe_input(bytes), e.kind),
                            replay,
                        );
                    }
                }
            }
            return;
        }
    };
    acc.evals += 1;
    let got = guarded(|| Message::from_octets(bytes));
    let m = match got {
        Ok(Ok(m)) => m,
        Ok(Err(e)) => {
            acc.bad(
                "rejects-valid",
                format!("from_octets refuses {} which the reference decodes ({e})", c03::describe_input(bytes)),
                json!({"kind": "wire", "input_hex": hex(bytes)}),
            );
            return;
        }
        Err(()) => {
            acc.bad("panic", format!("from_octets panicked on {}", c03::describe_input(bytes)), json!({"kind": "wire", "input_hex": hex(bytes)}));
            return;
        }
    };
    let mut got_names = Vec::new();
    names_of_message(&m, &mut got_names);
    let mut want_names = Vec::new();
    names_of_message(&want, &mut want_names);
    if got_names.len() != want_names.len() {
        acc.bad(
            "labels",
            format!("{}: {} names decoded, reference has {}", c03::describe_input(bytes), got_names.len(), want_names.len()),
            json!({"kind": "wire", "input_hex": hex(bytes)}),
        );
        return;
    }
    for (g, w) in got_names.iter().zip(&want_names) {
        let long = g.len >= 250 || g.labels.iter().any(|l| l.len() == 63);
        if g.labels.len() > 1 {
            acc.nontrivial.push(digest_name(w) ^ 0x77_6972_65);
        }
        acc.h(if g.labels.len() == 1 { "wire/root-name" } else if long { "wire/name-at-a-limit" } else { "wire/name" });
        acc.names += 1;
        // fast path without allocation; the slow path produces the report
        if invariant_ok(g) && same_labels(g, w) {
            continue;
        }
        acc.names -= 1;
        let expect = labels_of(w);
        acc.check_name(&format!("name decoded from {}", c03::describe_input(bytes)), g, Some(&expect), &json!({"kind": "wire", "input_hex": hex(bytes)}));
    }
}

// ---------------------------------------------------------------------------------------------
// run
// ---------------------------------------------------------------------------------------------

pub fn run(ctx: &Ctx) -> i32 {
    let tier = ctx.tier;
    let wall_cap = tier.pick(40.0, 500.0);
    install_quiet_hook();
    let mut total = Acc::default();
    let mut exhaustive = true;
    let mut caps: Vec<String> = Vec::new();

    // A/B
    let vectors = length_vectors(tier.pick(1, 2), tier == Tier::Thorough);
    let parts = par_fold(vectors.len(), ctx.threads, ctx.seed, Acc::default, |acc, i| {
        check_from_labels(acc, &vectors[i], i % 7);
    });
    for p in parts {
        total.merge(p);
    }
    {
        let mut acc = Acc::default();
        check_label_try_from(&mut acc);
        // short vectors far from the limit, and the empty vector
        for lens in [vec![], vec![1], vec![63], vec![1, 1], vec![63, 63, 63, 61], vec![63, 63, 63, 62], vec![63, 63, 63, 60]] {
            check_from_labels(&mut acc, &lens, 0);
        }
        acc.evals += 1;
        if let Ok(Some(_)) = guarded(|| DomainName::from_labels(Vec::new())) {
            acc.bad("accepts-invalid", "from_labels accepted an empty label vector".into(), json!({"kind": "from_labels", "lengths": [], "empty_label_at": null}));
        }
        total.merge(acc);
    }

    // C
    let maxlen = tier.pick(8usize, 10);
    let n_small = n_small_strings(maxlen);
    let parts = par_fold(n_small as usize, ctx.threads, ctx.seed, Acc::default, |acc, i| {
        let s = small_string(i as u64, maxlen);
        check_dotted(acc, &s, "dotted-small");
        if acc.samples.is_empty() && i % 4001 == 77 {
            acc.samples.push(json!({"space": "from_dotted_string", "text": s, "reference": ref_parse_absolute(&s).map(|l| show_labels(&l))}));
        }
    });
    for p in parts {
        total.merge(p);
    }
    let bstrings = boundary_strings();
    let parts = par_fold(bstrings.len(), ctx.threads, ctx.seed, Acc::default, |acc, i| {
        check_dotted(acc, &bstrings[i], "dotted-boundary");
    });
    for p in parts {
        total.merge(p);
    }

    // E
    let mut joins: Vec<(usize, usize)> = Vec::new();
    for r in 2..=254usize {
        for o in 1..=255usize {
            if (250..=260).contains(&(r + o)) && o != 2 {
                joins.push((r, o));
            }
        }
    }
    let parts = par_fold(joins.len(), ctx.threads, ctx.seed, Acc::default, |acc, i| {
        check_join(acc, joins[i].0, joins[i].1);
    });
    for p in parts {
        total.merge(p);
    }

    // F
    let pool: Vec<DomainName> = CASE_POOL.iter().map(|s| dn(&s.to_lowercase())).collect();
    let parts = par_fold(CASE_POOL.len(), ctx.threads, ctx.seed, Acc::default, |acc, i| {
        check_case(acc, i, &pool);
    });
    for p in parts {
        total.merge(p);
    }

    // G, H
    {
        let mut acc = Acc::default();
        check_text_round_trip(&mut acc);
        let two: Vec<Labels> = names_over(&[b"a", b"b"], 4);
        check_subdomain(&mut acc, &two, "subdomain-2-letter");
        let ext: Vec<Labels> = names_over(&[b"a", b"b", b"ba", b"a.b", b"."], tier.pick(3, 4));
        check_subdomain(&mut acc, &ext, "subdomain-extended");
        acc.samples.push(json!({"space": "is_subdomain_of", "pool_sizes": [two.len(), ext.len()], "example": "`a\\.b.` (one label holding a dot) is not a subdomain of `b.`"}));
        total.merge(acc);
    }

    // D: names off the wire; big stacks because the deepest pointer ladders need
    // most of a 2 MiB stack in the decoder (stack use itself is C03's business)
    let mut jobs: Vec<(c03::Space, u64, u64)> = Vec::new();
    for space in c03::SCHEDULE {
        if space == c03::Space::Short {
            continue; // shorter than a header: nothing decodes
        }
        let n = c03::space_items(space, tier);
        let step: u64 = match space {
            c03::Space::Tails => 100_000,
            c03::Space::Subst => 1,
            c03::Space::Extremes => 8,
            c03::Space::Triples => 2048,
            _ => tier.pick(512, 64),
        };
        let mut lo = 0;
        while lo < n {
            jobs.push((space, lo, (lo + step).min(n)));
            lo += step;
        }
    }
    let next = AtomicUsize::new(0);
    let capped = AtomicBool::new(false);
    let mut parts: Vec<Acc> = Vec::new();
    std::thread::scope(|s| {
        let mut hs = Vec::new();
        for _ in 0..ctx.threads.max(1) {
            let h = std::thread::Builder::new().stack_size(64 << 20).spawn_scoped(s, || {
                let mut acc = Acc::default();
                loop {
                    let j = next.fetch_add(1, Ordering::Relaxed);
                    if j >= jobs.len() {
                        break;
                    }
                    if ctx.elapsed() > wall_cap {
                        capped.store(true, Ordering::Relaxed);
                        break;
                    }
                    let (space, lo, hi) = jobs[(j + ctx.seed as usize) % jobs.len()];
                    for item in lo..hi {
                        c03::for_each_input_opt(space, tier, item, false, &mut |b, _| check_wire_input(&mut acc, b));
                    }
                    // keep the digest list small: names repeat a lot
                    if acc.nontrivial.len() > 2_000_000 {
                        acc.nontrivial.sort_unstable();
                        acc.nontrivial.dedup();
                    }
                }
                acc
            });
            match h {
                Ok(h) => hs.push(h),
                Err(e) => {
                    eprintln!("C16: cannot spawn thread: {e}");
                    std::process::exit(2);
                }
            }
        }
        for h in hs {
            match h.join() {
                Ok(a) => parts.push(a),
                Err(_) => {
                    eprintln!("C16: worker thread panicked (machinery error)");
                    std::process::exit(2);
                }
            }
        }
    });
    for p in parts {
        total.merge(p);
    }
    if capped.load(Ordering::Relaxed) {
        exhaustive = false;
        caps.push(format!("wall clock cap of {wall_cap} s reached while walking C03's corpus"));
    }

    total.nontrivial.sort_unstable();
    total.nontrivial.dedup();

    let mut report = Report::new();
    report.evaluations = total.evals;
    report.states = total.names;
    report.transitions = total.evals;
    report.traces_validated = total.evals;
    report.distinct_nontrivial = total.nontrivial.len() as u64;
    report.rule = "distinct digests of the cases in which a clause could fail: from_labels vectors (all have encoded length 240..262), Label::try_from lengths, dotted strings that are refused / hold an upper-case letter / come near a limit, every (relative, origin) join with total 250..260, every non-trivial case pattern, every octet x form of the text round trip, subdomain pairs that are proper suffixes or where the textual and the label-wise suffix relation differ, and distinct non-root names decoded from the wire. states = names obtained from the implementation and checked against the invariant".into();
    report.samples = total.samples.clone();
    report.samples.push(json!({"space": "from_labels", "label_lengths": vectors[vectors.len() / 2], "encoded_length": vectors[vectors.len() / 2].iter().map(|l| l + 1).sum::<usize>() + 1}));
    report.samples.push(json!({"space": "join", "relative_octets": joins[joins.len() / 3].0, "origin_octets": joins[joins.len() / 3].1}));
    report.samples.push(json!({"space": "case", "base": CASE_POOL[7], "variant": apply_case(CASE_POOL[7], 0b101101)}));
    report.bounds = json!({
        "from_labels": {
            "label_lengths": "62 and 63 (any number), 31 (any number; quick: not together with a free label), 1 and 2 (bounded), one free label of any length 3..=61",
            "max_labels_of_length_1_or_2_per_vector": tier.pick(1, 2),
            "encoded_length": "240..=262",
            "vectors": vectors.len(),
            "empty_label": "in every position, and absent",
        },
        "from_dotted_string": {
            "alphabet": "a B .",
            "max_length": maxlen,
            "strings": n_small,
            "boundary_strings": bstrings.len(),
        },
        "joins": {"pairs": joins.len(), "relative_octets": "2..=254", "origin_octets": "1..=255 (not 2)", "total": "250..=260", "routes": ["make_subdomain_of", "from_relative_dotted_string", "zone file owner", "zone file RDATA name", "zone file relative $ORIGIN"]},
        "case": {"pool": CASE_POOL.len(), "patterns": "all 2^k, k = letters in the name (<= 6)", "routes": ["from_dotted_string", "from_labels", "wire"]},
        "text_round_trip": "every ASCII octet except '.', 5 label forms x 3 name shapes",
        "subdomain": {"two_letter_pool": 31, "extended_alphabet": ["a", "b", "ba", "a.b (one label)", ". (one label)"], "extended_max_labels": tier.pick(3, 4)},
        "wire": "every input of C03's spaces (same tier; truncated inputs left out) that the reference decoder accepts",
    });
    report.exhaustive = exhaustive;
    if !caps.is_empty() {
        report.extra.insert("caps".into(), json!(caps));
    }
    report.outcome_histogram = total.hist.clone();
    report.extra.insert("violation_counts".into(), json!(total.viol_counts));
    report.assumptions = vec![
        "D9: the empty string passed to from_dotted_string is not judged (only the invariant of what comes back)".into(),
        "`Label::try_from` and `Label::new` are used as trivial public constructors to hand labels to from_labels".into(),
        "SharedCache runs on the real clock here (TTL 3600 s, looked up at once)".into(),
        "stack use of the wire decoder is judged by C03, not here (names are decoded on 64 MiB stacks)".into(),
    ];
    total.viols.sort_by(|a, b| (a.clause.as_str(), a.summary.len(), a.summary.as_str()).cmp(&(b.clause.as_str(), b.summary.len(), b.summary.as_str())));
    report.violations = total.viols;
    finish(ctx, report)
}

fn labels_from_hex(v: &Value) -> Labels {
    v.as_array().map(|a| a.iter().map(|x| unhex(x.as_str().unwrap_or(""))).collect()).unwrap_or_default()
}

pub fn replay(ctx: &Ctx, v: &Value) -> i32 {
    let mut acc = Acc::default();
    match v["kind"].as_str().unwrap_or("") {
        "from_labels" => {
            let lens: Vec<usize> = v["lengths"].as_array().map(|a| a.iter().map(|x| x.as_u64().unwrap_or(0) as usize).collect()).unwrap_or_default();
            check_from_labels(&mut acc, &lens, v["salt"].as_u64().unwrap_or(0) as usize);
        }
        "label" | "label-octet" => check_label_try_from(&mut acc),
        "dotted" => {
            let s = v["text"].as_str().unwrap_or("");
            println!("text: {s:?}");
            println!("implementation: {:?}", DomainName::from_dotted_string(s).map(|n| show_name(&n)));
            println!("reference:      {:?}", ref_parse_absolute(s).map(|l| show_labels(&l)));
            check_dotted(&mut acc, s, "replay");
        }
        "join" => check_join(&mut acc, v["relative_octets"].as_u64().unwrap_or(2) as usize, v["origin_octets"].as_u64().unwrap_or(1) as usize),
        "case" => {
            let pool: Vec<DomainName> = CASE_POOL.iter().map(|s| dn(&s.to_lowercase())).collect();
            if let Some(i) = CASE_POOL.iter().position(|b| Some(*b) == v["base"].as_str()) {
                check_case(&mut acc, i, &pool);
            }
        }
        "text-round-trip" | "text-round-trip-root" => check_text_round_trip(&mut acc),
        "subdomain" => {
            let pool = vec![labels_from_hex(&v["a"]), labels_from_hex(&v["b"])];
            check_subdomain(&mut acc, &pool, "replay");
        }
        "wire-name" => {
            let pool = vec![labels_from_hex(&v["labels"])];
            check_subdomain(&mut acc, &pool, "replay");
        }
        "wire" => {
            let b = unhex(v["input_hex"].as_str().unwrap_or(""));
            println!("input: {}", c03::describe_input(&b));
            check_wire_input(&mut acc, &b);
        }
        other => {
            eprintln!("C16: unknown replay kind {other:?}");
            return 2;
        }
    }
    println!("cases evaluated: {}, names checked: {}", acc.evals, acc.names);
    if acc.viols.is_empty() {
        println!("replay: property holds on this case");
        0
    } else {
        for x in &acc.viols {
            println!("clause {}: {}", x.clause, x.summary);
        }
        println!("VIOLATION property={} replay=(replayed case)", ctx.id);
        1
    }
}

pub fn worker(_args: &[String]) -> i32 {
    2
}
