//! C01 — local zone and hosts data always win over cache and upstream.
//!
//! E-NET: configurations built from a menu of local zones (nested
//! authoritative apexes, a less specific authoritative zone, non-authoritative
//! root-zone overrides / hosts / blocklist entries), every subset (<= 3) of a
//! menu of *conflicting* cache entries, an upstream universe that holds yet
//! other data for the same names, every question of the menu x 6 types, in
//! local-only, recursive and forwarding mode.

use crate::c07::base_spec;
use crate::common::*;
use crate::net::*;
use crate::procpar::{self, JsonAcc};
use crate::refzone::{FlatRec, FlatZone, RefResult};
use crate::ugen::*;
use crate::util::*;
use dns_resolver::util::types::ResolvedRecord;
use dns_types::protocol::types::*;
use dns_types::zones::types::{Zones, SOA};
use serde_json::{json, Value};
use std::collections::BTreeSet;
use std::net::{IpAddr, Ipv4Addr, SocketAddr};
use std::sync::Arc;

fn soa_of(apex: &DomainName, minimum: u32) -> SOA {
    SOA {
        mname: prepend(b"mname", apex),
        rname: prepend(b"hostmaster", apex),
        serial: 1,
        refresh: 2,
        retry: 3,
        expire: 4,
        minimum,
    }
}

fn rec(owner: &str, data: RecordTypeWithData, ttl: u32) -> FlatRec {
    FlatRec {
        owner: dn(owner),
        wildcard: false,
        data,
        ttl,
    }
}

fn wrec(owner: &str, data: RecordTypeWithData, ttl: u32) -> FlatRec {
    FlatRec {
        owner: dn(owner),
        wildcard: true,
        data,
        ttl,
    }
}

/// The local zones of configuration `cfg` (bit 0: nested zone sub.a.ex.,
/// bit 1: less specific authoritative zone ex., bit 2: extra non-authoritative data).
fn local_zones(cfg: usize, hints: &FlatZone) -> Vec<FlatZone> {
    let mut v = Vec::new();
    let a_apex = dn("a.ex.");
    v.push(FlatZone {
        apex: a_apex.clone(),
        soa: Some(soa_of(&a_apex, 60)),
        recs: vec![
            rec("a.ex.", ns(&dn("ns1.a.ex.")), 300),
            rec("ns1.a.ex.", a([10, 2, 0, 53]), 300),
            rec("www.a.ex.", a([10, 2, 0, 1]), 300),
            rec("www.a.ex.", a([10, 2, 0, 2]), 300),
            rec("www.a.ex.", txt(b"local"), 300),
            rec("alias.a.ex.", cname(&dn("www.a.ex.")), 300),
            rec("alias2.a.ex.", cname(&dn("www.sub.a.ex.")), 300),
            rec("alias3.a.ex.", cname(&dn("up.ex.")), 300),
            rec("alias4.a.ex.", cname(&dn("host.override.")), 300),
            rec("deleg.a.ex.", ns(&dn("ns1.elsewhere.")), 300),
            wrec("wild.a.ex.", a([10, 2, 0, 9]), 300),
            rec("x.ent.a.ex.", a([10, 2, 0, 7]), 300),
        ],
    });
    if cfg & 1 != 0 {
        let s_apex = dn("sub.a.ex.");
        v.push(FlatZone {
            apex: s_apex.clone(),
            soa: Some(soa_of(&s_apex, 30)),
            recs: vec![rec("www.sub.a.ex.", a([10, 2, 1, 1]), 300)],
        });
    }
    if cfg & 2 != 0 {
        let e_apex = dn("ex.");
        v.push(FlatZone {
            apex: e_apex.clone(),
            soa: Some(soa_of(&e_apex, 10)),
            recs: vec![
                // data for names owned by the more specific zone: must never be used
                rec("www.a.ex.", a([10, 9, 9, 9]), 300),
                rec("nope.a.ex.", a([10, 9, 9, 8]), 300),
                rec("www.sub.a.ex.", a([10, 9, 9, 7]), 300),
                rec("up.ex.", a([10, 9, 0, 1]), 300),
            ],
        });
    }
    let mut root = hints.clone();
    if cfg & 4 != 0 {
        root.recs.extend(vec![
            rec("host.override.", a([10, 3, 0, 1]), 5),
            rec("host.override.", a([10, 3, 0, 2]), 5),
            rec("ads.example.", a([0, 0, 0, 0]), 5),
            rec("ads.example.", aaaa(0), 5),
            wrec("wildna.", a([10, 3, 0, 9]), 5),
            // data for names owned by the authoritative zones: must never be used
            rec("www.a.ex.", a([10, 8, 8, 8]), 5),
            rec("nope.a.ex.", a([10, 8, 8, 7]), 5),
            // a stub-zone hint (NS + glue at a non-apex name of the
            // non-authoritative zone) with hosts entries beneath it
            rec("stub.example.", ns(&dn("ns1.stub.example.")), 5),
            rec("ns1.stub.example.", a([10, 0, 8, 1]), 5),
            rec("wiki.stub.example.", a([10, 3, 0, 5]), 5),
            rec("wiki.stub.example.", a([10, 3, 0, 6]), 5),
            // ... and one at the very name that carries the NS records
            rec("stub.example.", a([10, 3, 0, 7]), 5),
        ]);
    }
    v.push(root);
    v
}

fn cache_menu() -> Vec<ResourceRecord> {
    vec![
        rr(&dn("www.a.ex."), a([6, 6, 6, 1]), 300),
        rr(&dn("www.a.ex."), cname(&dn("evil.k.")), 300),
        rr(&dn("nope.a.ex."), a([6, 6, 6, 2]), 300),
        rr(&dn("below.deleg.a.ex."), a([6, 6, 6, 3]), 300),
        rr(&dn("host.override."), a([6, 6, 6, 4]), 300),
        rr(&dn("host.override."), aaaa(6), 300),
        rr(&dn("up.ex."), a([6, 6, 6, 5]), 300),
        rr(&dn("www.a.ex."), txt(b"cached"), 300),
        rr(&dn("ads.example."), a([6, 6, 6, 6]), 300),
        rr(&dn("www.sub.a.ex."), a([6, 6, 6, 7]), 300),
        // aliases from outside any local zone into names the authoritative zone owns
        rr(&dn("ext.k."), cname(&dn("www.a.ex.")), 300),
        rr(&dn("ext2.k."), cname(&dn("nope.a.ex.")), 300),
        // a cached alias at a name for which local non-authoritative data holds
        // another type (left by an earlier question for a type it does not hold)
        rr(&dn("host.override."), cname(&dn("evil.k.")), 300),
        rr(&dn("ads.example."), cname(&dn("tracker.k.")), 300),
        // a cached record for a hosts entry that sits beneath a stub-zone hint
        rr(&dn("wiki.stub.example."), a([6, 6, 6, 8]), 300),
    ]
}

fn question_names() -> Vec<DomainName> {
    [
        "www.a.ex.", "alias.a.ex.", "alias2.a.ex.", "alias3.a.ex.", "alias4.a.ex.", "nope.a.ex.", "ent.a.ex.",
        "q.wild.a.ex.", "below.deleg.a.ex.", "deleg.a.ex.", "a.ex.", "www.sub.a.ex.", "nope.sub.a.ex.",
        "host.override.", "ads.example.", "other.override.", "x.wildna.", "up.ex.", "nope.ex.", "ext.k.", "ext2.k.",
        "wiki.stub.example.", "other.stub.example.", "ns1.stub.example.", "stub.example.",
    ]
    .iter()
    .map(|s| dn(s))
    .collect()
}

const QTYPES: [QueryType; 6] = [
    QueryType::Record(RecordType::A),
    QueryType::Record(RecordType::AAAA),
    QueryType::Record(RecordType::TXT),
    QueryType::Record(RecordType::CNAME),
    QueryType::Record(RecordType::NS),
    QueryType::Wildcard,
];

/// An upstream world that answers the same names with other data.
fn upstream() -> Arc<Universe> {
    let p = GenParams::simple(1, NsStyle::InZoneGlue, 1);
    let mut u = build(&p);
    let addr = Ipv4Addr::new(10, 0, 8, 1);
    // (the nameserver of wildna. is named outside the locally overridden
    // wildcard *.wildna., which would otherwise hijack its address)
    let ns_name = |apex_n: &DomainName| {
        if *apex_n == dn("wildna.") {
            dn("nswild.example.")
        } else {
            prepend(b"ns1", apex_n)
        }
    };
    let mk = |apex: &str, recs: Vec<FlatRec>| {
        let apex_n = dn(apex);
        let nsn = ns_name(&apex_n);
        let mut all = vec![
            FlatRec { owner: apex_n.clone(), wildcard: false, data: ns(&nsn), ttl: 300 },
            FlatRec { owner: nsn.clone(), wildcard: false, data: RecordTypeWithData::A { address: addr }, ttl: 300 },
        ];
        all.extend(recs);
        FlatZone { apex: apex_n.clone(), soa: Some(soa_of(&apex_n, 60)), recs: all }
    };
    let zones = vec![
        mk("ex.", vec![
            rec("www.a.ex.", a([7, 7, 7, 1]), 300),
            rec("www.a.ex.", txt(b"upstream"), 300),
            rec("nope.a.ex.", a([7, 7, 7, 2]), 300),
            rec("ent.a.ex.", a([7, 7, 7, 3]), 300),
            rec("www.sub.a.ex.", a([7, 7, 7, 4]), 300),
            rec("nope.sub.a.ex.", a([7, 7, 7, 5]), 300),
            rec("up.ex.", a([7, 7, 7, 6]), 300),
            rec("a.ex.", a([7, 7, 7, 7]), 300),
            rec("alias.a.ex.", a([7, 7, 7, 8]), 300),
        ]),
        mk("override.", vec![
            rec("host.override.", a([7, 7, 8, 1]), 300),
            rec("host.override.", aaaa(0x78), 300),
            rec("host.override.", txt(b"upstream"), 300),
            rec("other.override.", a([7, 7, 8, 2]), 300),
        ]),
        mk("example.", vec![
            rec("ads.example.", a([7, 7, 9, 1]), 300),
            rec("ads.example.", txt(b"ads"), 300),
            rec("wiki.stub.example.", a([7, 7, 9, 3]), 300),
            rec("wiki.stub.example.", txt(b"wiki"), 300),
            rec("other.stub.example.", a([7, 7, 9, 4]), 300),
            rec("stub.example.", a([7, 7, 9, 5]), 300),
        ]),
        mk("wildna.", vec![rec("x.wildna.", a([7, 7, 9, 2]), 300)]),
    ];
    for z in zones {
        let apex = z.apex.clone();
        let nsn = ns_name(&apex);
        u.zones[0].recs.push(FlatRec { owner: apex.clone(), wildcard: false, data: ns(&nsn), ttl: 300 });
        u.zones[0].recs.push(FlatRec { owner: nsn, wildcard: false, data: RecordTypeWithData::A { address: addr }, ttl: 300 });
        let idx = u.zones.len();
        u.zones.push(z);
        u.serving.entry(IpAddr::V4(addr)).or_default().push(idx);
    }
    u.description = "upstream world with other data for the locally configured names".into();
    Arc::new(u)
}

fn hints_flat(u: &Universe) -> FlatZone {
    let mut recs = Vec::new();
    for (n, addrs) in &u.hints {
        recs.push(FlatRec { owner: DomainName::root_domain(), wildcard: false, data: ns(n), ttl: 3_600_000 });
        for a in addrs {
            recs.push(FlatRec {
                owner: n.clone(),
                wildcard: false,
                data: match a {
                    IpAddr::V4(v) => RecordTypeWithData::A { address: *v },
                    IpAddr::V6(v) => RecordTypeWithData::AAAA { address: *v },
                },
                ttl: 3_600_000,
            });
        }
    }
    FlatZone { apex: DomainName::root_domain(), soa: None, recs }
}

#[derive(Debug, Copy, Clone, Eq, PartialEq)]
enum ModeK {
    Local,
    Recursive,
    Forwarding,
}

fn most_specific<'a>(zones: &'a [FlatZone], name: &DomainName) -> Option<&'a FlatZone> {
    zones
        .iter()
        .filter(|z| name.is_subdomain_of(&z.apex))
        .max_by_key(|z| z.apex.labels.len())
}

/// Is `name` at or beneath a non-apex delegation point of `z`?
fn under_cut(z: &FlatZone, name: &DomainName) -> bool {
    z.recs.iter().any(|r| {
        !r.wildcard
            && r.data.rtype() == RecordType::NS
            && r.owner != z.apex
            && name.is_subdomain_of(&r.owner)
    })
}

fn key(r: &ResourceRecord) -> (DomainName, RecordTypeWithData, u32) {
    (r.name.clone(), r.rtype_with_data.clone(), r.ttl)
}

fn judge(zones: &[FlatZone], q: &Question, res: &RunResult) -> Vec<(&'static str, String)> {
    let mut out = Vec::new();
    let ask = &res.asks[0];
    let z = match most_specific(zones, &q.name) {
        Some(z) => z,
        None => return out,
    };
    let outcome = &ask.outcome;
    if let Outcome::Panic(m) = outcome {
        out.push(("panic", format!("panicked: {m}")));
        return out;
    }
    let soa_rr = z.soa.as_ref().map(|s| s.to_rr(&z.apex));
    let excepted = under_cut(z, &q.name);
    // (c) a name error only on the word of an authoritative local zone
    if let Outcome::Ok(ResolvedRecord::AuthoritativeNameError { soa_rr: got }) = outcome {
        let ok = z.soa.is_some() && !excepted && matches!(z.resolve(&q.name, q.qtype), Some(RefResult::NameError));
        if !ok {
            out.push(("name-error-without-authority", format!("name error (SOA {}) although the most specific zone {} does not say so", show_rr(got), show_name(&z.apex))));
        } else if Some(got) != soa_rr.as_ref() {
            out.push(("wrong-soa", format!("name error carries {} instead of the zone's SOA", show_rr(got))));
        }
    }
    if z.soa.is_some() && !excepted {
        // (a) everything comes from this zone alone
        let want = z.resolve(&q.name, q.qtype).expect("under apex");
        let soa_rr = soa_rr.clone().unwrap();
        match &want {
            RefResult::Answer(rrs) => {
                match outcome {
                    Outcome::Ok(ResolvedRecord::Authoritative { rrs: got, soa_rr: gs }) => {
                        let mut g: Vec<_> = got.iter().map(key).collect();
                        let mut w: Vec<_> = rrs.iter().map(key).collect();
                        g.sort();
                        w.sort();
                        if g != w {
                            out.push(("authoritative-answer-differs", format!("zone {} holds {} but the answer is {}", show_name(&z.apex), show_rrs(rrs), show_rrs(got))));
                        }
                        if *gs != soa_rr {
                            out.push(("wrong-soa", format!("answer carries {} instead of {}", show_rr(gs), show_rr(&soa_rr))));
                        }
                    }
                    other => out.push(("not-authoritative", format!("zone {} answers this question ({}), got {}", show_name(&z.apex), show_rrs(rrs), show_outcome(other)))),
                }
                if !res.log.is_empty() {
                    out.push(("upstream-contacted", format!("upstream was contacted for a question the authoritative zone answers: {}", show_log(&res.log))));
                }
            }
            RefResult::NameError => {
                if !matches!(outcome, Outcome::Ok(ResolvedRecord::AuthoritativeNameError { .. })) {
                    out.push(("missing-name-error", format!("zone {} does not define the name, got {}", show_name(&z.apex), show_outcome(outcome))));
                }
                if !res.log.is_empty() {
                    out.push(("upstream-contacted", format!("upstream was contacted for a name the authoritative zone denies: {}", show_log(&res.log))));
                }
            }
            RefResult::Cname(c) => {
                // D3: when the chain leaves the authoritative local zones only the
                // first record and clause (d) are judged
                let rrs = outcome_rrs(outcome);
                if rrs.first().map(key) != Some(key(c)) {
                    out.push(("zone-cname-not-first", format!("the answer must start with the zone's {} but is {}", show_rr(c), show_outcome(outcome))));
                }
                // ... but a chain that stays inside authoritative local zones to its end
                // (records, no data, or a name error at the last target) comes from
                // those zones alone: marked authoritative, exactly the chain and the
                // final records, no upstream contact
                let mut expected: Option<Vec<ResourceRecord>> = Some(vec![c.clone()]);
                let mut target = match &c.rtype_with_data {
                    RecordTypeWithData::CNAME { cname } => cname.clone(),
                    _ => q.name.clone(),
                };
                for _ in 0..8 {
                    let Some(acc) = expected.as_mut() else { break };
                    let tz = match most_specific(zones, &target) {
                        Some(tz) if tz.soa.is_some() && !under_cut(tz, &target) => tz,
                        _ => {
                            expected = None;
                            break;
                        }
                    };
                    match tz.resolve(&target, q.qtype) {
                        Some(RefResult::Answer(more)) => {
                            acc.extend(more);
                            break;
                        }
                        Some(RefResult::NameError) => break,
                        Some(RefResult::Cname(c2)) => {
                            if let RecordTypeWithData::CNAME { cname } = &c2.rtype_with_data {
                                target = cname.clone();
                            }
                            acc.push(c2);
                        }
                        _ => {
                            expected = None;
                            break;
                        }
                    }
                }
                if let Some(want) = expected {
                    match outcome {
                        Outcome::Ok(ResolvedRecord::Authoritative { rrs: got, .. }) => {
                            let mut g: Vec<_> = got.iter().map(key).collect();
                            let mut w: Vec<_> = want.iter().map(key).collect();
                            g.sort();
                            w.sort();
                            if g != w {
                                out.push(("authoritative-chain-differs", format!("the authoritative zones hold the chain {} but the answer is {}", show_rrs(&want), show_rrs(got))));
                            }
                        }
                        other => out.push(("not-authoritative", format!("the alias chain {} lies entirely in authoritative local zones, got {}", show_rrs(&want), show_outcome(other)))),
                    }
                    if !res.log.is_empty() {
                        out.push(("upstream-contacted", format!("upstream was contacted for an alias chain the authoritative zones settle: {}", show_log(&res.log))));
                    }
                }
            }
            RefResult::Delegation(_) => {}
        }
    } else if z.soa.is_none() {
        // (b) non-authoritative zone / hosts data
        let all = z.all();
        // records the zone holds at the very name count whatever NS records
        // (stub-zone hints) sit above them; otherwise what a lookup synthesises
        let direct: Vec<ResourceRecord> = z
            .recs
            .iter()
            .filter(|r| !r.wildcard && r.owner == q.name && r.data.rtype() != RecordType::NS)
            .map(|r| rr(&r.owner, r.data.clone(), r.ttl))
            .collect();
        let has_ns_here = z.recs.iter().any(|r| !r.wildcard && r.owner == q.name && r.data.rtype() == RecordType::NS);
        let _ = has_ns_here;
        let held: Vec<ResourceRecord> = if !direct.is_empty() {
            direct
        } else {
            match z.resolve_with(&all, &q.name, QueryType::Wildcard) {
                Some(RefResult::Answer(rrs)) => rrs,
                _ => Vec::new(),
            }
        };
        let rrs = outcome_rrs(outcome);
        let types: BTreeSet<RecordType> = held.iter().map(|r| r.rtype_with_data.rtype()).collect();
        for t in types {
            if !t.matches(q.qtype) {
                continue;
            }
            let mut w: Vec<_> = held.iter().filter(|r| r.rtype_with_data.rtype() == t).map(key).collect();
            let mut g: Vec<_> = rrs
                .iter()
                .filter(|r| r.name == q.name && r.rtype_with_data.rtype() == t)
                .map(key)
                .collect();
            w.sort();
            g.sort();
            if q.qtype == QueryType::Wildcard && !matches!(outcome, Outcome::Ok(_)) {
                // ANY needs the other types from cache/upstream: an error
                // when those cannot be had is not judged
                continue;
            }
            if g != w {
                out.push(("override-not-exact", format!("local data holds {} {} records {:?} but the answer has {:?}", show_name(&q.name), t, w.iter().map(|k| show_data(&k.1)).collect::<Vec<_>>(), g.iter().map(|k| show_data(&k.1)).collect::<Vec<_>>())));
            }
            if q.qtype != QueryType::Wildcard {
                if rrs.len() != g.len() {
                    out.push(("override-not-exact", format!("answer {} has records besides the local {} records", show_rrs(&rrs), t)));
                }
                if !res.log.is_empty() {
                    out.push(("upstream-contacted", format!("upstream was contacted for a question local data answers: {}", show_log(&res.log))));
                }
            }
        }
    }
    // (d) nothing about names an authoritative zone owns that the zone does not hold
    for r in outcome_rrs(outcome) {
        if let Some(oz) = most_specific(zones, &r.name) {
            if oz.soa.is_some() && !under_cut(oz, &r.name) {
                let all = oz.all();
                let present = match oz.resolve_with(&all, &r.name, QueryType::Wildcard) {
                    Some(RefResult::Answer(rrs)) => rrs.iter().any(|x| x.rtype_with_data == r.rtype_with_data),
                    Some(RefResult::Cname(c)) => c.rtype_with_data == r.rtype_with_data,
                    _ => false,
                } || (r.rtype_with_data.rtype() == RecordType::CNAME
                    && matches!(oz.resolve_with(&all, &r.name, QueryType::Record(RecordType::A)), Some(RefResult::Cname(c)) if c.rtype_with_data == r.rtype_with_data));
                if !present {
                    out.push(("foreign-data-for-owned-name", format!("the answer contains {} but the authoritative zone {} that owns the name does not hold it", show_rr(&r), show_name(&oz.apex))));
                }
            }
        }
    }
    out
}

pub const SLUG_NS_OWNER: &str = "local-record-at-ns-owner";

/// Known finding (KNOWN_FINDINGS.txt): in a non-authoritative zone a name that
/// carries NS records *and* records of the asked type is treated as a
/// delegation, which `resolve_local` ignores for such zones, so the local
/// records are passed over for the cache / upstream.  Narrow predicate: the
/// question name itself owns both, the type asked is one the zone holds
/// there, and the clause is one of the two that state the override.
fn known_slug(zones: &[FlatZone], q: &Question, clause: &str) -> Option<&'static str> {
    if clause != "override-not-exact" && clause != "upstream-contacted" {
        return None;
    }
    let z = most_specific(zones, &q.name)?;
    if z.soa.is_some() || q.name == z.apex {
        return None;
    }
    let at = |pred: &dyn Fn(RecordType) -> bool| z.recs.iter().any(|r| !r.wildcard && r.owner == q.name && pred(r.data.rtype()));
    let ns_here = at(&|t| t == RecordType::NS);
    let asked_here = at(&|t| t != RecordType::NS && t.matches(q.qtype));
    if ns_here && asked_here && q.qtype != QueryType::Record(RecordType::NS) {
        Some(SLUG_NS_OWNER)
    } else {
        None
    }
}

fn case_json(cfg: usize, cache: &[usize], q: &Question, mode: ModeK, choices: &[usize]) -> Value {
    json!({
        "kind": "local-priority",
        "config": cfg,
        "cache": cache,
        "question": {"name": q.name.to_dotted_string(), "qtype": u16::from(q.qtype)},
        "mode": format!("{mode:?}"),
        "choices": choices,
    })
}

fn fwd_addr() -> SocketAddr {
    SocketAddr::new(IpAddr::V4(Ipv4Addr::new(10, 9, 9, 9)), 53)
}

fn make_spec(u: &Arc<Universe>, zones: &[FlatZone], cache: &[usize], q: &Question, mode: ModeK) -> RunSpec {
    let menu = cache_menu();
    let mut real = Zones::new();
    for z in zones {
        real.insert(z.build());
    }
    let seed: Vec<ResourceRecord> = cache.iter().map(|i| menu[*i].clone()).collect();
    let mut spec = base_spec(u.clone(), vec![Step::Seed(seed), Step::Ask(q.clone())]);
    spec.zones = real;
    spec.mode = match mode {
        ModeK::Local => Mode::Local,
        ModeK::Recursive => Mode::Recursive,
        ModeK::Forwarding => Mode::Forwarding(fwd_addr()),
    };
    spec
}

fn cache_subsets(k: usize) -> Vec<Vec<usize>> {
    let n = cache_menu().len();
    let mut out = vec![vec![]];
    fn rec(start: usize, n: usize, left: usize, cur: &mut Vec<usize>, out: &mut Vec<Vec<usize>>) {
        if left == 0 {
            return;
        }
        for i in start..n {
            cur.push(i);
            out.push(cur.clone());
            rec(i + 1, n, left - 1, cur, out);
            cur.pop();
        }
    }
    rec(0, n, k, &mut Vec::new(), &mut out);
    out
}

fn run_item(tier: Tier, i: usize, acc: &mut JsonAcc) {
    // item = (config, question name)
    let names = question_names();
    let cfg = i / names.len();
    let name = &names[i % names.len()];
    let u = upstream();
    let hints = hints_flat(&u);
    let zones = local_zones(cfg, &hints);
    let subsets = cache_subsets(tier.pick(2, 3));
    for qtype in QTYPES {
        let q = question(name, qtype);
        for cache in &subsets {
            for mode in [ModeK::Local, ModeK::Recursive, ModeK::Forwarding] {
                let spec = make_spec(&u, &zones, cache, &q, mode);
                let mut stats = ExploreStats::default();
                if acc.trace {
                    let (c2, q2) = (cache.clone(), q.clone());
                    stats.pre = Some(Box::new(move |prefix: &[usize]| {
                        println!("EXEC {}", case_json(cfg, &c2, &q2, mode, prefix));
                        use std::io::Write;
                        let _ = std::io::stdout().flush();
                    }));
                }
                let mut visit = |res: &RunResult, choices: &[usize]| {
                    let findings = judge(&zones, &q, res);
                    let z = most_specific(&zones, &q.name);
                    let class = match z {
                        Some(z) if z.soa.is_some() => {
                            if under_cut(z, &q.name) {
                                "beneath a delegation of an authoritative zone".to_string()
                            } else {
                                format!("authoritative zone: {}", match z.resolve(&q.name, q.qtype) {
                                    Some(RefResult::Answer(r)) if r.is_empty() => "empty answer",
                                    Some(RefResult::Answer(_)) => "answer",
                                    Some(RefResult::NameError) => "name error",
                                    Some(RefResult::Cname(_)) => "alias",
                                    _ => "other",
                                })
                            }
                        }
                        Some(_) => "non-authoritative zone".to_string(),
                        None => "no zone".to_string(),
                    };
                    acc.hist(&format!("{mode:?}: {class}"), 1);
                    if !cache.is_empty() {
                        acc.count("nontrivial", 1);
                    }
                    acc.states.insert(fnv64(format!("{cfg}|{}|{}|{:?}|{}", q.name, q.qtype, mode, show_outcome(&res.asks[0].outcome)).as_bytes()));
                    for (clause, msg) in findings {
                        acc.violate(
                            clause,
                            format!(
                                "config {cfg} cache {:?} question {} {} mode {mode:?}: {msg} :: outcome {}",
                                cache.iter().map(|i| show_rr(&cache_menu()[*i])).collect::<Vec<_>>(),
                                show_name(&q.name),
                                q.qtype,
                                show_outcome(&res.asks[0].outcome)
                            ),
                            case_json(cfg, cache, &q, mode, choices),
                            known_slug(&zones, &q, clause),
                        );
                    }
                    if cache.len() == 2 && mode == ModeK::Recursive && !res.log.is_empty() {
                        acc.sample(json!({
                            "config": cfg,
                            "cache": cache.iter().map(|i| show_rr(&cache_menu()[*i])).collect::<Vec<_>>(),
                            "question": format!("{} {}", show_name(&q.name), q.qtype),
                            "outcome": show_outcome(&res.asks[0].outcome),
                            "exchanges": show_log(&res.log),
                        }));
                    }
                };
                explore(&spec, 0, 64, &mut stats, &mut visit);
                acc.count("executions", stats.executions);
                acc.count("exchanges", stats.exchanges + stats.choice_points);
            }
        }
    }
}

const N_CONFIGS: usize = 8;

pub fn run(ctx: &Ctx) -> i32 {
    let n = N_CONFIGS * question_names().len();
    let (acc, crashes) = procpar::parent(ctx, n, ctx.tier.pick(90.0, 1800.0), &[SLUG_NS_OWNER]);
    let mut report = Report::new();
    let c = |k: &str| acc.counters.get(k).copied().unwrap_or(0);
    report.evaluations = c("executions");
    report.transitions = c("exchanges") + c("executions");
    report.traces_validated = report.evaluations;
    report.distinct_nontrivial = c("nontrivial");
    procpar::into_report(acc, crashes, &mut report);
    report.rule = "8 configurations (authoritative zone a.ex. with records, aliases into four kinds of target, a delegation, a wildcard, an empty non-terminal, apex NS; optionally the nested zone sub.a.ex., the less specific authoritative zone ex. holding data for names of a.ex., and non-authoritative root-zone overrides / hosts / blocklist / wildcard entries incl. data for names of a.ex.) x every subset of <= k of 12 cache entries (conflicting records, and aliases from outside into names the authoritative zone owns) x 21 question names x 6 types x 3 modes x candidate orders, against an upstream world with yet other data for the same names; non-trivial = executions with a non-empty (conflicting) cache".into();
    report.bounds = json!({"configs": N_CONFIGS, "cache_subset_max": ctx.tier.pick(2, 3), "question_names": question_names().len(), "qtypes": 6, "modes": 3});
    report.assumptions = vec![
        "D3: when an alias held by an authoritative zone leads out of authoritative data only the first record and clause (d) are judged".into(),
        "D6: for ANY the override clause is read per (name, type)".into(),
        "names at or beneath a delegation point of the most specific authoritative zone are excepted".into(),
    ];
    finish(ctx, report)
}

fn replay_inner(ctx: &Ctx, v: &Value) -> i32 {
    let cfg = v["config"].as_u64().unwrap_or(0) as usize;
    let cache: Vec<usize> = v["cache"].as_array().cloned().unwrap_or_default().iter().filter_map(|c| c.as_u64().map(|c| c as usize)).collect();
    let q = question(&dn(v["question"]["name"].as_str().unwrap_or(".")), QueryType::from(v["question"]["qtype"].as_u64().unwrap_or(1) as u16));
    let mode = match v["mode"].as_str().unwrap_or("Local") {
        "Recursive" => ModeK::Recursive,
        "Forwarding" => ModeK::Forwarding,
        _ => ModeK::Local,
    };
    let choices: Vec<usize> = v["choices"].as_array().cloned().unwrap_or_default().iter().filter_map(|c| c.as_u64().map(|c| c as usize)).collect();
    let u = upstream();
    let zones = local_zones(cfg, &hints_flat(&u));
    let spec = make_spec(&u, &zones, &cache, &q, mode);
    let res = run_once(&spec, &choices);
    println!("config {cfg}; cache {:?}", cache.iter().map(|i| show_rr(&cache_menu()[*i])).collect::<Vec<_>>());
    println!("question {} {} mode {mode:?}", show_name(&q.name), q.qtype);
    println!("exchanges: {}", show_log(&res.log));
    println!("outcome: {}", show_outcome(&res.asks[0].outcome));
    let findings = judge(&zones, &q, &res);
    for (c, m) in &findings {
        println!("  finding [{c}]: {m}");
    }
    let known = load_known(ctx.id);
    let (listed, findings): (Vec<_>, Vec<_>) = findings
        .into_iter()
        .partition(|(c, _)| known_slug(&zones, &q, c).is_some_and(|s| known.contains_key(s)));
    for (c, _) in &listed {
        println!("KNOWN-FINDING: property={} slug={} clause={c} {}", ctx.id, SLUG_NS_OWNER, known[SLUG_NS_OWNER]);
    }
    if findings.is_empty() {
        println!("replay: property holds on this case");
        0
    } else {
        println!("VIOLATION property={} replay=(replayed case)", ctx.id);
        1
    }
}

pub fn replay(ctx: &Ctx, v: &Value) -> i32 {
    procpar::replay_in_child(ctx, v)
}

pub fn worker(args: &[String]) -> i32 {
    if let Some(v) = procpar::replay_arg(args) {
        let ctx = Ctx { id: "C01", tier: Tier::Quick, seed: 0, start: std::time::Instant::now(), threads: 1 };
        return replay_inner(&ctx, &v);
    }
    procpar::child_main(args, move |tier, i, acc| run_item(tier, i, acc))
}
