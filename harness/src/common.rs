//! Shared plumbing: tiers, evidence, violations, known findings, replay files,
//! a deterministic parallel map.

use serde_json::{json, Map, Value};
use std::collections::BTreeMap;
use std::path::{Path, PathBuf};
use std::sync::atomic::{AtomicBool, AtomicU64, AtomicUsize, Ordering};
use std::sync::Mutex;
use std::time::Instant;

pub const VERIF_ROOT: &str = "/verif";

/// Where evidence, replays and scratch files go (default /verif; the mutation
/// rig points this elsewhere so that experiments do not overwrite evidence).
pub fn out_root() -> PathBuf {
    match std::env::var("VERIF_OUT") {
        Ok(p) if !p.is_empty() => PathBuf::from(p),
        _ => PathBuf::from(VERIF_ROOT),
    }
}

/// Directory holding the repository's binaries built with hooks on.
pub fn bin_dir() -> PathBuf {
    match std::env::var("VERIF_BIN_DIR") {
        Ok(p) if !p.is_empty() => PathBuf::from(p),
        _ => PathBuf::from("/verif/target/repo/release"),
    }
}

#[derive(Debug, Copy, Clone, Eq, PartialEq)]
pub enum Tier {
    Quick,
    Thorough,
}

impl Tier {
    pub fn name(self) -> &'static str {
        match self {
            Tier::Quick => "quick",
            Tier::Thorough => "thorough",
        }
    }
    pub fn pick<T>(self, quick: T, thorough: T) -> T {
        match self {
            Tier::Quick => quick,
            Tier::Thorough => thorough,
        }
    }
}

pub struct Ctx {
    pub id: &'static str,
    pub tier: Tier,
    pub seed: u64,
    pub start: Instant,
    pub threads: usize,
}

impl Ctx {
    pub fn elapsed(&self) -> f64 {
        self.start.elapsed().as_secs_f64()
    }
}

#[derive(Debug, Clone)]
pub struct Violation {
    /// Which oracle clause failed (short, stable).
    pub clause: String,
    /// One line for humans.
    pub summary: String,
    /// Everything needed to re-run this single case without the explorer.
    pub replay: Value,
    /// If the violation matches the narrow predicate of a known finding.
    pub slug: Option<&'static str>,
}

pub struct Report {
    pub level: &'static str,
    pub evaluations: u64,
    pub distinct_nontrivial: u64,
    pub rule: String,
    pub states: u64,
    pub transitions: u64,
    pub traces_validated: u64,
    pub samples: Vec<Value>,
    pub bounds: Value,
    pub exhaustive: bool,
    pub outcome_histogram: BTreeMap<String, u64>,
    pub assumptions: Vec<String>,
    pub violations: Vec<Violation>,
    pub extra: Map<String, Value>,
}

impl Report {
    pub fn new() -> Self {
        Report {
            level: "model_checking",
            evaluations: 0,
            distinct_nontrivial: 0,
            rule: String::new(),
            states: 0,
            transitions: 0,
            traces_validated: 0,
            samples: Vec::new(),
            bounds: Value::Null,
            exhaustive: true,
            outcome_histogram: BTreeMap::new(),
            assumptions: Vec::new(),
            violations: Vec::new(),
            extra: Map::new(),
        }
    }

    pub fn hist(&mut self, key: &str, n: u64) {
        *self.outcome_histogram.entry(key.to_string()).or_insert(0) += n;
    }

    pub fn merge_hist(&mut self, other: &BTreeMap<String, u64>) {
        for (k, v) in other {
            *self.outcome_histogram.entry(k.clone()).or_insert(0) += v;
        }
    }
}

/// FNV-1a, used for replay file names and cheap dedup.
pub fn fnv64(bytes: &[u8]) -> u64 {
    let mut h: u64 = 0xcbf2_9ce4_8422_2325;
    for b in bytes {
        h ^= u64::from(*b);
        h = h.wrapping_mul(0x0000_0100_0000_01b3);
    }
    h
}

pub fn hex(bytes: &[u8]) -> String {
    let mut s = String::with_capacity(bytes.len() * 2);
    for b in bytes {
        s.push_str(&format!("{b:02x}"));
    }
    s
}

pub fn unhex(s: &str) -> Vec<u8> {
    let s = s.as_bytes();
    let mut out = Vec::with_capacity(s.len() / 2);
    let val = |c: u8| -> u8 {
        match c {
            b'0'..=b'9' => c - b'0',
            b'a'..=b'f' => c - b'a' + 10,
            b'A'..=b'F' => c - b'A' + 10,
            _ => 0,
        }
    };
    let mut i = 0;
    while i + 1 < s.len() {
        out.push(val(s[i]) * 16 + val(s[i + 1]));
        i += 2;
    }
    out
}

/// Known findings file: lines `known: property=<ID> slug=<slug> <text>` and
/// `fixed: property=<ID> <commit> <text>`.  Only `known` lines matter here.
pub fn load_known(id: &str) -> BTreeMap<String, String> {
    let mut out = BTreeMap::new();
    let path = Path::new(VERIF_ROOT).join("KNOWN_FINDINGS.txt");
    if let Ok(text) = std::fs::read_to_string(path) {
        for line in text.lines() {
            let line = line.trim();
            if let Some(rest) = line.strip_prefix("known:") {
                let mut prop = None;
                let mut slug = None;
                let mut words = Vec::new();
                for w in rest.split_whitespace() {
                    if let Some(p) = w.strip_prefix("property=") {
                        prop = Some(p.to_string());
                    } else if let Some(s) = w.strip_prefix("slug=") {
                        slug = Some(s.to_string());
                    } else {
                        words.push(w);
                    }
                }
                if prop.as_deref() == Some(id) {
                    if let Some(s) = slug {
                        out.insert(s, words.join(" "));
                    }
                }
            }
        }
    }
    out
}

/// Write evidence, print verdict lines, return the process exit code.
pub fn finish(ctx: &Ctx, mut report: Report) -> i32 {
    let known = load_known(ctx.id);
    let mut printed_known: BTreeMap<String, u64> = BTreeMap::new();
    let mut unlisted: Vec<&Violation> = Vec::new();
    for v in &report.violations {
        match v.slug {
            Some(slug) if known.contains_key(slug) => {
                *printed_known.entry(slug.to_string()).or_insert(0) += 1;
            }
            _ => unlisted.push(v),
        }
    }
    for (slug, n) in &printed_known {
        println!(
            "KNOWN-FINDING: property={} slug={} occurrences={} {}",
            ctx.id, slug, n, known[slug]
        );
    }

    let replay_dir = out_root().join("replays").join(ctx.id);
    let mut shown = 0usize;
    let mut seen_clause: BTreeMap<String, usize> = BTreeMap::new();
    let mut replay_paths = Vec::new();
    for v in &unlisted {
        let n = seen_clause.entry(v.clause.clone()).or_insert(0);
        *n += 1;
        if *n > 3 || shown >= 12 {
            continue;
        }
        shown += 1;
        let mut body = v.replay.clone();
        if let Value::Object(m) = &mut body {
            m.insert("property".into(), json!(ctx.id));
            m.insert("clause".into(), json!(v.clause));
            m.insert("summary".into(), json!(v.summary));
        }
        let text = serde_json::to_string_pretty(&body).unwrap_or_default();
        let digest = fnv64(text.as_bytes());
        let _ = std::fs::create_dir_all(&replay_dir);
        let path = replay_dir.join(format!("{digest:016x}.json"));
        let _ = std::fs::write(&path, text);
        println!(
            "VIOLATION property={} replay={} clause={} :: {}",
            ctx.id,
            path.display(),
            v.clause,
            v.summary
        );
        replay_paths.push(path.display().to_string());
    }
    if unlisted.len() > shown {
        println!(
            "({} further violations of property {} not printed; clauses: {:?})",
            unlisted.len() - shown,
            ctx.id,
            seen_clause
        );
    }

    let n_unlisted = unlisted.len();
    let n_known: u64 = printed_known.values().sum();

    // the schema wants >= 2 for the generic fallback; keep what was measured
    let mut coverage = Map::new();
    coverage.insert("evaluations".into(), json!(report.evaluations));
    coverage.insert(
        "distinct_nontrivial".into(),
        json!(report.distinct_nontrivial),
    );
    coverage.insert("rule".into(), json!(report.rule));
    if report.samples.is_empty() {
        report.samples.push(json!("(no sample recorded)"));
    }
    coverage.insert("samples".into(), Value::Array(report.samples.clone()));
    coverage.insert("states".into(), json!(report.states.max(1)));
    coverage.insert("transitions".into(), json!(report.transitions.max(1)));
    coverage.insert(
        "traces_validated_against_impl".into(),
        json!(report.traces_validated),
    );
    coverage.insert("exhaustive".into(), json!(report.exhaustive));
    coverage.insert("bounds".into(), report.bounds.clone());
    coverage.insert(
        "outcome_histogram".into(),
        json!(report.outcome_histogram),
    );
    coverage.insert("known_findings_matched".into(), json!(printed_known));
    coverage.insert("replays".into(), json!(replay_paths));
    coverage.insert("violations_by_clause".into(), json!(seen_clause));
    for (k, v) in &report.extra {
        coverage.insert(k.clone(), v.clone());
    }

    let evidence = json!({
        "property_id": ctx.id,
        "tier": ctx.tier.name(),
        "seed": ctx.seed,
        "level": report.level,
        "coverage": Value::Object(coverage),
        "assumptions": report.assumptions,
        "wall_s": ctx.elapsed(),
        "violations": n_unlisted,
        "known_finding_occurrences": n_known,
    });
    let dir = out_root().join("evidence");
    let _ = std::fs::create_dir_all(&dir);
    let path = dir.join(format!("{}.json", ctx.id));
    if let Err(e) = std::fs::write(
        &path,
        serde_json::to_string_pretty(&evidence).unwrap_or_default(),
    ) {
        eprintln!("cannot write evidence {}: {e}", path.display());
        return 2;
    }

    println!(
        "{} {}: evaluations={} states={} transitions={} nontrivial={} exhaustive={} violations={} known={} wall={:.1}s",
        ctx.id,
        ctx.tier.name(),
        report.evaluations,
        report.states,
        report.transitions,
        report.distinct_nontrivial,
        report.exhaustive,
        n_unlisted,
        n_known,
        ctx.elapsed()
    );
    if n_unlisted > 0 {
        1
    } else {
        0
    }
}

pub fn read_replay(path: &Path) -> Value {
    let text = std::fs::read_to_string(path).unwrap_or_else(|e| {
        eprintln!("cannot read replay file {}: {e}", path.display());
        std::process::exit(2);
    });
    serde_json::from_str(&text).unwrap_or_else(|e| {
        eprintln!("replay file {} is not JSON: {e}", path.display());
        std::process::exit(2);
    })
}

/// Run `f(i)` for every `i in 0..n` on `threads` workers; results are folded
/// per worker and returned in worker order (so totals are deterministic).
/// `seed` only rotates the starting offset of the work distribution.
pub fn par_fold<A, F, M>(n: usize, threads: usize, seed: u64, init: M, f: F) -> Vec<A>
where
    A: Send,
    M: Fn() -> A + Sync,
    F: Fn(&mut A, usize) + Sync,
{
    let next = AtomicUsize::new(0);
    let chunk = 64usize.max(n / (threads.max(1) * 64)).min(4096);
    let offset = if n == 0 { 0 } else { (seed as usize) % n };
    let mut out = Vec::new();
    std::thread::scope(|s| {
        let mut handles = Vec::new();
        for _ in 0..threads.max(1) {
            handles.push(s.spawn(|| {
                let mut acc = init();
                loop {
                    let start = next.fetch_add(chunk, Ordering::Relaxed);
                    if start >= n {
                        break;
                    }
                    let end = (start + chunk).min(n);
                    for i in start..end {
                        f(&mut acc, (i + offset) % n);
                    }
                }
                acc
            }));
        }
        for h in handles {
            match h.join() {
                Ok(a) => out.push(a),
                Err(_) => {
                    eprintln!("worker thread panicked (machinery error)");
                    std::process::exit(2);
                }
            }
        }
    });
    out
}

/// Bounded sink for violations shared between workers: keeps the first
/// `per_clause` violations of every clause (by arrival), counts all.
pub struct Sink {
    inner: Mutex<(Vec<Violation>, BTreeMap<String, u64>)>,
    pub total: AtomicU64,
    pub stop: AtomicBool,
    per_clause: u64,
}

impl Sink {
    pub fn new(per_clause: usize) -> Self {
        Sink {
            inner: Mutex::new((Vec::new(), BTreeMap::new())),
            total: AtomicU64::new(0),
            stop: AtomicBool::new(false),
            per_clause: per_clause as u64,
        }
    }
    pub fn push(&self, v: Violation) {
        self.total.fetch_add(1, Ordering::Relaxed);
        let mut g = self.inner.lock().unwrap();
        let key = format!("{}|{}", v.clause, v.slug.unwrap_or(""));
        let n = g.1.entry(key).or_insert(0);
        *n += 1;
        if *n <= self.per_clause {
            g.0.push(v);
        }
    }
    pub fn is_empty(&self) -> bool {
        self.total.load(Ordering::Relaxed) == 0
    }
    pub fn counts(&self) -> BTreeMap<String, u64> {
        self.inner.lock().unwrap().1.clone()
    }
    pub fn take(&self) -> Vec<Violation> {
        let mut g = self.inner.lock().unwrap();
        let mut v = std::mem::take(&mut g.0);
        // deterministic order: by clause, then shortest summary first
        v.sort_by(|a, b| {
            (a.clause.clone(), a.summary.len(), a.summary.clone())
                .cmp(&(b.clause.clone(), b.summary.len(), b.summary.clone()))
        });
        v
    }
}

pub fn work_dir(tag: &str) -> PathBuf {
    let p = out_root()
        .join(".work")
        .join(format!("{}-{}", tag, std::process::id()));
    let _ = std::fs::remove_dir_all(&p);
    let _ = std::fs::create_dir_all(&p);
    p
}

pub fn rss_mb() -> u64 {
    if let Ok(s) = std::fs::read_to_string("/proc/self/statm") {
        let mut it = s.split_whitespace();
        let _ = it.next();
        if let Some(r) = it.next() {
            if let Ok(pages) = r.parse::<u64>() {
                return pages * 4096 / (1024 * 1024);
            }
        }
    }
    0
}

/// Used by watchdog threads: report one violation (e.g. non-termination),
/// write minimal evidence and end the process with exit code 1.
pub fn finish_emergency(id: &'static str, tier: Tier, seed: u64, started: Instant, v: Violation) -> ! {
    let ctx = Ctx {
        id,
        tier,
        seed,
        start: started,
        threads: 1,
    };
    let mut report = Report::new();
    report.exhaustive = false;
    report.evaluations = 1;
    report.rule = "run ended by the watchdog: an execution did not return".into();
    report.samples.push(v.replay.clone());
    report.violations.push(v);
    let code = finish(&ctx, report);
    std::process::exit(if code == 0 { 0 } else { 1 });
}
