//! C12 — configuration files compose by union, with the last SOA winning.
//!
//! A fixed alphabet of 14 zone files (apexes `ex.`, `sub.ex.`, and the
//! non-authoritative root) and 5 hosts files; every sequence of them up to a
//! length bound is merged exactly as `resolved::fs::load_zone_configuration`
//! does (`Zones::insert_merge` per zone file, `Hosts::merge` per hosts file,
//! `insert_merge(hosts.into())` last) and every question of a fixed question
//! set is answered by `Zones::resolve` and by the flat-list reference lookup
//! (`refzone`) on the flat union the statement describes.  A differential check
//! compares the merged state across order-equivalent permutations, and the
//! real loader is run on generated files and directories.

use crate::common::*;
use crate::refzone::*;
use crate::util::*;
use dns_types::hosts::types::Hosts;
use dns_types::protocol::types::*;
use dns_types::zones::types::{Zone, ZoneResult, Zones, SOA};
use serde_json::{json, Value};
use std::collections::{BTreeMap, BTreeSet, HashMap, HashSet};
use std::net::{Ipv4Addr, Ipv6Addr};
use std::panic::{catch_unwind, AssertUnwindSafe};
use std::path::{Path, PathBuf};

const SLUG_WILD: &str = "merge-loses-wildcards-of-later-file";
const SLUG_SOA: &str = "merge-keeps-both-soa-records";

// =====================================================================
// File alphabet: every file is a denotation rendered to text
// =====================================================================

#[derive(Clone, Debug)]
enum RD {
    A([u8; 4]),
    Txt(&'static str),
    Mx(u16, &'static str),
    Ns(&'static str),
}

#[derive(Clone, Debug)]
struct RecSpec {
    /// relative to the apex for authoritative files (`@` = apex), absolute for root files
    owner: &'static str,
    wildcard: bool,
    ttl: u32,
    rd: RD,
}

#[derive(Clone, Debug)]
struct SoaSpec {
    mname: &'static str,
    serial: u32,
    minimum: u32,
}

#[derive(Clone, Debug)]
struct ZoneFileSpec {
    id: &'static str,
    apex: &'static str,
    soa: Option<SoaSpec>,
    recs: Vec<RecSpec>,
}

fn rec(owner: &'static str, ttl: u32, rd: RD) -> RecSpec {
    RecSpec { owner, wildcard: false, ttl, rd }
}
fn wrec(owner: &'static str, ttl: u32, rd: RD) -> RecSpec {
    RecSpec { owner, wildcard: true, ttl, rd }
}

fn zone_alphabet() -> Vec<ZoneFileSpec> {
    let soa1 = |m: &'static str| Some(SoaSpec { mname: m, serial: 1, minimum: 300 });
    let soa2 = |m: &'static str| Some(SoaSpec { mname: m, serial: 2, minimum: 30 });
    let a1 = || rec("www", 600, RD::A([10, 0, 0, 1]));
    let a2 = || rec("www", 600, RD::A([10, 0, 0, 2]));
    let a1t = || rec("www", 60, RD::A([10, 0, 0, 1]));
    let txt = || rec("www", 600, RD::Txt("hello"));
    let mx = || rec("@", 600, RD::Mx(10, "mail.elsewhere."));
    let w = || wrec("@", 600, RD::A([10, 0, 0, 9]));
    let ww = || wrec("www", 600, RD::A([10, 0, 0, 8]));
    let deep = || rec("deep.www", 600, RD::A([10, 0, 0, 7]));
    vec![
        ZoneFileSpec { id: "E1", apex: "ex.", soa: soa1("ns1.ex."), recs: vec![a1(), txt()] },
        ZoneFileSpec { id: "E2", apex: "ex.", soa: soa2("ns2.ex."), recs: vec![a1(), a2()] },
        ZoneFileSpec { id: "E3", apex: "ex.", soa: soa1("ns1.ex."), recs: vec![a1t(), mx()] },
        ZoneFileSpec { id: "E4", apex: "ex.", soa: soa2("ns2.ex."), recs: vec![a1t(), w()] },
        ZoneFileSpec { id: "E5", apex: "ex.", soa: soa1("ns1.ex."), recs: vec![w(), ww()] },
        ZoneFileSpec { id: "E6", apex: "ex.", soa: soa2("ns2.ex."), recs: vec![deep(), ww(), txt()] },
        ZoneFileSpec { id: "E7", apex: "ex.", soa: soa1("ns1.ex."), recs: vec![rec("@", 600, RD::Ns("ns1.elsewhere."))] },
        ZoneFileSpec { id: "E8", apex: "ex.", soa: soa2("ns2.ex."), recs: vec![w(), mx(), wrec("@", 600, RD::Txt("wild"))] },
        ZoneFileSpec { id: "S1", apex: "sub.ex.", soa: soa1("ns1.sub.ex."), recs: vec![a1(), w()] },
        ZoneFileSpec { id: "S2", apex: "sub.ex.", soa: soa2("ns2.sub.ex."), recs: vec![a2(), ww()] },
        ZoneFileSpec { id: "S3", apex: "sub.ex.", soa: soa2("ns2.sub.ex."), recs: vec![a1t(), txt(), deep()] },
        ZoneFileSpec {
            id: "R1",
            apex: ".",
            soa: None,
            recs: vec![rec("www.other.", 600, RD::A([10, 0, 0, 1])), rec("www.other.", 600, RD::Txt("hello"))],
        },
        ZoneFileSpec {
            id: "R2",
            apex: ".",
            soa: None,
            recs: vec![
                rec("www.other.", 60, RD::A([10, 0, 0, 1])),
                rec("www.other.", 600, RD::A([10, 0, 0, 2])),
                wrec("other.", 600, RD::A([10, 0, 0, 9])),
            ],
        },
        ZoneFileSpec {
            id: "R3",
            apex: ".",
            soa: None,
            recs: vec![
                wrec("www.other.", 600, RD::A([10, 0, 0, 8])),
                rec("deep.www.other.", 600, RD::A([10, 0, 0, 7])),
                rec("www.ex.", 600, RD::A([10, 0, 0, 66])),
                rec("other.", 600, RD::Mx(10, "mail.elsewhere.")),
            ],
        },
    ]
}

fn render_rd(rd: &RD) -> String {
    match rd {
        RD::A(a) => format!("A {}", Ipv4Addr::from(*a)),
        RD::Txt(t) => format!("TXT {t}"),
        RD::Mx(p, x) => format!("MX {p} {x}"),
        RD::Ns(n) => format!("NS {n}"),
    }
}

fn rd_data(rd: &RD) -> RecordTypeWithData {
    match rd {
        RD::A(x) => a(*x),
        RD::Txt(t) => txt(t.as_bytes()),
        RD::Mx(p, x) => mx(*p, &dn(x)),
        RD::Ns(n) => ns(&dn(n)),
    }
}

fn render_zone_file(z: &ZoneFileSpec) -> String {
    let mut s = String::new();
    s.push_str(&format!("; file {}\n", z.id));
    if let Some(soa) = &z.soa {
        s.push_str(&format!("$ORIGIN {}\n", z.apex));
        s.push_str(&format!(
            "@ {} IN SOA {} admin.{} {} 3600 600 86400 {}\n",
            soa.minimum, soa.mname, z.apex, soa.serial, soa.minimum
        ));
    }
    for r in &z.recs {
        let owner = match (r.wildcard, r.owner) {
            (false, o) => o.to_string(),
            (true, "@") => "*".to_string(),
            (true, o) => format!("*.{o}"),
        };
        s.push_str(&format!("{owner} {} IN {}\n", r.ttl, render_rd(&r.rd)));
    }
    s
}

/// What a file means.
#[derive(Clone, Debug)]
struct ZoneFileDen {
    apex: DomainName,
    soa: Option<SOA>,
    /// TTLs as the file's own SOA minimum leaves them
    recs: Vec<FlatRec>,
}

fn soa_value(apex: &str, s: &SoaSpec) -> SOA {
    SOA {
        mname: dn(s.mname),
        rname: dn(&format!("admin.{apex}")),
        serial: s.serial,
        refresh: 3600,
        retry: 600,
        expire: 86400,
        minimum: s.minimum,
    }
}

fn denote_zone_file(z: &ZoneFileSpec) -> ZoneFileDen {
    let apex = dn(z.apex);
    let soa = z.soa.as_ref().map(|s| soa_value(z.apex, s));
    let recs = z
        .recs
        .iter()
        .map(|r| {
            let owner = if z.soa.is_some() {
                if r.owner == "@" {
                    apex.clone()
                } else {
                    dn(&format!("{}.{}", r.owner, z.apex))
                }
            } else {
                dn(r.owner)
            };
            let ttl = match &z.soa {
                Some(s) => r.ttl.max(s.minimum),
                None => r.ttl,
            };
            FlatRec { owner, wildcard: r.wildcard, data: rd_data(&r.rd), ttl }
        })
        .collect();
    ZoneFileDen { apex, soa, recs }
}

#[derive(Clone, Debug)]
struct HostsFileSpec {
    id: &'static str,
    /// (address text, names) per line
    lines: Vec<(&'static str, Vec<&'static str>)>,
}

fn hosts_alphabet() -> Vec<HostsFileSpec> {
    vec![
        HostsFileSpec { id: "H1", lines: vec![("10.1.0.1", vec!["host", "www.other"])] },
        HostsFileSpec { id: "H2", lines: vec![("10.1.0.2", vec!["host"]), ("fd00::1", vec!["host"])] },
        HostsFileSpec { id: "H3", lines: vec![("fd00::2", vec!["host", "www.other"]), ("10.1.0.3", vec!["only3"])] },
        HostsFileSpec { id: "H4", lines: vec![("10.1.0.1", vec!["host"]), ("10.1.0.4", vec!["www.ex"])] },
        HostsFileSpec { id: "H5", lines: vec![("fd00::1", vec!["HOST."]), ("10.1.0.5", vec!["host"]), ("10.1.0.6", vec!["host"])] },
    ]
}

fn render_hosts_file(h: &HostsFileSpec) -> String {
    let mut s = format!("# file {}\n", h.id);
    for (a, names) in &h.lines {
        s.push_str(a);
        for n in names {
            s.push(' ');
            s.push_str(n);
        }
        s.push('\n');
    }
    s
}

/// (name, is_v6) -> address, in file order (the reference applies last-writer-wins).
type HostsMap = BTreeMap<(DomainName, bool), RecordTypeWithData>;

fn hosts_addr(text: &str) -> (bool, RecordTypeWithData) {
    if text.contains(':') {
        let a: Ipv6Addr = text.parse().expect("harness: hosts alphabet address");
        (true, RecordTypeWithData::AAAA { address: a })
    } else {
        let a: Ipv4Addr = text.parse().expect("harness: hosts alphabet address");
        (false, RecordTypeWithData::A { address: a })
    }
}

fn apply_hosts_file(map: &mut HostsMap, h: &HostsFileSpec) {
    for (addr, names) in &h.lines {
        let (v6, data) = hosts_addr(addr);
        for n in names {
            let lower = n.to_ascii_lowercase();
            let abs = if lower.ends_with('.') { lower } else { format!("{lower}.") };
            map.insert((dn(&abs), v6), data.clone());
        }
    }
}

// =====================================================================
// The alphabet, parsed once by the real parsers
// =====================================================================

struct Alphabet {
    zspec: Vec<ZoneFileSpec>,
    ztext: Vec<String>,
    zden: Vec<ZoneFileDen>,
    zparsed: Vec<Zone>,
    hspec: Vec<HostsFileSpec>,
    htext: Vec<String>,
    hparsed: Vec<Hosts>,
    questions: Vec<(DomainName, QueryType)>,
    apexes: Vec<DomainName>,
}

const QTYPES: [QueryType; 8] = [
    QueryType::Record(RecordType::A),
    QueryType::Record(RecordType::AAAA),
    QueryType::Record(RecordType::TXT),
    QueryType::Record(RecordType::MX),
    QueryType::Record(RecordType::SOA),
    QueryType::Record(RecordType::NS),
    QueryType::Record(RecordType::CNAME),
    QueryType::Wildcard,
];

fn question_names() -> Vec<DomainName> {
    let mut v: Vec<String> = Vec::new();
    for apex in ["ex.", "sub.ex.", "other."] {
        for rel in ["", "www.", "deep.www.", "x.www.", "x.deep.www.", "y.x.www.", "nothere.", "x.nothere.", "*.", "mail."] {
            v.push(format!("{rel}{apex}"));
        }
    }
    for n in [".", "host.", "only3.", "nohost.", "www.nohost."] {
        v.push(n.to_string());
    }
    v.sort();
    v.dedup();
    v.iter().map(|s| dn(s)).collect()
}

fn build_alphabet() -> Result<Alphabet, String> {
    let zspec = zone_alphabet();
    let ztext: Vec<String> = zspec.iter().map(render_zone_file).collect();
    let zden: Vec<ZoneFileDen> = zspec.iter().map(denote_zone_file).collect();
    let mut zparsed = Vec::new();
    for (i, t) in ztext.iter().enumerate() {
        match catch_unwind(AssertUnwindSafe(|| Zone::deserialise(t))) {
            Ok(Ok(z)) => zparsed.push(z),
            Ok(Err(e)) => return Err(format!("zone file {} of the alphabet does not parse: {e:?}\n{t}", zspec[i].id)),
            Err(_) => return Err(format!("zone file {} of the alphabet makes the parser panic", zspec[i].id)),
        }
    }
    let hspec = hosts_alphabet();
    let htext: Vec<String> = hspec.iter().map(render_hosts_file).collect();
    let mut hparsed = Vec::new();
    for (i, t) in htext.iter().enumerate() {
        match catch_unwind(AssertUnwindSafe(|| Hosts::deserialise(t))) {
            Ok(Ok(h)) => hparsed.push(h),
            Ok(Err(e)) => return Err(format!("hosts file {} of the alphabet does not parse: {e:?}", hspec[i].id)),
            Err(_) => return Err(format!("hosts file {} of the alphabet makes the parser panic", hspec[i].id)),
        }
    }
    let mut questions = Vec::new();
    for n in question_names() {
        for qt in QTYPES {
            questions.push((n.clone(), qt));
        }
    }
    Ok(Alphabet {
        zspec,
        ztext,
        zden,
        zparsed,
        hspec,
        htext,
        hparsed,
        questions,
        apexes: vec![dn("."), dn("ex."), dn("sub.ex.")],
    })
}

// =====================================================================
// Reference: the flat union the statement describes
// =====================================================================

#[derive(Clone, Debug, Default)]
struct RefApex {
    soa: Option<SOA>,
    /// union incl. the single SOA record, duplicates removed
    all: Vec<FlatRec>,
    /// how many files contributed to this apex (hosts count as one contribution each)
    contributors: u32,
}

#[derive(Clone, Debug)]
struct RefConfig {
    /// apex -> union; the root is always present
    apexes: BTreeMap<DomainName, RefApex>,
}

fn ref_union_zone_dens(dens: &[&ZoneFileDen], hosts: Option<&HostsMap>, n_hosts_files: u32) -> RefConfig {
    let mut apexes: BTreeMap<DomainName, RefApex> = BTreeMap::new();
    apexes.insert(DomainName::root_domain(), RefApex::default());
    let mut body: BTreeMap<DomainName, Vec<FlatRec>> = BTreeMap::new();
    for d in dens {
        let e = apexes.entry(d.apex.clone()).or_default();
        e.contributors += 1;
        if d.soa.is_some() {
            e.soa = d.soa.clone();
        }
        let b = body.entry(d.apex.clone()).or_default();
        for r in &d.recs {
            if !b.contains(r) {
                b.push(r.clone());
            }
        }
    }
    if let Some(hm) = hosts {
        let root = DomainName::root_domain();
        apexes.get_mut(&root).unwrap().contributors += n_hosts_files;
        let b = body.entry(root).or_default();
        for ((name, _v6), data) in hm {
            let r = FlatRec { owner: name.clone(), wildcard: false, data: data.clone(), ttl: dns_types::hosts::types::TTL };
            if !b.contains(&r) {
                b.push(r);
            }
        }
    }
    for (apex, e) in apexes.iter_mut() {
        let mut all = Vec::new();
        if let Some(soa) = &e.soa {
            all.push(FlatRec { owner: apex.clone(), wildcard: false, data: soa.to_rdata(), ttl: soa.minimum });
        }
        if let Some(b) = body.get(apex) {
            all.extend(b.iter().cloned());
        }
        e.all = all;
    }
    RefConfig { apexes }
}

fn ref_config(al: &Alphabet, zseq: &[u8], hseq: &[u8]) -> RefConfig {
    let dens: Vec<&ZoneFileDen> = zseq.iter().map(|i| &al.zden[*i as usize]).collect();
    let mut hm = HostsMap::new();
    for h in hseq {
        apply_hosts_file(&mut hm, &al.hspec[*h as usize]);
    }
    ref_union_zone_dens(&dens, Some(&hm), hseq.len() as u32)
}

fn show_flat(r: &FlatRec) -> String {
    format!("{}{} {} {}", if r.wildcard { "*." } else { "" }, show_name(&r.owner), r.ttl, show_data(&r.data))
}

fn ref_dump(rc: &RefConfig) -> String {
    let mut s = String::new();
    for (apex, e) in &rc.apexes {
        let mut lines: Vec<String> = e.all.iter().map(show_flat).collect();
        lines.sort();
        s.push_str(&format!("[{}] soa={:?}\n{}\n", show_name(apex), e.soa.as_ref().map(|x| x.serial), lines.join("\n")));
    }
    s
}

/// The apex (present in the configuration) that must answer `q`.
fn ref_zone_for<'a>(rc: &'a RefConfig, q: &DomainName) -> (&'a DomainName, &'a RefApex) {
    let mut best: Option<(&DomainName, &RefApex)> = None;
    for (apex, e) in &rc.apexes {
        if q.is_subdomain_of(apex) && best.map_or(true, |(b, _)| apex.labels.len() > b.labels.len()) {
            best = Some((apex, e));
        }
    }
    best.expect("root is always present")
}

fn ref_answer(rc: &RefConfig, q: &DomainName, qtype: QueryType) -> (DomainName, RefResult) {
    let (apex, e) = ref_zone_for(rc, q);
    let fz = FlatZone { apex: apex.clone(), soa: None, recs: Vec::new() };
    let r = fz.resolve_with(&e.all, q, qtype).expect("name is under the chosen apex");
    (apex.clone(), r)
}

// =====================================================================
// Implementation side: merge exactly as load_zone_configuration does
// =====================================================================

struct Merged {
    zones: Zones,
    hosts: Hosts,
}

fn impl_merge(al: &Alphabet, zseq: &[u8], hseq: &[u8], ops: &mut u64) -> Result<Merged, ()> {
    catch_unwind(AssertUnwindSafe(|| {
        let mut n = 0u64;
        let mut zones = Zones::new();
        for i in zseq {
            zones.insert_merge(al.zparsed[*i as usize].clone());
            n += 1;
        }
        let mut hosts = Hosts::default();
        for h in hseq {
            hosts.merge(al.hparsed[*h as usize].clone());
            n += 1;
        }
        let kept = hosts.clone();
        zones.insert_merge(hosts.into());
        n += 1;
        (Merged { zones, hosts: kept }, n)
    }))
    .map(|(m, n)| {
        *ops += n;
        m
    })
    .map_err(|_| ())
}

fn zone_dump_lines(z: &Zone) -> (Vec<String>, Vec<String>) {
    let mut ord = Vec::new();
    for (n, zrs) in z.all_records() {
        for zr in zrs {
            ord.push(format!("{} {} {}", show_name(n), zr.ttl, show_data(&zr.rtype_with_data)));
        }
    }
    ord.sort();
    let mut wild = Vec::new();
    for (n, zrs) in z.all_wildcard_records() {
        for zr in zrs {
            wild.push(format!("*.{} {} {}", show_name(n), zr.ttl, show_data(&zr.rtype_with_data)));
        }
    }
    wild.sort();
    (ord, wild)
}

/// Canonical (sorted) dump of the merged `Zones` over the apexes of the alphabet.
fn impl_dump(al: &Alphabet, zones: &Zones) -> String {
    let mut s = String::new();
    for apex in &al.apexes {
        match zones.get(apex) {
            Some(z) if z.get_apex() == apex => {
                let (ord, wild) = zone_dump_lines(z);
                s.push_str(&format!(
                    "[{}] soa={:?}\n{}\n{}\n",
                    show_name(apex),
                    z.get_soa().map(|x| x.serial),
                    ord.join("\n"),
                    wild.join("\n")
                ));
            }
            _ => {}
        }
    }
    s
}

fn hosts_dump(h: &Hosts) -> Vec<String> {
    let mut v = Vec::new();
    for (n, a) in &h.v4 {
        v.push(format!("{} A {a}", show_name(n)));
    }
    for (n, a) in &h.v6 {
        v.push(format!("{} AAAA {a}", show_name(n)));
    }
    v.sort();
    v
}

fn hosts_ref_dump(hm: &HostsMap) -> Vec<String> {
    let mut v: Vec<String> = hm.iter().map(|((n, _), d)| format!("{} {}", show_name(n), show_data(d))).collect();
    v.sort();
    v
}

// =====================================================================
// Evaluation of one merged configuration against the reference
// =====================================================================

#[derive(Clone, Debug)]
struct Mismatch {
    clause: &'static str,
    detail: String,
    /// question index when the clause is about a lookup
    question: Option<usize>,
}

fn rr_key(r: &ResourceRecord) -> String {
    show_rr(r)
}

fn impl_rrs(r: &ZoneResult) -> Vec<ResourceRecord> {
    match r {
        ZoneResult::Answer { rrs } => rrs.clone(),
        ZoneResult::CNAME { rr, .. } => vec![rr.clone()],
        ZoneResult::Delegation { ns_rrs } => ns_rrs.clone(),
        ZoneResult::NameError => vec![],
    }
}

fn ref_rrs(r: &RefResult) -> Vec<ResourceRecord> {
    match r {
        RefResult::Answer(rrs) => rrs.clone(),
        RefResult::Cname(rr) => vec![rr.clone()],
        RefResult::Delegation(rrs) => rrs.clone(),
        RefResult::NameError => vec![],
    }
}

/// Was the reference answer synthesised from a wildcard set (or did the
/// lookup end at a closest encloser without one)?
fn via_closest_encloser(e: &RefApex, apex: &DomainName, q: &DomainName) -> bool {
    !(q == apex || e.all.iter().any(|r| r.owner.is_subdomain_of(q)))
}

struct EvalStats {
    lookups: u64,
    wildcard_lookups: u64,
    hist: BTreeMap<&'static str, u64>,
}

fn classify_lookup(
    rc: &RefConfig,
    earlier_soas: &BTreeMap<DomainName, Vec<SOA>>,
    q: &DomainName,
    qtype: QueryType,
    want_apex: &DomainName,
    want: &RefResult,
    got: &ZoneResult,
) -> &'static str {
    let e = &rc.apexes[want_apex];
    // only extra SOA records of earlier files?
    let mut g: Vec<String> = impl_rrs(got).iter().map(rr_key).collect();
    let mut w: Vec<String> = ref_rrs(want).iter().map(rr_key).collect();
    g.sort();
    w.sort();
    let same_variant = matches!(
        (got, want),
        (ZoneResult::Answer { .. }, RefResult::Answer(_))
            | (ZoneResult::CNAME { .. }, RefResult::Cname(_))
            | (ZoneResult::Delegation { .. }, RefResult::Delegation(_))
            | (ZoneResult::NameError, RefResult::NameError)
    );
    if same_variant && q == want_apex && w.iter().all(|x| g.contains(x)) && g.len() > w.len() {
        let extra: Vec<&String> = g.iter().filter(|x| !w.contains(x)).collect();
        let olds: Vec<String> = earlier_soas
            .get(want_apex)
            .map(|v| v.iter().map(|s| rr_key(&s.to_rr(want_apex))).collect())
            .unwrap_or_default();
        if extra.iter().all(|x| olds.contains(x)) {
            return "soa-record-set";
        }
    }
    let _ = qtype;
    if via_closest_encloser(e, want_apex, q) {
        return "wildcard-union";
    }
    if want_apex.is_root() {
        let hosts_like = |s: &String| s.contains(&format!(" {} IN A ", dns_types::hosts::types::TTL)) || s.contains(&format!(" {} IN AAAA ", dns_types::hosts::types::TTL));
        let diff: Vec<&String> = g.iter().filter(|x| !w.contains(x)).chain(w.iter().filter(|x| !g.contains(x))).collect();
        if !diff.is_empty() && diff.iter().all(|x| hosts_like(x)) {
            return "hosts-override";
        }
    }
    "record-union"
}

thread_local! {
    static REF_TABLES: std::cell::RefCell<HashMap<u64, Vec<(usize, DomainName, Vec<FlatRec>, std::rc::Rc<Vec<Option<(RefResult, &'static str)>>>)>>> =
        std::cell::RefCell::new(HashMap::new());
}

/// For every question under `apex`: the reference answer on the union `e.all`
/// and its class (`None` for questions outside the apex).
fn ref_table(
    questions: &[(DomainName, QueryType)],
    apex: &DomainName,
    e: &RefApex,
) -> std::rc::Rc<Vec<Option<(RefResult, &'static str)>>> {
    use std::hash::{Hash, Hasher};
    let mut h = std::collections::hash_map::DefaultHasher::new();
    let qid = questions.as_ptr() as usize;
    qid.hash(&mut h);
    apex.hash(&mut h);
    e.all.hash(&mut h);
    let key = h.finish();
    REF_TABLES.with(|c| {
        let mut c = c.borrow_mut();
        let bucket = c.entry(key).or_default();
        if let Some(hit) = bucket.iter().find(|x| x.0 == qid && x.1 == *apex && x.2 == e.all) {
            return hit.3.clone();
        }
        let fz = FlatZone { apex: apex.clone(), soa: None, recs: Vec::new() };
        let table: Vec<Option<(RefResult, &'static str)>> = questions
            .iter()
            .map(|(q, qtype)| {
                fz.resolve_with(&e.all, q, *qtype).map(|want| {
                    let class = match &want {
                        RefResult::NameError => "name-error",
                        RefResult::Delegation(_) => "referral",
                        RefResult::Cname(_) => "cname",
                        RefResult::Answer(rrs) => match (via_closest_encloser(e, apex, q), rrs.is_empty()) {
                            (true, false) => "wildcard-answer",
                            (true, true) => "wildcard-nodata",
                            (false, false) => "answer",
                            (false, true) => "nodata",
                        },
                    };
                    (want, class)
                })
            })
            .collect();
        let rc = std::rc::Rc::new(table);
        bucket.push((qid, apex.clone(), e.all.clone(), rc.clone()));
        rc
    })
}

/// Compare every question and the SOA of every apex.  `earlier_soas`: per
/// apex the SOAs of SOA-bearing files other than the last one.
fn evaluate(
    questions: &[(DomainName, QueryType)],
    zones: &Zones,
    rc: &RefConfig,
    earlier_soas: &BTreeMap<DomainName, Vec<SOA>>,
    stats: &mut EvalStats,
) -> Vec<Mismatch> {
    let mut out = Vec::new();
    let res = catch_unwind(AssertUnwindSafe(|| {
        let mut out = Vec::new();
        let mut lookups = 0u64;
        let mut wl = 0u64;
        let mut hist: BTreeMap<&'static str, u64> = BTreeMap::new();
        for (apex, e) in &rc.apexes {
            match zones.get(apex) {
                Some(z) if z.get_apex() == apex => {
                    if z.get_soa() != e.soa.as_ref() {
                        out.push(Mismatch {
                            clause: "soa-last-wins",
                            detail: format!(
                                "zone {} has SOA serial {:?}, expected that of the last file supplying one: {:?}",
                                show_name(apex),
                                z.get_soa().map(|s| s.serial),
                                e.soa.as_ref().map(|s| s.serial)
                            ),
                            question: None,
                        });
                    }
                }
                _ => out.push(Mismatch {
                    clause: "zone-present",
                    detail: format!("no zone with apex {} in the merged configuration", show_name(apex)),
                    question: None,
                }),
            }
        }
        // reference answers per (apex, union), memoised per thread: the same
        // union occurs in many configurations
        let tables: Vec<(&DomainName, std::rc::Rc<Vec<Option<(RefResult, &'static str)>>>)> =
            rc.apexes.iter().map(|(apex, e)| (apex, ref_table(questions, apex, e))).collect();
        for (qi, (q, qtype)) in questions.iter().enumerate() {
            lookups += 1;
            // the present apex with the longest match answers
            let mut pick: Option<(&DomainName, &(RefResult, &'static str))> = None;
            for (apex, t) in &tables {
                if let Some(ans) = &t[qi] {
                    if pick.map_or(true, |(b, _)| apex.labels.len() > b.labels.len()) {
                        pick = Some((*apex, ans));
                    }
                }
            }
            let (want_apex, (want, class)) = pick.expect("root is always present");
            let class: &'static str = class;
            *hist.entry(class).or_insert(0) += 1;
            if class.starts_with("wildcard") {
                wl += 1;
            }
            match zones.resolve(q, *qtype) {
                None => out.push(Mismatch {
                    clause: "zone-present",
                    detail: format!("{} {}: no zone answers", show_name(q), qtype),
                    question: Some(qi),
                }),
                Some((z, got)) => {
                    if z.get_apex() != want_apex {
                        out.push(Mismatch {
                            clause: "apex-selection",
                            detail: format!(
                                "{} {} answered by zone {} instead of {}",
                                show_name(q),
                                qtype,
                                show_name(z.get_apex()),
                                show_name(want_apex)
                            ),
                            question: Some(qi),
                        });
                    } else if !same_result(&got, want) {
                        out.push(Mismatch {
                            clause: classify_lookup(rc, earlier_soas, q, *qtype, want_apex, want, &got),
                            detail: format!(
                                "{} {} -> implementation {} but union gives {}",
                                show_name(q),
                                qtype,
                                show_zone_result(&got),
                                show_ref(want)
                            ),
                            question: Some(qi),
                        });
                    }
                }
            }
        }
        (out, lookups, wl, hist)
    }));
    match res {
        Ok((o, l, w, h)) => {
            out = o;
            stats.lookups += l;
            stats.wildcard_lookups += w;
            for (k, v) in h {
                *stats.hist.entry(k).or_insert(0) += v;
            }
        }
        Err(_) => out.push(Mismatch { clause: "panic", detail: "a lookup on the merged configuration panicked".into(), question: None }),
    }
    out
}

fn earlier_soas_of(al: &Alphabet, zseq: &[u8]) -> BTreeMap<DomainName, Vec<SOA>> {
    let mut per: BTreeMap<DomainName, Vec<SOA>> = BTreeMap::new();
    for i in zseq {
        let d = &al.zden[*i as usize];
        if let Some(s) = &d.soa {
            per.entry(d.apex.clone()).or_default().push(s.clone());
        }
    }
    for v in per.values_mut() {
        let last = v.pop();
        if let Some(last) = last {
            v.retain(|s| *s != last);
        }
    }
    per
}

/// Merge + evaluate one configuration given as sequences of file indices.
fn run_config(al: &Alphabet, zseq: &[u8], hseq: &[u8], stats: &mut EvalStats, ops: &mut u64) -> Vec<Mismatch> {
    let rc = ref_config(al, zseq, hseq);
    let Ok(m) = impl_merge(al, zseq, hseq, ops) else {
        return vec![Mismatch { clause: "panic", detail: "merging panicked".into(), question: None }];
    };
    let mut out = Vec::new();
    // Hosts::merge against last-writer-wins
    let mut hm = HostsMap::new();
    for h in hseq {
        apply_hosts_file(&mut hm, &al.hspec[*h as usize]);
    }
    if hosts_dump(&m.hosts) != hosts_ref_dump(&hm) {
        out.push(Mismatch {
            clause: "hosts-override",
            detail: format!("Hosts::merge gives {:?}, last writer per (name, family) gives {:?}", hosts_dump(&m.hosts), hosts_ref_dump(&hm)),
            question: None,
        });
    }
    out.extend(evaluate(&al.questions, &m.zones, &rc, &earlier_soas_of(al, zseq), stats));
    out
}

// ---- narrow predicates of the two expected defects, on a shrunk witness

fn slug_for(al: &Alphabet, clause: &str, zseq: &[u8], hseq: &[u8]) -> Option<&'static str> {
    if zseq.len() != 2 || !hseq.is_empty() {
        return None;
    }
    let (fa, fb) = (&al.zden[zseq[0] as usize], &al.zden[zseq[1] as usize]);
    if fa.apex != fb.apex {
        return None;
    }
    let mut stats = EvalStats { lookups: 0, wildcard_lookups: 0, hist: BTreeMap::new() };
    let mut ops = 0;
    let Ok(m) = impl_merge(al, zseq, hseq, &mut ops) else { return None };
    match clause {
        "soa-record-set" => {
            // two files of one apex with different SOAs; the apex answers SOA with both
            let (Some(sa), Some(sb)) = (&fa.soa, &fb.soa) else { return None };
            if sa == sb {
                return None;
            }
            let got = m.zones.resolve(&fa.apex, QueryType::Record(RecordType::SOA))?.1;
            let mut g: Vec<String> = impl_rrs(&got).iter().map(rr_key).collect();
            let mut w = vec![rr_key(&sa.to_rr(&fa.apex)), rr_key(&sb.to_rr(&fa.apex))];
            g.sort();
            w.sort();
            if g == w {
                Some(SLUG_SOA)
            } else {
                None
            }
        }
        "wildcard-union" | "permutation-differential" => {
            // nodes N where the later file has a wildcard set and the earlier
            // file has the node but no wildcard set
            let lost: Vec<&FlatRec> = fb
                .recs
                .iter()
                .filter(|r| {
                    r.wildcard
                        && !fa.recs.iter().any(|x| x.wildcard && x.owner == r.owner)
                        && (r.owner == fa.apex || fa.recs.iter().any(|x| x.owner.is_subdomain_of(&r.owner)))
                })
                .collect();
            if lost.is_empty() {
                return None;
            }
            // the implementation must equal the union minus exactly those records, everywhere
            let mut rc = ref_union_zone_dens(&[fa, fb], None, 0);
            for e in rc.apexes.values_mut() {
                e.all.retain(|r| !lost.iter().any(|l| *l == r));
            }
            let rest = evaluate(&al.questions, &m.zones, &rc, &earlier_soas_of(al, zseq), &mut stats);
            if rest.iter().all(|x| x.clause == "soa-record-set") {
                Some(SLUG_WILD)
            } else {
                None
            }
        }
        _ => None,
    }
}

/// Drop files while the same clause still fails.
fn shrink_config(al: &Alphabet, clause: &str, zseq: &[u8], hseq: &[u8]) -> (Vec<u8>, Vec<u8>) {
    let mut z = zseq.to_vec();
    let mut h = hseq.to_vec();
    let fails = |z: &[u8], h: &[u8]| {
        let mut st = EvalStats { lookups: 0, wildcard_lookups: 0, hist: BTreeMap::new() };
        let mut ops = 0;
        run_config(al, z, h, &mut st, &mut ops).iter().any(|m| m.clause == clause)
    };
    let mut i = 0;
    while i < h.len() {
        let mut c = h.clone();
        c.remove(i);
        if fails(&z, &c) {
            h = c;
        } else {
            i += 1;
        }
    }
    let mut i = 0;
    while i < z.len() {
        let mut c = z.clone();
        c.remove(i);
        if fails(&c, &h) {
            z = c;
        } else {
            i += 1;
        }
    }
    (z, h)
}

fn seq_ids(al: &Alphabet, zseq: &[u8], hseq: &[u8]) -> String {
    let z: Vec<&str> = zseq.iter().map(|i| al.zspec[*i as usize].id).collect();
    let h: Vec<&str> = hseq.iter().map(|i| al.hspec[*i as usize].id).collect();
    format!("zone files [{}] hosts files [{}]", z.join(" "), h.join(" "))
}

fn config_replay(al: &Alphabet, zseq: &[u8], hseq: &[u8]) -> Value {
    json!({
        "kind": "merge",
        "zone_files": zseq.iter().map(|i| json!({"id": al.zspec[*i as usize].id, "text": al.ztext[*i as usize]})).collect::<Vec<_>>(),
        "hosts_files": hseq.iter().map(|i| json!({"id": al.hspec[*i as usize].id, "text": al.htext[*i as usize]})).collect::<Vec<_>>(),
    })
}

// =====================================================================
// Violation collection (k smallest witnesses per clause and slug)
// =====================================================================

const KEEP: usize = 3;

#[derive(Default)]
struct Keep {
    kept: BTreeMap<(String, Option<&'static str>), Vec<(usize, String, String, Value)>>,
    counts: BTreeMap<String, u64>,
}

impl Keep {
    fn count(&mut self, clause: &str, slug: Option<&'static str>, n: u64) {
        *self.counts.entry(format!("{}|{}", clause, slug.unwrap_or(""))).or_insert(0) += n;
    }
    fn wants(&self, clause: &str, slug: Option<&'static str>, size: usize) -> bool {
        match self.kept.get(&(clause.to_string(), slug)) {
            None => true,
            Some(v) => v.len() < KEEP || v.last().map_or(true, |w| size < w.0),
        }
    }
    fn add(&mut self, clause: &str, slug: Option<&'static str>, size: usize, ids: String, summary: String, replay: Value) {
        let v = self.kept.entry((clause.to_string(), slug)).or_default();
        if v.iter().any(|w| w.1 == ids) {
            return;
        }
        v.push((size, ids, summary, replay));
        v.sort_by(|a, b| (a.0, &a.1).cmp(&(b.0, &b.1)));
        v.truncate(KEEP);
    }
    fn merge(&mut self, o: Keep) {
        for (k, n) in o.counts {
            *self.counts.entry(k).or_insert(0) += n;
        }
        for ((c, s), v) in o.kept {
            for (size, ids, summary, replay) in v {
                self.add(&c, s, size, ids, summary, replay);
            }
        }
    }
    fn into_violations(self) -> Vec<Violation> {
        let mut groups: Vec<_> = self.kept.into_iter().collect();
        groups.sort_by_key(|((c, s), _)| (s.is_some(), c.clone()));
        let mut out = Vec::new();
        for ((clause, slug), v) in groups {
            for (_, _, summary, replay) in v {
                out.push(Violation { clause: clause.clone(), summary, replay, slug });
            }
        }
        out
    }
}

/// Slugs of all ordered same-apex pairs, computed on the 2-file configuration
/// itself (that *is* the minimal witness).
type PairTable = HashMap<(String, u8, u8), Option<&'static str>>;

fn pair_table(al: &Alphabet) -> PairTable {
    let mut t = PairTable::new();
    let n = al.zspec.len() as u8;
    for a in 0..n {
        for b in 0..n {
            if al.zden[a as usize].apex != al.zden[b as usize].apex {
                continue;
            }
            let mut st = EvalStats { lookups: 0, wildcard_lookups: 0, hist: BTreeMap::new() };
            let mut ops = 0;
            let ms = run_config(al, &[a, b], &[], &mut st, &mut ops);
            let clauses: BTreeSet<&'static str> = ms.iter().map(|m| m.clause).collect();
            for c in clauses {
                t.insert((c.to_string(), a, b), slug_for(al, c, &[a, b], &[]));
            }
        }
    }
    t
}

/// A slug that some ordered pair of the sequence (same apex as the failing
/// question's zone is not required: pairs are per apex by construction) carries for this clause.
fn attributed_slug(pt: &PairTable, clause: &str, zseq: &[u8]) -> Option<&'static str> {
    for i in 0..zseq.len() {
        for j in (i + 1)..zseq.len() {
            if let Some(Some(s)) = pt.get(&(clause.to_string(), zseq[i], zseq[j])) {
                return Some(s);
            }
        }
    }
    None
}

#[derive(Default)]
struct Acc {
    configs: u64,
    nontrivial: u64,
    ops: u64,
    lookups: u64,
    wildcard_lookups: u64,
    hist: BTreeMap<&'static str, u64>,
    keep: Keep,
    samples: Vec<Value>,
}

fn handle_config(al: &Alphabet, pt: &PairTable, acc: &mut Acc, zseq: &[u8], hseq: &[u8]) {
    let mut st = EvalStats { lookups: 0, wildcard_lookups: 0, hist: BTreeMap::new() };
    let ms = run_config(al, zseq, hseq, &mut st, &mut acc.ops);
    acc.configs += 1;
    acc.lookups += st.lookups;
    acc.wildcard_lookups += st.wildcard_lookups;
    for (k, v) in st.hist {
        *acc.hist.entry(k).or_insert(0) += v;
    }
    // a real merge happened: two files contributed to one apex
    let mut per_apex: BTreeMap<&DomainName, u32> = BTreeMap::new();
    for i in zseq {
        *per_apex.entry(&al.zden[*i as usize].apex).or_insert(0) += 1;
    }
    let root = DomainName::root_domain();
    *per_apex.entry(&root).or_insert(0) += hseq.len() as u32;
    if per_apex.values().any(|n| *n >= 2) {
        acc.nontrivial += 1;
    }
    if ms.is_empty() {
        if acc.samples.len() < 2 && acc.configs % 997 == 5 {
            acc.samples.push(json!({"configuration": seq_ids(al, zseq, hseq), "questions": al.questions.len(), "result": "all answers equal the union"}));
        }
        return;
    }
    let mut by_clause: BTreeMap<&'static str, Vec<&Mismatch>> = BTreeMap::new();
    for m in &ms {
        by_clause.entry(m.clause).or_default().push(m);
    }
    let size = zseq.len() + hseq.len();
    for (clause, list) in by_clause {
        let guess = attributed_slug(pt, clause, zseq);
        if !acc.keep.wants(clause, guess, size) {
            acc.keep.count(clause, guess, 1);
            continue;
        }
        let (z, h) = shrink_config(al, clause, zseq, hseq);
        let slug = slug_for(al, clause, &z, &h);
        acc.keep.count(clause, slug, 1);
        let mut st2 = EvalStats { lookups: 0, wildcard_lookups: 0, hist: BTreeMap::new() };
        let mut ops = 0;
        let small = run_config(al, &z, &h, &mut st2, &mut ops);
        let first = small.iter().find(|m| m.clause == clause).map(|m| m.detail.clone()).unwrap_or_else(|| list[0].detail.clone());
        acc.keep.add(
            clause,
            slug,
            z.len() + h.len(),
            seq_ids(al, &z, &h),
            format!("{}: {}", seq_ids(al, &z, &h), first),
            config_replay(al, &z, &h),
        );
    }
}

fn merge_acc(total: &mut Acc, p: Acc) {
    total.configs += p.configs;
    total.nontrivial += p.nontrivial;
    total.ops += p.ops;
    total.lookups += p.lookups;
    total.wildcard_lookups += p.wildcard_lookups;
    for (k, v) in p.hist {
        *total.hist.entry(k).or_insert(0) += v;
    }
    total.keep.merge(p.keep);
    for s in p.samples {
        if total.samples.len() < 4 {
            total.samples.push(s);
        }
    }
}

fn all_sequences(n: u8, max_len: usize) -> Vec<Vec<u8>> {
    let mut out: Vec<Vec<u8>> = vec![vec![]];
    let mut level: Vec<Vec<u8>> = vec![vec![]];
    for _ in 0..max_len {
        let mut next = Vec::with_capacity(level.len() * n as usize);
        for l in &level {
            for i in 0..n {
                let mut v = l.clone();
                v.push(i);
                next.push(v);
            }
        }
        out.extend(next.iter().cloned());
        level = next;
    }
    out
}

/// Order-equivalence class of a zone-file sequence: per authoritative apex
/// the ordered list of its files, plus the sorted multiset of SOA-less files.
fn class_key(al: &Alphabet, zseq: &[u8]) -> Vec<u8> {
    let mut per: BTreeMap<&DomainName, Vec<u8>> = BTreeMap::new();
    let mut free: Vec<u8> = Vec::new();
    for i in zseq {
        let d = &al.zden[*i as usize];
        if d.soa.is_some() {
            per.entry(&d.apex).or_default().push(*i);
        } else {
            free.push(*i);
        }
    }
    free.sort();
    let mut key = Vec::new();
    for (_, v) in per {
        key.extend(v);
        key.push(255);
    }
    key.push(254);
    key.extend(free);
    key
}

struct ZState {
    rep: u32,
    members: u64,
}

// =====================================================================
// Loader level
// =====================================================================

struct LoaderContents {
    ztext: Vec<String>,
    zden: Vec<ZoneFileDen>,
    hspec: Vec<HostsFileSpec>,
    htext: Vec<String>,
    questions: Vec<(DomainName, QueryType)>,
}

fn loader_contents() -> LoaderContents {
    let a_rec = [[10, 2, 0, 1], [10, 2, 0, 2], [10, 2, 0, 3], [10, 2, 0, 4]];
    let owners = ["f1", "f2", "f3", "f4"];
    let mut zspecs = Vec::new();
    for i in 0..4usize {
        zspecs.push(ZoneFileSpec {
            id: ["L1", "L2", "L3", "L4"][i],
            apex: "ld.",
            soa: Some(SoaSpec { mname: "ns.ld.", serial: 11 + i as u32, minimum: 60 }),
            recs: vec![rec(owners[i], 600, RD::A(a_rec[i])), rec("www", 600, RD::A([10, 2, 0, 9]))],
        });
    }
    let hspec = vec![
        HostsFileSpec { id: "LH1", lines: vec![("10.3.0.1", vec!["host", "h1"])] },
        HostsFileSpec { id: "LH2", lines: vec![("10.3.0.2", vec!["host", "h2"]), ("fd00::32", vec!["host"])] },
        HostsFileSpec { id: "LH3", lines: vec![("10.3.0.3", vec!["host", "h3"])] },
        HostsFileSpec { id: "LH4", lines: vec![("10.3.0.4", vec!["host", "h4"]), ("fd00::34", vec!["host"])] },
    ];
    let mut questions = Vec::new();
    for n in ["ld.", "f1.ld.", "f2.ld.", "f3.ld.", "f4.ld.", "www.ld.", "nothere.ld.", "host.", "h1.", "h2.", "h3.", "h4.", "nohost."] {
        for qt in QTYPES {
            questions.push((dn(n), qt));
        }
    }
    LoaderContents {
        ztext: zspecs.iter().map(render_zone_file).collect(),
        zden: zspecs.iter().map(denote_zone_file).collect(),
        htext: hspec.iter().map(render_hosts_file).collect(),
        hspec,
        questions,
    }
}

#[derive(Clone, Debug)]
struct LoaderCase {
    mode: &'static str,
    names: &'static [&'static str; 4],
    /// content indices passed as explicit files, in this order (also creation order)
    files: Vec<usize>,
    /// directories; each lists content indices in creation order
    dirs: Vec<Vec<usize>>,
}

const NAMES_DESIGN: [&str; 4] = ["10", "2", "a", "B"];
const NAMES_PLAIN: [&str; 4] = ["a1", "a2", "a3", "a4"];

fn permutations(items: &[usize]) -> Vec<Vec<usize>> {
    if items.len() <= 1 {
        return vec![items.to_vec()];
    }
    let mut out = Vec::new();
    for i in 0..items.len() {
        let mut rest = items.to_vec();
        let x = rest.remove(i);
        for mut p in permutations(&rest) {
            p.insert(0, x);
            out.push(p);
        }
    }
    out
}

fn loader_cases() -> Vec<LoaderCase> {
    let mut v = Vec::new();
    for names in [&NAMES_DESIGN, &NAMES_PLAIN] {
        for mask in 1u32..16 {
            let subset: Vec<usize> = (0..4).filter(|i| mask & (1 << i) != 0).collect();
            for p in permutations(&subset) {
                v.push(LoaderCase { mode: "directory", names, files: vec![], dirs: vec![p.clone()] });
                if std::ptr::eq(names, &NAMES_DESIGN) {
                    v.push(LoaderCase { mode: "files", names, files: p.clone(), dirs: vec![] });
                }
            }
        }
    }
    for p in permutations(&[0, 1, 2, 3]) {
        for j in 1..=3 {
            v.push(LoaderCase { mode: "files+directory", names: &NAMES_DESIGN, files: p[..j].to_vec(), dirs: vec![p[j..].to_vec()] });
        }
        v.push(LoaderCase { mode: "two-directories", names: &NAMES_DESIGN, files: vec![], dirs: vec![p[..2].to_vec(), p[2..].to_vec()] });
    }
    v
}

fn sorted_by_name(names: &[&str; 4], idx: &[usize]) -> Vec<usize> {
    let mut v = idx.to_vec();
    v.sort_by(|a, b| names[*a].as_bytes().cmp(names[*b].as_bytes()));
    v
}

/// Acceptable application orders (content indices).
fn acceptable_orders(c: &LoaderCase) -> Vec<Vec<usize>> {
    let dirs: Vec<Vec<usize>> = c.dirs.iter().map(|d| sorted_by_name(c.names, d)).collect();
    let mut parts: Vec<Vec<usize>> = Vec::new();
    if !c.files.is_empty() {
        parts.push(c.files.clone());
    }
    parts.extend(dirs);
    // the statement fixes the order inside a directory (and we take the order of
    // explicitly listed files as given); the order *between* groups is left open
    let ids: Vec<usize> = (0..parts.len()).collect();
    let mut out: Vec<Vec<usize>> = Vec::new();
    for p in permutations(&ids) {
        let o: Vec<usize> = p.iter().flat_map(|i| parts[*i].clone()).collect();
        if !out.contains(&o) {
            out.push(o);
        }
    }
    out
}

struct LoaderOutcome {
    mismatches: Vec<Mismatch>,
    lookups: u64,
    raw_order_differs: bool,
    load_failed: bool,
}

fn run_loader_case(lc: &LoaderContents, c: &LoaderCase, root: &Path, serial: usize, rt: &tokio::runtime::Runtime) -> Result<LoaderOutcome, String> {
    let base = root.join(format!("case{serial}"));
    std::fs::create_dir_all(&base).map_err(|e| format!("mkdir {}: {e}", base.display()))?;
    let mut zfiles = Vec::new();
    let mut hfiles = Vec::new();
    let mut zdirs = Vec::new();
    let mut hdirs = Vec::new();
    let mut raw_order_differs = false;
    let write = |p: &Path, t: &str| std::fs::write(p, t).map_err(|e| format!("write {}: {e}", p.display()));
    let fdir = base.join("listed");
    std::fs::create_dir_all(&fdir).map_err(|e| e.to_string())?;
    for i in &c.files {
        let zp = fdir.join(format!("{}.zone", c.names[*i]));
        write(&zp, &lc.ztext[*i])?;
        zfiles.push(zp);
        let hp = fdir.join(format!("{}.hosts", c.names[*i]));
        write(&hp, &lc.htext[*i])?;
        hfiles.push(hp);
    }
    for (k, d) in c.dirs.iter().enumerate() {
        let zd = base.join(format!("zones{k}"));
        let hd = base.join(format!("hosts{k}"));
        std::fs::create_dir_all(&zd).map_err(|e| e.to_string())?;
        std::fs::create_dir_all(&hd).map_err(|e| e.to_string())?;
        for i in d {
            write(&zd.join(format!("{}.zone", c.names[*i])), &lc.ztext[*i])?;
            write(&hd.join(format!("{}.hosts", c.names[*i])), &lc.htext[*i])?;
        }
        for dir in [&zd, &hd] {
            let raw: Vec<String> = std::fs::read_dir(dir)
                .map_err(|e| e.to_string())?
                .filter_map(|e| e.ok())
                .map(|e| e.file_name().to_string_lossy().to_string())
                .collect();
            let mut sorted = raw.clone();
            sorted.sort();
            if raw != sorted {
                raw_order_differs = true;
            }
        }
        zdirs.push(zd);
        hdirs.push(hd);
    }
    let loaded = catch_unwind(AssertUnwindSafe(|| {
        rt.block_on(resolved::fs::load_zone_configuration(&hfiles, &hdirs, &zfiles, &zdirs))
    }));
    let _ = std::fs::remove_dir_all(&base);
    let zones = match loaded {
        Err(_) => {
            return Ok(LoaderOutcome {
                mismatches: vec![Mismatch { clause: "panic", detail: "load_zone_configuration panicked".into(), question: None }],
                lookups: 0,
                raw_order_differs,
                load_failed: true,
            })
        }
        Ok(None) => {
            return Ok(LoaderOutcome {
                mismatches: vec![Mismatch { clause: "loader-rejects-valid-files", detail: "load_zone_configuration returned None".into(), question: None }],
                lookups: 0,
                raw_order_differs,
                load_failed: true,
            })
        }
        Ok(Some(z)) => z,
    };
    let mut best: Option<(Vec<Mismatch>, u64)> = None;
    for order in acceptable_orders(c) {
        let dens: Vec<&ZoneFileDen> = order.iter().map(|i| &lc.zden[*i]).collect();
        let mut hm = HostsMap::new();
        for i in &order {
            apply_hosts_file(&mut hm, &lc.hspec[*i]);
        }
        let rc = ref_union_zone_dens(&dens, Some(&hm), order.len() as u32);
        let mut earlier: BTreeMap<DomainName, Vec<SOA>> = BTreeMap::new();
        let mut soas: Vec<SOA> = dens.iter().filter_map(|d| d.soa.clone()).collect();
        let last = soas.pop();
        if let Some(last) = last {
            soas.retain(|s| *s != last);
        }
        earlier.insert(dn("ld."), soas);
        let mut st = EvalStats { lookups: 0, wildcard_lookups: 0, hist: BTreeMap::new() };
        let ms = evaluate(&lc.questions, &zones, &rc, &earlier, &mut st);
        // an order is "matched" when the last-writer observations agree; prefer fewer mismatches
        let score = ms.len();
        if best.as_ref().map_or(true, |(b, _)| score < b.len()) {
            best = Some((ms, st.lookups));
        }
    }
    let (mismatches, lookups) = best.unwrap_or((vec![], 0));
    Ok(LoaderOutcome { mismatches, lookups, raw_order_differs, load_failed: false })
}

fn loader_case_value(c: &LoaderCase) -> Value {
    json!({
        "kind": "loader",
        "mode": c.mode,
        "names": c.names,
        "files": c.files,
        "dirs": c.dirs,
    })
}

fn describe_loader_case(c: &LoaderCase) -> String {
    let nm = |v: &Vec<usize>| v.iter().map(|i| c.names[*i]).collect::<Vec<_>>().join(",");
    format!(
        "{}: listed files [{}] directories (creation order) {:?}",
        c.mode,
        nm(&c.files),
        c.dirs.iter().map(nm).collect::<Vec<_>>()
    )
}

fn loader_clause(m: &Mismatch) -> (String, Option<&'static str>) {
    match m.clause {
        // the only difference is extra SOA records of earlier files (classify_lookup checked that)
        "soa-record-set" => ("loader:soa-record-set".into(), Some(SLUG_SOA)),
        "soa-last-wins" => ("loader:order(last SOA)".into(), None),
        "hosts-override" => ("loader:order(last hosts entry)".into(), None),
        other => (format!("loader:{other}"), None),
    }
}

// =====================================================================
// Entry points
// =====================================================================

fn fnv_str(s: &str) -> u64 {
    fnv64(s.as_bytes())
}

pub fn run(ctx: &Ctx) -> i32 {
    let al = match build_alphabet() {
        Ok(a) => a,
        Err(e) => {
            eprintln!("C12: machinery error: {e}");
            return 2;
        }
    };
    let cap = ctx.tier.pick(48.0, 520.0);
    let (max_z, max_h) = ctx.tier.pick((3usize, 2usize), (5usize, 3usize));
    let dedup = ctx.tier == Tier::Thorough;
    let pt = pair_table(&al);
    let zseqs = all_sequences(al.zspec.len() as u8, max_z);
    let hseqs = all_sequences(al.hspec.len() as u8, max_h);
    let mut report = Report::new();
    let mut exhaustive = true;
    let mut total = Acc::default();

    // ---- phase A: every zone-file sequence: state key, order-equivalence class
    struct PA {
        /// state key -> (smallest sequence index, members)
        states: HashMap<u64, (u32, u64)>,
        /// class key -> (dump hash, smallest sequence index) for each distinct dump
        classes: HashMap<Vec<u8>, Vec<(u64, u32)>>,
        ops: u64,
        panics: Vec<u32>,
    }
    let parts = par_fold(
        zseqs.len(),
        ctx.threads,
        ctx.seed,
        || PA { states: HashMap::new(), classes: HashMap::new(), ops: 0, panics: vec![] },
        |pa, i| {
            let zseq = &zseqs[i];
            let Ok(m) = impl_merge(&al, zseq, &[], &mut pa.ops) else {
                pa.panics.push(i as u32);
                return;
            };
            let idump = impl_dump(&al, &m.zones);
            let ih = fnv_str(&idump);
            let key = if dedup {
                let rdump = ref_dump(&ref_config(&al, zseq, &[]));
                ih ^ fnv_str(&rdump).rotate_left(17)
            } else {
                i as u64
            };
            let e = pa.states.entry(key).or_insert((i as u32, 0));
            e.0 = e.0.min(i as u32);
            e.1 += 1;
            let ck = class_key(&al, zseq);
            let v = pa.classes.entry(ck).or_default();
            match v.iter_mut().find(|(h, _)| *h == ih) {
                Some(x) => x.1 = x.1.min(i as u32),
                None => v.push((ih, i as u32)),
            }
        },
    );
    let mut states: HashMap<u64, (u32, u64)> = HashMap::new();
    let mut classes: HashMap<Vec<u8>, Vec<(u64, u32)>> = HashMap::new();
    for p in parts {
        total.ops += p.ops;
        for i in p.panics {
            total.keep.count("panic", None, 1);
            total.keep.add("panic", None, zseqs[i as usize].len(), seq_ids(&al, &zseqs[i as usize], &[]), format!("{}: merging panicked", seq_ids(&al, &zseqs[i as usize], &[])), config_replay(&al, &zseqs[i as usize], &[]));
        }
        for (k, (rep, n)) in p.states {
            let e = states.entry(k).or_insert((rep, 0));
            e.0 = e.0.min(rep);
            e.1 += n;
        }
        for (ck, v) in p.classes {
            let t = classes.entry(ck).or_default();
            for (h, i) in v {
                match t.iter_mut().find(|(hh, _)| *hh == h) {
                    Some(x) => x.1 = x.1.min(i),
                    None => t.push((h, i)),
                }
            }
        }
    }
    // differential: every class must have one dump
    let mut class_list: Vec<(&Vec<u8>, &Vec<(u64, u32)>)> = classes.iter().collect();
    class_list.sort();
    let n_classes = class_list.len();
    let mut diff_violations = 0u64;
    let classes_with_permutations: u64 = {
        // class sizes (to know in how many classes a permutation exists at all)
        let mut size: HashMap<Vec<u8>, u32> = HashMap::new();
        for z in &zseqs {
            *size.entry(class_key(&al, z)).or_insert(0) += 1;
        }
        size.values().filter(|n| **n > 1).count() as u64
    };
    for (_ck, dumps) in class_list {
        if dumps.len() <= 1 {
            continue;
        }
        diff_violations += 1;
        let mut d = dumps.clone();
        d.sort_by_key(|x| x.1);
        let (a, b) = (&zseqs[d[0].1 as usize], &zseqs[d[1].1 as usize]);
        let mut ops = 0;
        let (da, db) = match (impl_merge(&al, a, &[], &mut ops), impl_merge(&al, b, &[], &mut ops)) {
            (Ok(x), Ok(y)) => (impl_dump(&al, &x.zones), impl_dump(&al, &y.zones)),
            _ => continue,
        };
        // slug: both orders are 2-file sequences and one of them is a minimal witness of the wildcard defect
        let slug = if a.len() == 2 && b.len() == 2 {
            [a, b].iter().find_map(|s| slug_for(&al, "permutation-differential", s, &[]))
        } else {
            let known = attributed_slug(&pt, "wildcard-union", a).or(attributed_slug(&pt, "wildcard-union", b));
            let only_wild = da.lines().filter(|l| !l.starts_with("*.") && !l.is_empty()).eq(db.lines().filter(|l| !l.starts_with("*.") && !l.is_empty()));
            if only_wild { known } else { None }
        };
        total.keep.count("permutation-differential", slug, 1);
        if total.keep.wants("permutation-differential", slug, a.len()) {
            total.keep.add(
                "permutation-differential",
                slug,
                a.len(),
                format!("{} vs {}", seq_ids(&al, a, &[]), seq_ids(&al, b, &[])),
                format!("merging {} and the order-equivalent {} give different states: {:?} vs {:?}", seq_ids(&al, a, &[]), seq_ids(&al, b, &[]), da, db),
                json!({"kind": "permutation", "a": config_replay(&al, a, &[]), "b": config_replay(&al, b, &[])}),
            );
        }
    }

    // ---- phase B: hosts sequences (Hosts::merge against last-writer-wins), distinct states
    let mut hstates: BTreeMap<u64, (u32, u64)> = BTreeMap::new();
    for (i, hseq) in hseqs.iter().enumerate() {
        let key = if dedup {
            let mut ops = 0;
            match impl_merge(&al, &[], hseq, &mut ops) {
                Ok(m) => {
                    let mut hm = HostsMap::new();
                    for h in hseq {
                        apply_hosts_file(&mut hm, &al.hspec[*h as usize]);
                    }
                    fnv_str(&hosts_dump(&m.hosts).join("\n")) ^ fnv_str(&hosts_ref_dump(&hm).join("\n")).rotate_left(17)
                }
                Err(()) => u64::MAX - i as u64,
            }
        } else {
            i as u64
        };
        let e = hstates.entry(key).or_insert((i as u32, 0));
        e.1 += 1;
    }
    let mut zreps: Vec<u32> = states.values().map(|x| x.0).collect();
    zreps.sort();
    let hreps: Vec<u32> = {
        let mut v: Vec<u32> = hstates.values().map(|x| x.0).collect();
        v.sort();
        v
    };

    // ---- loader level
    let t_a = ctx.elapsed();
    let lc = loader_contents();
    let cases = loader_cases();
    let root = work_dir("c12");
    let mut loader_run = 0u64;
    let mut loader_lookups = 0u64;
    let mut loader_raw_differs = 0u64;
    let mut loader_hist: BTreeMap<String, u64> = BTreeMap::new();
    // the cases are independent (own directory each): run them on all workers,
    // then judge them in case order
    let next = std::sync::atomic::AtomicUsize::new(0);
    let mut outcomes: Vec<(usize, Result<LoaderOutcome, String>)> = Vec::new();
    std::thread::scope(|sc| {
        let mut hs = Vec::new();
        for _ in 0..ctx.threads.max(1) {
            hs.push(sc.spawn(|| {
                let mut mine: Vec<(usize, Result<LoaderOutcome, String>)> = Vec::new();
                let rt = match tokio::runtime::Builder::new_current_thread().enable_all().build() {
                    Ok(r) => r,
                    Err(e) => {
                        mine.push((usize::MAX, Err(format!("tokio runtime: {e}"))));
                        return mine;
                    }
                };
                loop {
                    let k = next.fetch_add(1, std::sync::atomic::Ordering::Relaxed);
                    if k >= cases.len() || ctx.elapsed() > cap {
                        break;
                    }
                    mine.push((k, run_loader_case(&lc, &cases[k], &root, k, &rt)));
                }
                mine
            }));
        }
        for h in hs {
            if let Ok(v) = h.join() {
                outcomes.extend(v);
            }
        }
    });
    outcomes.sort_by_key(|x| x.0);
    if outcomes.len() < cases.len() {
        exhaustive = false;
        report.extra.insert("cap_hit_in_loader_cases_run".into(), json!(outcomes.len()));
    }
    for (k, outcome) in outcomes {
        let c = &cases[k.min(cases.len() - 1)];
        match outcome {
            Err(e) => {
                let _ = std::fs::remove_dir_all(&root);
                eprintln!("C12: machinery error in loader case: {e}");
                return 2;
            }
            Ok(o) => {
                loader_run += 1;
                loader_lookups += o.lookups;
                if o.raw_order_differs {
                    loader_raw_differs += 1;
                }
                *loader_hist.entry(format!("loader:{}", c.mode)).or_insert(0) += 1;
                let only_soa = !o.load_failed && o.mismatches.iter().all(|m| m.clause == "soa-record-set");
                let mut seen: BTreeSet<String> = BTreeSet::new();
                let n_files = c.files.len() + c.dirs.iter().map(|d| d.len()).sum::<usize>();
                for m in &o.mismatches {
                    let (clause, slug) = loader_clause(m);
                    let slug = if only_soa { slug } else { None };
                    if !seen.insert(clause.clone()) {
                        continue;
                    }
                    total.keep.count(&clause, slug, 1);
                    if total.keep.wants(&clause, slug, n_files) {
                        total.keep.add(
                            &clause,
                            slug,
                            n_files,
                            describe_loader_case(c),
                            format!("{} -> {}", describe_loader_case(c), m.detail),
                            loader_case_value(c),
                        );
                    }
                }
                if total.samples.len() < 6 && (k == 7 || k == 200) {
                    total.samples.push(json!({"loader_case": describe_loader_case(c), "acceptable_orders": acceptable_orders(c).iter().map(|o| o.iter().map(|i| c.names[*i]).collect::<Vec<_>>()).collect::<Vec<_>>(), "mismatches": o.mismatches.len()}));
                }
            }
        }
    }
    let _ = std::fs::remove_dir_all(&root);
    let _ = std::fs::remove_dir(Path::new(VERIF_ROOT).join(".work"));

    let t_loader = ctx.elapsed();
    // ---- phase C: every distinct zone state x every distinct hosts state x every question
    let n_cfg = zreps.len() * hreps.len();
    let stop = std::sync::atomic::AtomicBool::new(false);
    let parts = par_fold(n_cfg, ctx.threads, ctx.seed, Acc::default, |acc, i| {
        if stop.load(std::sync::atomic::Ordering::Relaxed) {
            return;
        }
        if i % 256 == 0 && ctx.elapsed() > cap {
            stop.store(true, std::sync::atomic::Ordering::Relaxed);
            return;
        }
        let z = &zseqs[zreps[i / hreps.len()] as usize];
        let h = &hseqs[hreps[i % hreps.len()] as usize];
        handle_config(&al, &pt, acc, z, h);
    });
    for p in parts {
        merge_acc(&mut total, p);
    }
    if stop.load(std::sync::atomic::Ordering::Relaxed) {
        exhaustive = false;
        report.extra.insert("cap_hit_in".into(), json!("phase C (configurations x questions)"));
    }

    // fixed samples
    for (z, h) in [(vec![0u8, 3], vec![0u8]), (vec![11u8, 12, 8], vec![1u8, 4])] {
        let rc = ref_config(&al, &z, &h);
        let (q, qt) = (dn("nothere.ex."), QueryType::Record(RecordType::A));
        let mut ops = 0;
        if let Ok(m) = impl_merge(&al, &z, &h, &mut ops) {
            total.samples.push(json!({
                "configuration": seq_ids(&al, &z, &h),
                "question": format!("{} {}", show_name(&q), qt),
                "union_answer": show_ref(&ref_answer(&rc, &q, qt).1),
                "implementation": m.zones.resolve(&q, qt).map(|(_, r)| show_zone_result(&r)),
            }));
        }
    }

    let mut hist: BTreeMap<String, u64> = total.hist.iter().map(|(k, v)| (format!("lookup:{k}"), *v)).collect();
    hist.extend(loader_hist);
    report.evaluations = total.lookups + loader_lookups;
    report.states = total.configs + loader_run;
    report.transitions = total.ops + loader_run;
    report.traces_validated = total.configs + loader_run;
    report.distinct_nontrivial = total.nontrivial;
    report.rule = format!(
        "every sequence of 0..{max_z} zone files of the 14-file alphabet is merged with Zones::insert_merge ({} sequences){}, every sequence of 0..{max_h} of the 5 hosts files with Hosts::merge ({} sequences); every (zone state x hosts state) pair is completed with insert_merge(hosts.into()) and asked all {} questions; a configuration is non-trivial when at least two files (zone or hosts) contribute to the same apex, i.e. a real merge happened; configurations are distinct by construction (quick) or by the de-duplication key (thorough)",
        zseqs.len(),
        if dedup { " and de-duplicated on (canonical sorted dump of the merged Zones, dump of the reference union)" } else { "" },
        hseqs.len(),
        al.questions.len()
    );
    report.samples = total.samples.drain(..).take(6).collect();
    report.bounds = json!({
        "max_zone_files": max_z,
        "max_hosts_files": max_h,
        "zone_file_sequences": zseqs.len(),
        "hosts_file_sequences": hseqs.len(),
        "distinct_zone_states": zreps.len(),
        "distinct_hosts_states": hreps.len(),
        "configurations_evaluated": total.configs,
        "questions_per_configuration": al.questions.len(),
        "zone_files": al.zspec.iter().zip(al.ztext.iter()).map(|(s, t)| json!({"id": s.id, "text": t})).collect::<Vec<_>>(),
        "hosts_files": al.hspec.iter().zip(al.htext.iter()).map(|(s, t)| json!({"id": s.id, "text": t})).collect::<Vec<_>>(),
        "order_equivalence_classes": n_classes,
        "classes_with_more_than_one_sequence": classes_with_permutations,
        "classes_with_differing_states": diff_violations,
        "loader_cases": cases.len(),
        "loader_cases_run": loader_run,
        "loader_cases_where_raw_directory_order_differs_from_sorted": loader_raw_differs,
    });
    report.exhaustive = exhaustive;
    report.outcome_histogram = hist;
    report.extra.insert("wall_sequences_and_classes_s".into(), json!(t_a));
    report.extra.insert("wall_loader_s".into(), json!(t_loader - t_a));
    report.extra.insert("wall_questions_s".into(), json!(ctx.elapsed() - t_loader));
    report.extra.insert("wildcard_lookups".into(), json!(total.wildcard_lookups));
    report.extra.insert("violation_counts".into(), json!(total.keep.counts));
    report.assumptions = vec![
        "records keep the TTL their own file's SOA minimum gave them at parse time; the merged zone is not re-clamped to the winning SOA's minimum".into(),
        "explicitly listed files are applied in the order given; directories in sorted order; the order between the group of listed files and each directory is not judged (either accepted)".into(),
        "`sorted` is byte-wise order of file names (10 < 2 < B < a); a second name set (a1..a4) on which every usual collation agrees is run as well".into(),
        "no root-apex file carries a SOA (hosts entries go to the non-authoritative root zone, as in the statement)".into(),
        "answers are compared as multisets (HashMap iteration order is not relied on)".into(),
    ];
    report.violations = std::mem::take(&mut total.keep).into_violations();
    finish(ctx, report)
}

fn ids_from_replay(al: &Alphabet, v: &Value) -> Result<(Vec<u8>, Vec<u8>), String> {
    let mut z = Vec::new();
    for f in v["zone_files"].as_array().cloned().unwrap_or_default() {
        let id = f["id"].as_str().unwrap_or("");
        let i = al.zspec.iter().position(|s| s.id == id).ok_or(format!("unknown zone file id {id:?}"))?;
        if let Some(t) = f["text"].as_str() {
            if t != al.ztext[i] {
                return Err(format!("zone file {id} of the replay differs from the alphabet of this harness version"));
            }
        }
        z.push(i as u8);
    }
    let mut h = Vec::new();
    for f in v["hosts_files"].as_array().cloned().unwrap_or_default() {
        let id = f["id"].as_str().unwrap_or("");
        let i = al.hspec.iter().position(|s| s.id == id).ok_or(format!("unknown hosts file id {id:?}"))?;
        h.push(i as u8);
    }
    Ok((z, h))
}

fn replay_merge(al: &Alphabet, v: &Value) -> Result<bool, String> {
    let (z, h) = ids_from_replay(al, v)?;
    println!("configuration: {}", seq_ids(al, &z, &h));
    for i in &z {
        println!("--- {}\n{}", al.zspec[*i as usize].id, al.ztext[*i as usize]);
    }
    for i in &h {
        println!("--- {}\n{}", al.hspec[*i as usize].id, al.htext[*i as usize]);
    }
    let mut st = EvalStats { lookups: 0, wildcard_lookups: 0, hist: BTreeMap::new() };
    let mut ops = 0;
    let ms = run_config(al, &z, &h, &mut st, &mut ops);
    println!("reference union:\n{}", ref_dump(&ref_config(al, &z, &h)));
    if let Ok(m) = impl_merge(al, &z, &h, &mut ops) {
        println!("implementation state:\n{}", impl_dump(al, &m.zones));
    }
    println!("{} questions asked, {} disagree", st.lookups, ms.len());
    for m in ms.iter().take(12) {
        println!("  [{}] {}", m.clause, m.detail);
    }
    Ok(ms.is_empty())
}

pub fn replay(ctx: &Ctx, v: &Value) -> i32 {
    let al = match build_alphabet() {
        Ok(a) => a,
        Err(e) => {
            eprintln!("C12: machinery error: {e}");
            return 2;
        }
    };
    let ok = match v["kind"].as_str().unwrap_or("merge") {
        "merge" => match replay_merge(&al, v) {
            Ok(b) => b,
            Err(e) => {
                eprintln!("C12: {e}");
                return 2;
            }
        },
        "permutation" => {
            let (a, b) = match (ids_from_replay(&al, &v["a"]), ids_from_replay(&al, &v["b"])) {
                (Ok(a), Ok(b)) => (a, b),
                (Err(e), _) | (_, Err(e)) => {
                    eprintln!("C12: {e}");
                    return 2;
                }
            };
            let mut ops = 0;
            match (impl_merge(&al, &a.0, &a.1, &mut ops), impl_merge(&al, &b.0, &b.1, &mut ops)) {
                (Ok(x), Ok(y)) => {
                    let (dx, dy) = (impl_dump(&al, &x.zones), impl_dump(&al, &y.zones));
                    println!("order 1: {}\n{}", seq_ids(&al, &a.0, &a.1), dx);
                    println!("order 2: {}\n{}", seq_ids(&al, &b.0, &b.1), dy);
                    println!("reference union (same for both):\n{}", ref_dump(&ref_config(&al, &a.0, &a.1)));
                    dx == dy
                }
                _ => {
                    println!("merging panicked");
                    false
                }
            }
        }
        "loader" => {
            let names: &'static [&'static str; 4] = if v["names"][0].as_str() == Some("a1") { &NAMES_PLAIN } else { &NAMES_DESIGN };
            let to_vec = |x: &Value| -> Vec<usize> { x.as_array().map(|a| a.iter().filter_map(|i| i.as_u64()).map(|i| i as usize).collect()).unwrap_or_default() };
            let c = LoaderCase {
                mode: "replayed",
                names,
                files: to_vec(&v["files"]),
                dirs: v["dirs"].as_array().map(|a| a.iter().map(|d| to_vec(d)).collect()).unwrap_or_default(),
            };
            let lc = loader_contents();
            let root = work_dir("c12-replay");
            let rt = tokio::runtime::Builder::new_current_thread().enable_all().build().expect("tokio runtime");
            let r = run_loader_case(&lc, &c, &root, 0, &rt);
            let _ = std::fs::remove_dir_all(&root);
            match r {
                Err(e) => {
                    eprintln!("C12: machinery error: {e}");
                    return 2;
                }
                Ok(o) => {
                    println!("loader case {}", describe_loader_case(&c));
                    println!("acceptable application orders: {:?}", acceptable_orders(&c).iter().map(|o| o.iter().map(|i| c.names[*i]).collect::<Vec<_>>()).collect::<Vec<_>>());
                    println!("{} disagreements with the best-matching order", o.mismatches.len());
                    for m in o.mismatches.iter().take(12) {
                        println!("  [{}] {}", m.clause, m.detail);
                    }
                    o.mismatches.is_empty()
                }
            }
        }
        other => {
            eprintln!("C12: unknown replay kind {other:?}");
            return 2;
        }
    };
    if ok {
        println!("replay: property holds on this case");
        0
    } else {
        println!("VIOLATION property={} replay=(replayed case)", ctx.id);
        1
    }
}

pub fn worker(_args: &[String]) -> i32 {
    2
}
