//! C15 — cache pruning is exact, bounded and least-recently-used; the record
//! count equals the number of distinct entries, also under threads.
//!
//! Sequential part: stateright search shared with C05 (`cachemodel`), judged by
//! the C15 clauses.  Concurrent part: loom explores every interleaving of the
//! critical sections of small thread programs on the real `SharedCache`
//! (mutex wrapper hook bound to a loom semaphore).

use crate::c05::{replay_history, run_plans, Plan};
use crate::cachemodel::*;
use crate::common::*;
use crate::util::*;
use dns_resolver::cache::SharedCache;
use dns_types::protocol::types::*;
use serde_json::{json, Value};
use std::collections::{BTreeMap, BTreeSet};
use std::rc::Rc;
use std::sync::atomic::{AtomicU64, Ordering};
use std::sync::{Arc, Mutex};
use std::time::Duration;

fn alphabet(tier: Tier) -> Vec<Op> {
    let mut ops = Vec::new();
    for n in [1u8, 2, 3] {
        for ty in [Ty::A, Ty::Txt] {
            for ttl in [1u32, 3] {
                ops.push(Op::Ins(Rec { name: n, ty, val: 1, ttl }));
            }
        }
    }
    ops.push(Op::Ins(Rec { name: 1, ty: Ty::A, val: 2, ttl: 2 }));
    ops.push(Op::InsAll(vec![
        Rec { name: 2, ty: Ty::A, val: 1, ttl: 1 },
        Rec { name: 3, ty: Ty::A, val: 1, ttl: 3 },
    ]));
    ops.push(Op::InsAll(vec![
        Rec { name: 1, ty: Ty::A, val: 1, ttl: 3 },
        Rec { name: 1, ty: Ty::Txt, val: 1, ttl: 1 },
        Rec { name: 1, ty: Ty::A, val: 2, ttl: 1 },
    ]));
    for n in [1u8, 2, 3] {
        ops.push(Op::Get(n, Q::A));
    }
    ops.push(Op::Get(1, Q::Txt));
    ops.push(Op::Get(1, Q::Any));
    ops.push(Op::Get(2, Q::Any));
    ops.push(Op::Prune);
    ops.push(Op::Adv(1000));
    ops.push(Op::Adv(3000));
    if tier == Tier::Thorough {
        ops.push(Op::Adv(500));
        ops.push(Op::Ins(Rec { name: 2, ty: Ty::A, val: 2, ttl: 2 }));
        ops.push(Op::GetUnchecked(1, Q::Any));
    }
    ops
}

// ---------------------------------------------------------------------------
// loom
// ---------------------------------------------------------------------------

/// Binary semaphore made of loom primitives: the real lock is only taken
/// while this is held, so loom sees every critical section.
struct LoomSched {
    sem: loom::sync::Arc<(loom::sync::Mutex<bool>, loom::sync::Condvar)>,
}

impl dns_resolver::verif::sync::Scheduler for LoomSched {
    fn before_lock(&self, _id: usize) {
        let (m, cv) = &*self.sem;
        let mut held = m.lock().unwrap();
        while *held {
            held = cv.wait(held).unwrap();
        }
        *held = true;
    }
    fn after_unlock(&self, _id: usize) {
        let (m, cv) = &*self.sem;
        *m.lock().unwrap() = false;
        cv.notify_one();
    }
}

#[derive(Debug, Clone)]
enum TOp {
    Ins(Rec),
    InsAll(Vec<Rec>),
    Get(u8, Q),
    Prune,
}

fn show_top(o: &TOp) -> String {
    match o {
        TOp::Ins(r) => show_op(&Op::Ins(*r)),
        TOp::InsAll(v) => show_op(&Op::InsAll(v.clone())),
        TOp::Get(n, q) => show_op(&Op::Get(*n, *q)),
        TOp::Prune => "prune()".into(),
    }
}

#[derive(Debug, Clone)]
struct Program {
    name: &'static str,
    desired: usize,
    /// executed sequentially before the threads start
    setup: Vec<Op>,
    threads: Vec<Vec<TOp>>,
}

impl Program {
    /// highest preemption bound explored for this program (four threads with
    /// bound 3 do not finish within the thorough tier's time cap)
    fn max_bound(&self) -> usize {
        if self.threads.len() >= 4 {
            2
        } else {
            3
        }
    }
}

fn rec(name: u8, ty: Ty, val: u8, ttl: u32) -> Rec {
    Rec { name, ty, val, ttl }
}

fn programs(tier: Tier) -> Vec<Program> {
    let mut v = vec![
        Program {
            name: "upsert || insert_all || prune",
            desired: 2,
            setup: vec![],
            threads: vec![
                vec![TOp::Ins(rec(1, Ty::A, 1, 3)), TOp::Get(1, Q::Any)],
                vec![
                    TOp::Ins(rec(1, Ty::A, 1, 5)),
                    TOp::InsAll(vec![rec(2, Ty::A, 1, 3), rec(2, Ty::Txt, 1, 3)]),
                ],
                vec![TOp::Prune],
            ],
        },
        Program {
            name: "two writers of one name (different types) || prune with expired pre-state",
            desired: 2,
            setup: vec![
                Op::Ins(rec(1, Ty::A, 1, 1)),
                Op::Ins(rec(3, Ty::A, 1, 1)),
                Op::Ins(rec(1, Ty::Txt, 1, 5)),
                Op::Adv(2000),
            ],
            threads: vec![
                vec![TOp::Ins(rec(1, Ty::A, 1, 3))],
                vec![TOp::Ins(rec(1, Ty::Txt, 1, 2)), TOp::Ins(rec(2, Ty::A, 1, 2))],
                vec![TOp::Prune],
            ],
        },
        Program {
            name: "writer || two readers",
            desired: 4,
            setup: vec![Op::Ins(rec(1, Ty::A, 1, 3))],
            threads: vec![
                vec![TOp::Ins(rec(1, Ty::A, 2, 3)), TOp::Ins(rec(1, Ty::A, 1, 4))],
                vec![TOp::Get(1, Q::A), TOp::Get(1, Q::Any)],
                vec![TOp::Get(1, Q::A)],
            ],
        },
        Program {
            name: "two pruners at size 1 || writer",
            desired: 1,
            setup: vec![
                Op::Ins(rec(1, Ty::A, 1, 5)),
                Op::Ins(rec(2, Ty::A, 1, 5)),
                Op::Ins(rec(3, Ty::A, 1, 5)),
            ],
            threads: vec![
                vec![TOp::Prune],
                vec![TOp::Prune],
                vec![TOp::Ins(rec(2, Ty::Txt, 1, 5))],
            ],
        },
    ];
    v.push(Program {
        name: "four threads: two writers of one name || reader || pruner at size 2",
        desired: 2,
        setup: vec![Op::Ins(rec(3, Ty::A, 1, 1)), Op::Adv(1500)],
        threads: vec![
            vec![TOp::Ins(rec(1, Ty::A, 1, 3))],
            vec![TOp::Ins(rec(1, Ty::A, 1, 5)), TOp::Ins(rec(2, Ty::A, 1, 5))],
            vec![TOp::Get(1, Q::Any)],
            vec![TOp::Prune],
        ],
    });
    // a batch of one record is an atomic unit; the reader's miss on n1 proves
    // that the batch had not landed when n2 was used, so n1 is the more
    // recently used name in every sequential order that explains the results
    v.push(Program {
        name: "batch of one || reader whose miss orders it before the batch",
        desired: 8,
        setup: vec![Op::Ins(rec(2, Ty::A, 1, 5)), Op::Ins(rec(3, Ty::A, 1, 5))],
        threads: vec![
            vec![TOp::Get(2, Q::A), TOp::Get(1, Q::A)],
            vec![TOp::InsAll(vec![rec(1, Ty::A, 1, 5)])],
        ],
    });
    v.push(Program {
        name: "batch of one || writer and reader || pruner at size 2",
        desired: 2,
        setup: vec![Op::Ins(rec(2, Ty::A, 1, 5)), Op::Ins(rec(3, Ty::A, 1, 5))],
        threads: vec![
            vec![TOp::Ins(rec(2, Ty::Txt, 1, 5)), TOp::Get(1, Q::A)],
            vec![TOp::InsAll(vec![rec(1, Ty::A, 1, 5)])],
            vec![TOp::Prune],
        ],
    });
    v.extend(generated_programs(tier));
    if tier == Tier::Thorough {
        v.push(Program {
            name: "three writers re-inserting the same record || (none)",
            desired: 8,
            setup: vec![Op::Ins(rec(1, Ty::A, 1, 2)), Op::Ins(rec(1, Ty::Txt, 1, 2))],
            threads: vec![
                vec![TOp::Ins(rec(1, Ty::A, 1, 3)), TOp::Prune],
                vec![TOp::Ins(rec(1, Ty::A, 1, 4)), TOp::Get(1, Q::Any)],
                vec![TOp::Ins(rec(1, Ty::Txt, 1, 5)), TOp::Prune],
            ],
        });
    }
    v
}

/// Every multiset of `k` single-operation threads over a 10-operation alphabet
/// (k = 2 quick, also 3 thorough), from an empty cache and from a cache that
/// holds expired records and is over its size.
fn generated_programs(tier: Tier) -> Vec<Program> {
    let ops: Vec<(&str, TOp)> = vec![
        ("ins n1 A ttl3", TOp::Ins(rec(1, Ty::A, 1, 3))),
        ("ins n1 A ttl5", TOp::Ins(rec(1, Ty::A, 1, 5))),
        ("ins n1 TXT", TOp::Ins(rec(1, Ty::Txt, 1, 4))),
        ("ins n2 A", TOp::Ins(rec(2, Ty::A, 1, 3))),
        ("get n1 ANY", TOp::Get(1, Q::Any)),
        ("get n1 A", TOp::Get(1, Q::A)),
        ("get n2 A", TOp::Get(2, Q::A)),
        ("prune", TOp::Prune),
        ("insert_all n2", TOp::InsAll(vec![rec(2, Ty::A, 1, 3), rec(2, Ty::Txt, 1, 3)])),
        ("insert_all [n1 A]", TOp::InsAll(vec![rec(1, Ty::A, 2, 4)])),
    ];
    let setups: Vec<(&str, usize, Vec<Op>)> = vec![
        ("empty cache, size 2", 2, vec![]),
        (
            "expired records and over size 1",
            1,
            vec![
                Op::Ins(rec(1, Ty::A, 1, 1)),
                Op::Ins(rec(3, Ty::A, 1, 1)),
                Op::Ins(rec(2, Ty::Txt, 1, 5)),
                Op::Ins(rec(3, Ty::Txt, 1, 5)),
                Op::Adv(2000),
            ],
        ),
    ];
    let mut out = Vec::new();
    let n = ops.len();
    let mut multisets: Vec<Vec<usize>> = Vec::new();
    for i in 0..n {
        for j in i..n {
            multisets.push(vec![i, j]);
            if tier == Tier::Thorough {
                for k in j..n {
                    multisets.push(vec![i, j, k]);
                }
            }
        }
    }
    for (sname, desired, setup) in &setups {
        for m in &multisets {
            let label = m.iter().map(|&i| ops[i].0).collect::<Vec<_>>().join(" || ");
            let name: &'static str = Box::leak(format!("generated [{sname}]: {label}").into_boxed_str());
            out.push(Program {
                name,
                desired: *desired,
                setup: setup.clone(),
                threads: m.iter().map(|&i| vec![ops[i].1.clone()]).collect(),
            });
        }
    }
    out
}

fn rr_of(x: &Rec) -> ResourceRecord {
    let data = match x.ty {
        Ty::A => a([192, 0, 2, x.val]),
        Ty::Txt => txt(format!("v{}", x.val).as_bytes()),
    };
    rr(&name_of_idx(x.name), data, x.ttl)
}

fn qtype_of(q: Q) -> QueryType {
    match q {
        Q::A => QueryType::Record(RecordType::A),
        Q::Txt => QueryType::Record(RecordType::TXT),
        Q::Mx => QueryType::Record(RecordType::MX),
        Q::Any => QueryType::Wildcard,
    }
}

/// Progress counter for the loom part (an operation that never returns — e.g.
/// a prune loop that cannot terminate — would otherwise hang the check: loom
/// cannot pre-empt a model thread that does not reach a scheduling point).
static LOOM_PROGRESS: AtomicU64 = AtomicU64::new(0);

/// Run one thread operation; returns a canonical description of its result.
fn run_top(cache: &SharedCache, op: &TOp) -> String {
    LOOM_PROGRESS.fetch_add(1, Ordering::Relaxed);
    let r = run_top_inner(cache, op);
    LOOM_PROGRESS.fetch_add(1, Ordering::Relaxed);
    r
}

fn run_top_inner(cache: &SharedCache, op: &TOp) -> String {
    match op {
        TOp::Ins(r) => {
            cache.insert(&rr_of(r));
            "()".into()
        }
        TOp::InsAll(v) => {
            let rrs: Vec<ResourceRecord> = v.iter().map(rr_of).collect();
            cache.insert_all(&rrs);
            "()".into()
        }
        TOp::Get(n, q) => {
            let got = cache.get(&name_of_idx(*n), qtype_of(*q));
            format!("{:?}", canon_rrs_nottl(&got))
        }
        TOp::Prune => format!("{:?}", cache.prune()),
    }
}

fn all_inserted(p: &Program) -> BTreeSet<String> {
    let mut s = BTreeSet::new();
    let mut add = |r: &Rec| {
        if r.ttl > 0 {
            let x = rr_of(r);
            s.insert(format!(
                "{} {}",
                show_name(&x.name),
                show_data(&x.rtype_with_data)
            ));
        }
    };
    for o in &p.setup {
        match o {
            Op::Ins(r) => add(r),
            Op::InsAll(v) => v.iter().for_each(&mut add),
            _ => {}
        }
    }
    for t in &p.threads {
        for o in t {
            match o {
                TOp::Ins(r) => add(r),
                TOp::InsAll(v) => v.iter().for_each(&mut add),
                _ => {}
            }
        }
    }
    s
}

struct LoomResult {
    schedules: u64,
    outcomes: BTreeMap<String, u64>,
    violations: Vec<(String, String)>,
    non_linearizable: u64,
}

/// All outcomes of sequential executions consistent with program order, on
/// the real cache (loom outcomes must be among them when every operation of
/// the program is an atomic unit; reported only otherwise — DESIGN 12.4).
fn sequential_outcomes(p: &Program) -> BTreeSet<String> {
    fn go(
        p: &Program,
        pos: &mut Vec<usize>,
        order: &mut Vec<(usize, usize)>,
        out: &mut BTreeSet<String>,
    ) {
        let mut any = false;
        for t in 0..p.threads.len() {
            if pos[t] < p.threads[t].len() {
                any = true;
                order.push((t, pos[t]));
                pos[t] += 1;
                go(p, pos, order, out);
                pos[t] -= 1;
                order.pop();
            }
        }
        if !any {
            out.insert(run_in_order(p, order));
        }
    }
    let mut out = BTreeSet::new();
    go(p, &mut vec![0; p.threads.len()], &mut Vec::new(), &mut out);
    out
}

fn install_clock(start_ns: u64) -> Rc<std::cell::Cell<u64>> {
    let clock = Rc::new(std::cell::Cell::new(start_ns));
    let c2 = clock.clone();
    // every reading advances the clock by 1 ns, as a real clock never returns
    // the same instant twice: the order of two uses is then always defined
    dns_resolver::verif::clock::set_provider(Some(Rc::new(move || {
        let t = c2.get();
        c2.set(t + 1);
        Duration::from_nanos(t)
    })));
    clock
}

fn setup_cache(p: &Program, clock: &Rc<std::cell::Cell<u64>>) -> SharedCache {
    let cache = SharedCache::with_desired_size(p.desired);
    for o in &p.setup {
        match o {
            Op::Ins(r) => cache.insert(&rr_of(r)),
            Op::InsAll(v) => {
                let rrs: Vec<ResourceRecord> = v.iter().map(rr_of).collect();
                cache.insert_all(&rrs);
            }
            Op::Adv(ms) => clock.set(clock.get() + ms * 1_000_000),
            Op::Prune => {
                let _ = cache.prune();
            }
            _ => {}
        }
    }
    cache
}

fn final_state(cache: &SharedCache) -> String {
    let snap = cache.verif_snapshot();
    let mut entries = Vec::new();
    for part in &snap.partitions {
        for (_, tuples) in &part.records {
            for (v, e) in tuples {
                // whole seconds: the 1 ns ticks of the clock differ between
                // interleavings and carry no meaning
                entries.push(format!(
                    "{} {} @{}s",
                    show_name(&part.name),
                    show_data(v),
                    e.as_secs()
                ));
            }
        }
    }
    entries.sort();
    // least recently used first: the order in which a prune would evict
    let lru: Vec<String> = snap.access_order.iter().map(|(n, _)| show_name(n)).collect();
    format!("size={} {:?} lru={:?}", snap.current_size, entries, lru)
}

fn run_in_order(p: &Program, order: &[(usize, usize)]) -> String {
    let clock = install_clock(1000 * NS_PER_S);
    let cache = setup_cache(p, &clock);
    let mut results: Vec<Vec<String>> = p.threads.iter().map(|_| Vec::new()).collect();
    for (t, i) in order {
        results[*t].push(run_top(&cache, &p.threads[*t][*i]));
    }
    let s = format!("{:?} => {}", results, final_state(&cache));
    dns_resolver::verif::clock::set_provider(None);
    s
}

fn explore_program(p: &Program, preemption_bound: usize, max_secs: u64) -> LoomResult {
    let allowed = sequential_outcomes(p);
    let inserted = all_inserted(p);
    let schedules = Arc::new(AtomicU64::new(0));
    let outcomes: Arc<Mutex<BTreeMap<String, u64>>> = Arc::new(Mutex::new(BTreeMap::new()));
    let violations: Arc<Mutex<Vec<(String, String)>>> = Arc::new(Mutex::new(Vec::new()));

    let mut b = loom::model::Builder::new();
    b.preemption_bound = Some(preemption_bound);
    b.max_branches = 100_000;
    b.max_duration = Some(Duration::from_secs(max_secs));

    let p2 = p.clone();
    let (sc, oc, vc) = (schedules.clone(), outcomes.clone(), violations.clone());
    b.check(move || {
        sc.fetch_add(1, Ordering::Relaxed);
        let clock = install_clock(1000 * NS_PER_S);
        let cache = setup_cache(&p2, &clock);
        let sem = loom::sync::Arc::new((loom::sync::Mutex::new(false), loom::sync::Condvar::new()));
        dns_resolver::verif::sync::set_scheduler(Some(Rc::new(LoomSched { sem })));

        let results: Arc<Mutex<Vec<Vec<String>>>> =
            Arc::new(Mutex::new(p2.threads.iter().map(|_| Vec::new()).collect()));
        let mut handles = Vec::new();
        for (t, ops) in p2.threads.iter().enumerate() {
            let cache = cache.clone();
            let ops = ops.clone();
            let results = results.clone();
            let desired = p2.desired;
            let vc = vc.clone();
            handles.push(loom::thread::spawn(move || {
                for op in &ops {
                    let r = run_top(&cache, op);
                    if let TOp::Prune = op {
                        // (overflow, size, expired, evicted): size bound
                        let size: usize = r
                            .trim_matches(|c| c == '(' || c == ')')
                            .split(',')
                            .nth(1)
                            .and_then(|s| s.trim().parse().ok())
                            .unwrap_or(usize::MAX);
                        if size > desired {
                            vc.lock().unwrap().push((
                                "prune-over-size".into(),
                                format!("concurrent prune reported {size} remaining records, size is {desired}"),
                            ));
                        }
                    }
                    results.lock().unwrap()[t].push(r);
                }
            }));
        }
        for h in handles {
            h.join().unwrap();
        }
        dns_resolver::verif::sync::set_scheduler(None);

        // oracle on the final state
        if let Err(e) = cache.verif_check_invariants() {
            vc.lock().unwrap().push(("invariants".into(), e));
        }
        let snap = cache.verif_snapshot();
        let mut distinct = BTreeSet::new();
        let mut stored = 0usize;
        for part in &snap.partitions {
            for (_, tuples) in &part.records {
                for (v, _) in tuples {
                    stored += 1;
                    distinct.insert(format!("{} {}", show_name(&part.name), show_data(v)));
                }
            }
        }
        if snap.current_size != distinct.len() || stored != distinct.len() {
            vc.lock().unwrap().push((
                "count-mismatch".into(),
                format!(
                    "record count {} but {} distinct entries ({} stored tuples)",
                    snap.current_size,
                    distinct.len(),
                    stored
                ),
            ));
        }
        for d in &distinct {
            if !inserted.contains(d) {
                vc.lock()
                    .unwrap()
                    .push(("foreign-entry".into(), format!("cache holds {d} which nobody inserted")));
            }
        }
        let res = results.lock().unwrap().clone();
        let outcome = format!("{:?} => {}", res, final_state(&cache));
        // a final sequential prune must be exact
        clock.set(clock.get() + 10 * NS_PER_S);
        let before = snap.current_size;
        let (_, size, expired, evicted) = cache.prune();
        let after = cache.verif_snapshot();
        if after.current_size != 0 || size != 0 || expired + evicted != before {
            vc.lock().unwrap().push((
                "final-prune".into(),
                format!(
                    "after all TTLs elapsed a prune reported size={size} expired={expired} evicted={evicted} with {before} records held, {} remain",
                    after.current_size
                ),
            ));
        }
        dns_resolver::verif::clock::set_provider(None);
        *oc.lock().unwrap().entry(outcome).or_insert(0) += 1;
    });

    let outcomes = Arc::try_unwrap(outcomes)
        .map(|m| m.into_inner().unwrap())
        .unwrap_or_else(|a| a.lock().unwrap().clone());
    let non_linearizable = outcomes
        .iter()
        .filter(|(k, _)| !allowed.contains(*k))
        .map(|(_, v)| *v)
        .sum();
    let mut violations = violations.lock().unwrap().clone();
    // Programs made only of single-record inserts, lookups and prunes: every
    // operation is an atomic unit of the statement (a prune is exact and evicts
    // only while over size), so the outcome must be that of some sequential
    // order.  Programs with insert_all are not judged this way (locking per
    // record would be a legitimate implementation).
    let only_atomic_units = p
        .threads
        .iter()
        .all(|t| t.iter().all(|o| !matches!(o, TOp::InsAll(v) if v.len() > 1)));
    if only_atomic_units {
        if let Some((k, n)) = outcomes.iter().find(|(k, _)| !allowed.contains(*k)) {
            violations.push((
                "outcome-not-sequential".into(),
                format!(
                    "{n} schedule(s) end in per-operation results and a final state that no sequential order of the operations produces: {}",
                    &k[..k.len().min(600)]
                ),
            ));
        }
    }
    LoomResult {
        schedules: schedules.load(Ordering::Relaxed),
        outcomes,
        violations,
        non_linearizable,
    }
}

fn run_loom(ctx: &Ctx, report: &mut Report) {
    let tier_bound = ctx.tier.pick(2, 3);
    let mut rows = Vec::new();
    // iterative context bounding: every program with 0, 1, 2 (3) preemptions;
    // a program whose exploration hits the time cap at one bound is not run
    // at a higher one
    let mut capped_programs: BTreeSet<&'static str> = BTreeSet::new();
    let runs: Vec<(Program, usize)> = programs(ctx.tier)
        .into_iter()
        .flat_map(|p| {
            let top = tier_bound.min(p.max_bound());
            // the generated programs are run at the top bound only (their
            // threads hold one critical section each)
            let from = if p.name.starts_with("generated") { top } else { 0 };
            (from..=top).map(move |b| (p.clone(), b))
        })
        .collect();
    for (p, bound) in runs {
        if capped_programs.contains(p.name) {
            continue;
        }
        let t0 = std::time::Instant::now();
        let secs = ctx.tier.pick(90, 400);
        // loom panics on its own internal failures (deadlock, too many
        // branches): that is a violation of "always terminates" / machinery.
        let p2 = p.clone();
        // watchdog: no operation started or finished for 30 s = an operation
        // does not return ("always terminates")
        let stop = Arc::new(std::sync::atomic::AtomicBool::new(false));
        {
            let stop = stop.clone();
            let (id, tier, seed, started) = (ctx.id, ctx.tier, ctx.seed, ctx.start);
            let pname = p.name;
            std::thread::spawn(move || {
                let mut last = LOOM_PROGRESS.load(Ordering::Relaxed);
                let mut since = std::time::Instant::now();
                loop {
                    std::thread::sleep(Duration::from_millis(500));
                    if stop.load(Ordering::Relaxed) {
                        return;
                    }
                    let now = LOOM_PROGRESS.load(Ordering::Relaxed);
                    if now != last {
                        last = now;
                        since = std::time::Instant::now();
                    } else if since.elapsed().as_secs() >= 30 {
                        finish_emergency(
                            id,
                            tier,
                            seed,
                            started,
                            Violation {
                                clause: "concurrent-nontermination".into(),
                                summary: format!(
                                    "program `{pname}` (preemption bound {bound}): a cache operation did not return within 30 s under some interleaving"
                                ),
                                replay: json!({"kind": "loom-program", "program": pname, "preemption_bound": bound}),
                                slug: None,
                            },
                        );
                    }
                }
            });
        }
        let res = std::panic::catch_unwind(move || explore_program(&p2, bound, secs));
        stop.store(true, Ordering::Relaxed);
        match res {
            Ok(r) => {
                report.evaluations += r.schedules;
                report.transitions += r.schedules;
                report.traces_validated += r.schedules;
                report.distinct_nontrivial += r.outcomes.len() as u64;
                report.hist("loom schedules", r.schedules);
                report.hist("loom distinct outcomes", r.outcomes.len() as u64);
                let capped = t0.elapsed().as_secs() >= secs;
                if capped {
                    report.exhaustive = false;
                    capped_programs.insert(p.name);
                }
                rows.push(json!({
                    "program": p.name,
                    "threads": p.threads.iter().map(|t| t.iter().map(show_top).collect::<Vec<_>>()).collect::<Vec<_>>(),
                    "setup": p.setup.iter().map(show_op).collect::<Vec<_>>(),
                    "desired_size": p.desired,
                    "preemption_bound": bound,
                    "schedules": r.schedules,
                    "distinct_outcomes": r.outcomes.len(),
                    "schedules_with_outcome_not_matching_any_sequential_order": r.non_linearizable,
                    "non_sequential_outcome_is_a_violation": p.threads.iter().all(|t| t.iter().all(|o| !matches!(o, TOp::InsAll(v) if v.len() > 1))),
                    "duration_cap_hit": capped,
                }));
                let mut seen = BTreeSet::new();
                for (clause, msg) in r.violations {
                    if seen.insert(clause.clone()) {
                        report.violations.push(Violation {
                            clause: format!("concurrent-{clause}"),
                            summary: format!("program `{}` (preemption bound {bound}): {msg}", p.name),
                            replay: json!({"kind": "loom-program", "program": p.name, "preemption_bound": bound}),
                            slug: None,
                        });
                    }
                }
            }
            Err(e) => {
                dns_resolver::verif::sync::set_scheduler(None);
                dns_resolver::verif::clock::set_provider(None);
                let msg = e
                    .downcast_ref::<String>()
                    .cloned()
                    .or_else(|| e.downcast_ref::<&str>().map(|s| s.to_string()))
                    .unwrap_or_else(|| "loom panicked".into());
                report.violations.push(Violation {
                    clause: "concurrent-panic-or-deadlock".into(),
                    summary: format!("program `{}`: {msg}", p.name),
                    replay: json!({"kind": "loom-program", "program": p.name, "preemption_bound": bound}),
                    slug: None,
                });
            }
        }
    }
    report.extra.insert("loom".into(), json!(rows));
}

pub fn run(ctx: &Ctx) -> i32 {
    let alphabet = alphabet(ctx.tier);
    let plans: Vec<Plan> = match ctx.tier {
        Tier::Quick => vec![
            Plan { desired: 1, tick: false, depth: 5 },
            Plan { desired: 2, tick: false, depth: 5 },
            Plan { desired: 3, tick: false, depth: 4 },
            Plan { desired: 2, tick: true, depth: 4 },
        ],
        Tier::Thorough => vec![
            // (depth 7 does not finish within the budget: 27 M+ transitions per size)
            Plan { desired: 1, tick: false, depth: 6 },
            Plan { desired: 2, tick: false, depth: 6 },
            Plan { desired: 3, tick: false, depth: 6 },
            Plan { desired: 2, tick: true, depth: 5 },
            Plan { desired: 1, tick: true, depth: 5 },
        ],
    };
    let mut report = Report::new();

    // watchdog for "always terminates": an execution in flight for too long
    // is reported with its history (the process is ended from here).
    run_plans(
        ctx,
        Focus::C15,
        &alphabet,
        &plans,
        &mut report,
        ctx.tier.pick(240.0, 3000.0),
    );
    if report.violations.is_empty() {
        run_loom(ctx, &mut report);
    }
    report.rule = "sequential: stateright search over all operation histories up to the stated depth on a fresh real SharedCache per transition, de-duplicated on (canonical snapshot incl. both priority queues in pop order, reference bookkeeping, depth, verdict); concurrent: loom explores every interleaving (within the preemption bound) of the critical sections of the listed thread programs; non-trivial = histories in which a prune evicted or removed an expired record (max of the two, measured) + distinct loom outcomes".into();
    report.bounds = json!({
        "plans": plans.iter().map(|p| json!({"desired_size": p.desired, "tick": p.tick, "depth": p.depth})).collect::<Vec<_>>(),
        "alphabet_size": alphabet.len(),
        "loom_preemption_bound": ctx.tier.pick(2, 3),
    });
    report.assumptions = vec![
        "an insert and a lookup that returns a live record count as uses; a lookup returning nothing is an uncertain use; LRU is violated only when an evicted name was certainly used later than a surviving one".into(),
        "the overflow flag returned by prune is not judged (not part of the statement)".into(),
        "threads: 2-4 model threads; every cache operation is one critical section, so more threads add no new shape of interleaving (stated, not checked)".into(),
        "concurrency oracle = structural invariants + count equality + exact final prune on every schedule; for programs whose operations are atomic units (no multi-record insert_all) the outcome (per-operation results, final contents with expiry in whole seconds, least-recently-used order) must equal that of some sequential order of the operations on the same ticking clock; for the other programs that comparison is reported only".into(),
    ];
    finish(ctx, report)
}

pub fn replay(ctx: &Ctx, v: &Value) -> i32 {
    if v["kind"] == "loom-program" {
        let name = v["program"].as_str().unwrap_or("");
        let bound = v["preemption_bound"].as_u64().unwrap_or(2) as usize;
        for p in programs(Tier::Thorough) {
            if p.name == name {
                let r = explore_program(&p, bound, 300);
                println!(
                    "program `{}`: {} schedules, {} distinct outcomes",
                    p.name,
                    r.schedules,
                    r.outcomes.len()
                );
                for (c, m) in &r.violations {
                    println!("  finding [{c}]: {m}");
                }
                return if r.violations.is_empty() {
                    println!("replay: property holds on this case");
                    0
                } else {
                    println!("VIOLATION property={} replay=(replayed case)", ctx.id);
                    1
                };
            }
        }
        eprintln!("unknown loom program {name}");
        return 2;
    }
    replay_history(ctx, v, Focus::C15)
}

pub fn worker(_args: &[String]) -> i32 {
    2
}
