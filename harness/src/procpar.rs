//! Process-parallel slice runner: the item space of a check is split over
//! child processes (`vcheck worker <ID> ...`), each single-threaded with the
//! default 2 MiB stack of a tokio worker thread for the code under test.  A
//! child that dies (stack overflow, abort) or hangs is re-run in trace mode to
//! find the execution responsible, which is reported as a violation with a
//! replay file — an engine crash never passes silently and never counts as a
//! verdict by itself.

use crate::common::*;
use serde_json::{json, Map, Value};
use std::collections::{BTreeMap, BTreeSet};
use std::io::{BufRead, BufReader, Write};
use std::process::{Command, Stdio};
use std::time::{Duration, Instant};

static IN_CHILD: std::sync::atomic::AtomicBool = std::sync::atomic::AtomicBool::new(false);
static LAST_BEAT_MS: std::sync::atomic::AtomicU64 = std::sync::atomic::AtomicU64::new(0);

/// Heartbeat of a worker process: called by the engines between executions;
/// prints `HB` at most twice a second.  A child that stays silent for longer
/// than the stall limit is treated as hung (busy loop or blocked forever).
pub fn beat() {
    use std::sync::atomic::Ordering;
    if !IN_CHILD.load(Ordering::Relaxed) {
        return;
    }
    let now = std::time::SystemTime::now()
        .duration_since(std::time::UNIX_EPOCH)
        .map(|d| d.as_millis() as u64)
        .unwrap_or(0);
    let last = LAST_BEAT_MS.load(Ordering::Relaxed);
    if now.saturating_sub(last) >= 500 {
        LAST_BEAT_MS.store(now, Ordering::Relaxed);
        let out = std::io::stdout();
        let mut l = out.lock();
        let _ = writeln!(l, "HB");
        let _ = l.flush();
    }
}

/// The machinery itself found that it cannot be trusted (nondeterminism it
/// does not own, a prefix that does not replay): exit code 2, never a verdict.
pub fn machinery_error(msg: &str) -> ! {
    use std::sync::atomic::Ordering;
    if IN_CHILD.load(Ordering::Relaxed) {
        let out = std::io::stdout();
        let mut l = out.lock();
        let _ = writeln!(l, "MACHINERY {}", msg.replace('\n', " "));
        let _ = l.flush();
        std::process::exit(3);
    }
    eprintln!("machinery error: {msg}");
    std::process::exit(2);
}

#[derive(Default)]
pub struct JsonAcc {
    pub counters: BTreeMap<String, u64>,
    pub hist: BTreeMap<String, u64>,
    pub violations: Vec<Violation>,
    pub violation_counts: BTreeMap<String, u64>,
    pub samples: Vec<Value>,
    pub states: BTreeSet<u64>,
    pub capped: bool,
    /// trace mode: announce every execution before it runs
    pub trace: bool,
    pub per_clause_cap: u64,
}

impl JsonAcc {
    pub fn count(&mut self, k: &str, n: u64) {
        *self.counters.entry(k.to_string()).or_insert(0) += n;
    }
    pub fn hist(&mut self, k: &str, n: u64) {
        *self.hist.entry(k.to_string()).or_insert(0) += n;
    }
    pub fn violate(&mut self, clause: &str, summary: String, replay: Value, slug: Option<&'static str>) {
        let key = format!("{}|{}", clause, slug.unwrap_or(""));
        let n = self.violation_counts.entry(key).or_insert(0);
        *n += 1;
        if *n <= self.per_clause_cap.max(3) {
            self.violations.push(Violation {
                clause: clause.to_string(),
                summary,
                replay,
                slug,
            });
        }
    }
    pub fn sample(&mut self, v: Value) {
        if self.samples.len() < 2 {
            self.samples.push(v);
        }
    }
    /// trace mode: print what is about to run (flushed, so that it survives a crash)
    pub fn announce(&self, what: &Value) {
        if self.trace {
            let out = std::io::stdout();
            let mut l = out.lock();
            let _ = writeln!(l, "EXEC {what}");
            let _ = l.flush();
        }
    }

    fn to_json(&self) -> Value {
        json!({
            "counters": self.counters,
            "hist": self.hist,
            "violation_counts": self.violation_counts,
            "violations": self.violations.iter().map(|v| json!({
                "clause": v.clause, "summary": v.summary, "replay": v.replay, "slug": v.slug,
            })).collect::<Vec<_>>(),
            "samples": self.samples,
            "states": self.states.iter().collect::<Vec<_>>(),
            "capped": self.capped,
        })
    }

    fn merge_json(&mut self, v: &Value, slugs: &[&'static str]) {
        if let Some(m) = v["counters"].as_object() {
            for (k, n) in m {
                *self.counters.entry(k.clone()).or_insert(0) += n.as_u64().unwrap_or(0);
            }
        }
        if let Some(m) = v["hist"].as_object() {
            for (k, n) in m {
                *self.hist.entry(k.clone()).or_insert(0) += n.as_u64().unwrap_or(0);
            }
        }
        if let Some(m) = v["violation_counts"].as_object() {
            for (k, n) in m {
                *self.violation_counts.entry(k.clone()).or_insert(0) += n.as_u64().unwrap_or(0);
            }
        }
        if let Some(a) = v["violations"].as_array() {
            for x in a {
                let slug = x["slug"]
                    .as_str()
                    .and_then(|s| slugs.iter().find(|k| **k == s).copied());
                self.violations.push(Violation {
                    clause: x["clause"].as_str().unwrap_or("?").to_string(),
                    summary: x["summary"].as_str().unwrap_or("").to_string(),
                    replay: x["replay"].clone(),
                    slug,
                });
            }
        }
        if let Some(a) = v["samples"].as_array() {
            for s in a {
                if self.samples.len() < 6 {
                    self.samples.push(s.clone());
                }
            }
        }
        if let Some(a) = v["states"].as_array() {
            for s in a {
                if let Some(n) = s.as_u64() {
                    self.states.insert(n);
                }
            }
        }
        if v["capped"].as_bool().unwrap_or(false) {
            self.capped = true;
        }
    }
}

pub struct ChildArgs {
    pub tier: Tier,
    pub seed: u64,
    pub lo: usize,
    pub step: usize,
    pub n: usize,
    pub trace: bool,
    pub budget_s: f64,
}

pub fn parse_child_args(args: &[String]) -> Option<ChildArgs> {
    if args.len() < 7 {
        return None;
    }
    Some(ChildArgs {
        tier: if args[0] == "thorough" { Tier::Thorough } else { Tier::Quick },
        seed: args[1].parse().ok()?,
        lo: args[2].parse().ok()?,
        step: args[3].parse().ok()?,
        n: args[4].parse().ok()?,
        trace: args[5] == "1",
        budget_s: args[6].parse().ok()?,
    })
}

/// Child side: run items lo, lo+step, ... < n; print the accumulator as one
/// JSON line prefixed with `ACC `.
pub fn child_main<F: FnMut(Tier, usize, &mut JsonAcc) + Send + 'static>(
    args: &[String],
    run_item: F,
) -> i32 {
    let a = match parse_child_args(args) {
        Some(a) => a,
        None => {
            eprintln!("bad worker arguments {args:?}");
            return 2;
        }
    };
    IN_CHILD.store(true, std::sync::atomic::Ordering::Relaxed);
    // keep freed memory in the process: without this glibc trims the arena of
    // the worker thread with madvise() after almost every execution
    unsafe {
        libc::mallopt(libc::M_TRIM_THRESHOLD, 1 << 30);
        libc::mallopt(libc::M_MMAP_THRESHOLD, 16 << 20);
    }
    // the code under test runs on a thread with the stack size of a tokio
    // worker thread (2 MiB), as in the server
    let h = std::thread::Builder::new()
        .stack_size(2 << 20)
        .spawn(move || child_loop(a, run_item))
        .expect("spawn worker thread");
    match h.join() {
        Ok(c) => c,
        Err(_) => 101,
    }
}

fn child_loop<F: FnMut(Tier, usize, &mut JsonAcc)>(a: ChildArgs, mut run_item: F) -> i32 {
    let start = Instant::now();
    let mut acc = JsonAcc {
        trace: a.trace,
        per_clause_cap: 4,
        ..Default::default()
    };
    let mut i = a.lo;
    while i < a.n {
        if start.elapsed().as_secs_f64() > a.budget_s {
            acc.capped = true;
            break;
        }
        if a.trace {
            println!("ITEM {i}");
            let _ = std::io::stdout().flush();
        }
        run_item(a.tier, i, &mut acc);
        acc.count("items", 1);
        i += a.step;
    }
    acc.count(
        "log_octets_rendered_in_traced_executions",
        crate::net::LOG_OCTETS_RENDERED.load(std::sync::atomic::Ordering::Relaxed),
    );
    println!("ACC {}", acc.to_json());
    let _ = std::io::stdout().flush();
    0
}

pub struct Crash {
    pub lo: usize,
    pub how: String,
    pub last_item: Option<usize>,
    pub last_exec: Option<Value>,
}

fn spawn_child(id: &str, a: &ChildArgs) -> std::io::Result<std::process::Child> {
    let exe = std::env::current_exe()?;
    Command::new(exe)
        .arg("worker")
        .arg(id)
        .arg(a.tier.name())
        .arg(a.seed.to_string())
        .arg(a.lo.to_string())
        .arg(a.step.to_string())
        .arg(a.n.to_string())
        .arg(if a.trace { "1" } else { "0" })
        .arg(format!("{}", a.budget_s))
        .stdin(Stdio::null())
        .stdout(Stdio::piped())
        .stderr(Stdio::null())
        .spawn()
}

/// Read a child's stdout to the end; returns (ACC json, last ITEM, last EXEC, exit description or None if clean)
fn drive_child(
    mut child: std::process::Child,
    hard_timeout: Duration,
    stall_timeout: Option<Duration>,
) -> (Option<Value>, Option<usize>, Option<Value>, Option<String>) {
    let stdout = child.stdout.take().expect("piped");
    let (tx, rx) = std::sync::mpsc::channel::<String>();
    let reader = std::thread::spawn(move || {
        for line in BufReader::new(stdout).lines().map_while(Result::ok) {
            if tx.send(line).is_err() {
                break;
            }
        }
    });
    let started = Instant::now();
    let mut last_progress = Instant::now();
    let mut acc = None;
    let mut last_item = None;
    let mut last_exec = None;
    let mut killed: Option<String> = None;
    loop {
        match rx.recv_timeout(Duration::from_millis(200)) {
            Ok(line) => {
                last_progress = Instant::now();
                if let Some(rest) = line.strip_prefix("ACC ") {
                    acc = serde_json::from_str(rest).ok();
                } else if let Some(rest) = line.strip_prefix("ITEM ") {
                    last_item = rest.trim().parse().ok();
                    last_exec = None;
                } else if let Some(rest) = line.strip_prefix("EXEC ") {
                    last_exec = serde_json::from_str(rest).ok();
                } else if let Some(rest) = line.strip_prefix("MACHINERY ") {
                    // the engine itself is unsound here (e.g. an execution
                    // that does not replay identically): never a verdict
                    eprintln!("machinery error reported by a worker: {rest}");
                    let _ = child.kill();
                    std::process::exit(2);
                }
            }
            Err(std::sync::mpsc::RecvTimeoutError::Timeout) => {
                if started.elapsed() > hard_timeout {
                    let _ = child.kill();
                    killed = Some(format!(
                        "no result within {} s (killed)",
                        hard_timeout.as_secs()
                    ));
                    break;
                }
                if let Some(st) = stall_timeout {
                    if last_progress.elapsed() > st {
                        let _ = child.kill();
                        killed = Some(format!(
                            "an execution did not return within {} s (killed)",
                            st.as_secs()
                        ));
                        break;
                    }
                }
            }
            Err(std::sync::mpsc::RecvTimeoutError::Disconnected) => break,
        }
    }
    let status = child.wait();
    let _ = reader.join();
    let how = match (killed, status) {
        (Some(k), _) => Some(k),
        (None, Ok(s)) if s.success() && acc.is_some() => None,
        (None, Ok(s)) => {
            use std::os::unix::process::ExitStatusExt;
            Some(match s.signal() {
                Some(sig) => format!("child process killed by signal {sig}"),
                None => format!("child process exited with {:?} without a result", s.code()),
            })
        }
        (None, Err(e)) => Some(format!("wait failed: {e}")),
    };
    (acc, last_item, last_exec, how)
}

/// Parent side.  `slugs` lists the static slugs children may attach to
/// violations (they are transported as strings).
pub fn parent(ctx: &Ctx, n_items: usize, budget_s: f64, slugs: &[&'static str]) -> (JsonAcc, Vec<Crash>) {
    let procs = ctx.threads.max(1).min(n_items.max(1));
    let mut children = Vec::new();
    for lo in 0..procs {
        let a = ChildArgs {
            tier: ctx.tier,
            seed: ctx.seed,
            lo,
            step: procs,
            n: n_items,
            trace: false,
            budget_s,
        };
        match spawn_child(ctx.id, &a) {
            Ok(c) => children.push((lo, c)),
            Err(e) => {
                eprintln!("machinery error: cannot spawn worker: {e}");
                std::process::exit(2);
            }
        }
    }
    let hard = Duration::from_secs_f64(budget_s * 2.0 + 60.0);
    let mut total = JsonAcc::default();
    let mut crashes = Vec::new();
    let handles: Vec<_> = children
        .into_iter()
        .map(|(lo, c)| {
            // workers print a heartbeat between executions: 40 s of silence
            // means an execution does not return
            std::thread::spawn(move || (lo, drive_child(c, hard, Some(Duration::from_secs(40)))))
        })
        .collect();
    let mut failed = Vec::new();
    for h in handles {
        let (lo, (acc, _, _, how)) = h.join().expect("driver thread");
        match (acc, how) {
            (Some(v), None) => total.merge_json(&v, slugs),
            (_, how) => failed.push((lo, how.unwrap_or_else(|| "no result".into()))),
        }
    }
    // re-run failed slices in trace mode to find the execution responsible
    // (in parallel; at most 4 slices are traced, the others are reported
    // with what is known — one located execution is enough for a verdict)
    let mut traced = Vec::new();
    for (k, (lo, how)) in failed.into_iter().enumerate() {
        if k >= 4 {
            crashes.push(Crash {
                lo,
                how: format!("{how} (not re-traced: 4 other slices were)"),
                last_item: None,
                last_exec: None,
            });
            continue;
        }
        let a = ChildArgs {
            tier: ctx.tier,
            seed: ctx.seed,
            lo,
            step: procs,
            n: n_items,
            trace: true,
            budget_s: budget_s * 4.0,
        };
        let id = ctx.id;
        traced.push(std::thread::spawn(move || {
            let r = match spawn_child(id, &a) {
                Ok(c) => drive_child(c, Duration::from_secs_f64(budget_s * 8.0 + 120.0), Some(Duration::from_secs(20))),
                Err(e) => (None, None, None, Some(format!("cannot spawn: {e}"))),
            };
            (lo, how, r)
        }));
    }
    for h in traced {
        let (lo, how, (acc, last_item, last_exec, how2)) = h.join().expect("trace driver thread");
        match (acc, how2) {
            (Some(v), None) => {
                // did not reproduce: machinery problem, not a verdict
                total.merge_json(&v, slugs);
                eprintln!("machinery warning: slice {lo} failed once ({how}) but completed on re-run");
                total.capped = true;
            }
            (_, how2) => crashes.push(Crash {
                lo,
                how: how2.unwrap_or(how),
                last_item,
                last_exec,
            }),
        }
    }
    (total, crashes)
}

/// Fold the accumulated JSON state into a report.
pub fn into_report(acc: JsonAcc, crashes: Vec<Crash>, report: &mut Report) {
    report.merge_hist(&acc.hist);
    report.samples.extend(acc.samples);
    report.states = acc.states.len() as u64;
    if acc.capped {
        report.exhaustive = false;
    }
    report.violations.extend(acc.violations);
    report
        .extra
        .insert("violation_counts".into(), json!(acc.violation_counts));
    report.extra.insert("counters".into(), json!(acc.counters));
    let mut crashes = crashes;
    crashes.sort_by_key(|c| c.last_exec.is_none());
    for c in crashes {
        report.violations.push(Violation {
            clause: "process-died-or-hung".into(),
            summary: format!(
                "{} while running item {:?}, execution {}",
                c.how,
                c.last_item,
                c.last_exec
                    .as_ref()
                    .map(|v| v.to_string())
                    .unwrap_or_else(|| "?".into())
            ),
            replay: c.last_exec.clone().unwrap_or_else(|| json!({"kind": "crash", "item": c.last_item, "slice": c.lo})),
            slug: None,
        });
    }
}

/// Run a replay in a child process so that a crash of the code under test is
/// reported as a violation.  The child is `vcheck worker <ID> replay <file>`.
pub fn replay_in_child(ctx: &Ctx, v: &Value) -> i32 {
    let dir = work_dir(&format!("replay-{}", ctx.id));
    let path = dir.join("case.json");
    if std::fs::write(&path, v.to_string()).is_err() {
        return 2;
    }
    let exe = match std::env::current_exe() {
        Ok(e) => e,
        Err(_) => return 2,
    };
    let status = Command::new(exe)
        .arg("worker")
        .arg(ctx.id)
        .arg("replay")
        .arg(&path)
        .status();
    let _ = std::fs::remove_dir_all(&dir);
    match status {
        Ok(s) => match s.code() {
            Some(c) => c,
            None => {
                use std::os::unix::process::ExitStatusExt;
                println!(
                    "the process running the case was killed by signal {:?} (stack overflow / abort)",
                    s.signal()
                );
                println!("VIOLATION property={} replay=(replayed case)", ctx.id);
                1
            }
        },
        Err(_) => 2,
    }
}

/// For `worker <ID> replay <file>`: returns the parsed case.
pub fn replay_arg(args: &[String]) -> Option<Value> {
    if args.len() >= 2 && args[0] == "replay" {
        let text = std::fs::read_to_string(&args[1]).ok()?;
        serde_json::from_str(&text).ok()
    } else {
        None
    }
}
