//! C06 — upstream replies are filtered: only records relevant to the question
//! are used or cached.
//!
//! (a) every reply built from subsets of an adversarial record menu (each
//!     record in any section) is passed to the real
//!     `validate_nameserver_response` (through the verif wrapper);
//! (b) the same replies are served as one upstream reply of a full
//!     `dns_resolver::resolve` (every exchange position, all candidate
//!     orders), then cache and answer are inspected;
//! (c) header variants: a reply with a header defect contributes nothing.

use crate::c07::base_spec;
use crate::common::*;
use crate::net::*;
use crate::procpar::{self, JsonAcc};
use crate::ugen::*;
use crate::util::*;
use bytes::Bytes;
use dns_resolver::recursive::{verif_validate_nameserver_response, NameserverResponse};
use dns_types::protocol::types::*;
use serde_json::{json, Value};
use std::collections::BTreeSet;
use std::sync::Arc;

type Key = (DomainName, RecordTypeWithData);

fn key(r: &ResourceRecord) -> Key {
    (r.name.clone(), r.rtype_with_data.clone())
}

/// The question name used throughout: `www.z.t.` (leaf of a depth-2 chain).
fn qname() -> DomainName {
    dn("www.z.t.")
}

const QTYPES: [QueryType; 6] = [
    QueryType::Record(RecordType::A),
    QueryType::Record(RecordType::AAAA),
    QueryType::Record(RecordType::TXT),
    QueryType::Record(RecordType::NS),
    QueryType::Record(RecordType::CNAME),
    QueryType::Wildcard,
];

/// The adversarial record menu.
pub fn menu() -> Vec<(&'static str, ResourceRecord)> {
    let q = qname();
    let unknown = match RecordType::from(999) {
        RecordType::Unknown(tag) => RecordTypeWithData::Unknown {
            tag,
            octets: Bytes::from_static(b"zz"),
        },
        _ => unreachable!(),
    };
    vec![
        ("answer A at q", rr(&q, a([10, 7, 0, 1]), 300)),
        ("on-path CNAME q -> cdn.z.t.", rr(&q, cname(&dn("cdn.z.t.")), 300)),
        ("A at the CNAME target", rr(&dn("cdn.z.t."), a([10, 7, 0, 2]), 300)),
        ("off-path CNAME victim.bank. -> evil.attacker.", rr(&dn("victim.bank."), cname(&dn("evil.attacker.")), 300)),
        ("A at the off-path target", rr(&dn("evil.attacker."), a([6, 6, 6, 6]), 300)),
        ("TXT at q", rr(&q, txt(b"x"), 300)),
        ("unknown type at q", rr(&q, unknown, 300)),
        ("NS owned by z.t. (ancestor, 3 labels)", rr(&dn("z.t."), ns(&dn("evilns.z.t.")), 300)),
        ("NS owned by t. (ancestor, 2 labels)", rr(&dn("t."), ns(&dn("ns.evil-t.")), 300)),
        ("NS owned by the root", rr(&DomainName::root_domain(), ns(&dn("ns.evil-root.")), 300)),
        ("NS owned by q itself", rr(&q, ns(&dn("ns.evil-q.")), 300)),
        ("NS owned by bank. naming the same host as the z.t. NS", rr(&dn("bank."), ns(&dn("evilns.z.t.")), 300)),
        ("NS owned by bank. naming another host", rr(&dn("bank."), ns(&dn("ns.evil.")), 300)),
        ("A for the host named by the z.t. NS", rr(&dn("evilns.z.t."), a([6, 6, 6, 53]), 300)),
        ("AAAA for the host named by the z.t. NS", rr(&dn("evilns.z.t."), aaaa(0x53), 300)),
        ("A for a host only named by the foreign NS", rr(&dn("ns.evil."), a([6, 6, 6, 7]), 300)),
        ("SOA of z.t.", rr(&dn("z.t."), soa_data(&dn("mname.z.t."), 9, 60), 60)),
        ("SOA of bank.", rr(&dn("bank."), soa_data(&dn("mname.bank."), 9, 60), 60)),
        ("CNAME cdn.z.t. -> q (closes an alias loop with the on-path CNAME)", rr(&dn("cdn.z.t."), cname(&q), 300)),
        // off-path owners whose *target* lies on the alias path (converging aliases)
        ("off-path CNAME other.z.t. -> cdn.z.t. (target on the path)", rr(&dn("other.z.t."), cname(&dn("cdn.z.t.")), 300)),
        ("off-path CNAME victim.bank. -> q (target is the question name)", rr(&dn("victim.bank."), cname(&q), 300)),
    ]
}

#[derive(Debug, Default)]
pub struct Allowed {
    pub rrs: BTreeSet<Key>,
    pub soa: BTreeSet<Key>,
    pub hosts: BTreeSet<DomainName>,
    pub cuts: BTreeSet<DomainName>,
}

/// What the statement allows the resolver to use from one accepted reply.
pub fn allowed(q: &Question, reply: &Message, match_count: usize) -> Allowed {
    let mut al = Allowed::default();
    // the alias path from the question name through the answer section
    let mut path = vec![q.name.clone()];
    loop {
        let last = path.last().unwrap().clone();
        let next = reply.answers.iter().find_map(|r| match &r.rtype_with_data {
            RecordTypeWithData::CNAME { cname } if r.name == last => Some((r, cname.clone())),
            _ => None,
        });
        match next {
            Some((r, target)) => {
                // every CNAME owned by a name on the path is "on that path"
                // (several CNAMEs at one owner: all of them)
                for r2 in reply.answers.iter().filter(|x| x.name == last && x.rtype_with_data.rtype() == RecordType::CNAME) {
                    al.rrs.insert(key(r2));
                }
                let _ = r;
                if path.contains(&target) {
                    break;
                }
                path.push(target);
            }
            None => break,
        }
    }
    let last = path.last().unwrap().clone();
    let all_sections = || {
        reply
            .answers
            .iter()
            .chain(reply.authority.iter())
            .chain(reply.additional.iter())
    };
    let mut has_answer = false;
    for r in all_sections() {
        if r.is_unknown() {
            continue;
        }
        let on_final = r.name == last;
        let lenient = matches!(q.qtype, QueryType::Wildcard | QueryType::Record(RecordType::CNAME))
            && path.contains(&r.name);
        if (on_final || lenient) && r.rtype_with_data.matches(q.qtype) && r.rclass.matches(q.qclass) {
            al.rrs.insert(key(r));
        }
    }
    // a negative reply is one whose *answer section* holds nothing for the question
    for r in &reply.answers {
        if al.rrs.contains(&key(r)) && !r.is_unknown() {
            let on_path = path.contains(&r.name);
            if on_path && (r.rtype_with_data.matches(q.qtype) || r.rtype_with_data.rtype() == RecordType::CNAME) {
                has_answer = true;
            }
        }
    }
    if path.len() > 1 {
        has_answer = true;
    }
    for r in all_sections() {
        if let RecordTypeWithData::NS { nsdname } = &r.rtype_with_data {
            if q.name.is_subdomain_of(&r.name) && r.name.labels.len() > match_count {
                al.rrs.insert(key(r));
                al.hosts.insert(nsdname.clone());
                al.cuts.insert(r.name.clone());
            }
        }
    }
    for r in all_sections() {
        if matches!(
            r.rtype_with_data,
            RecordTypeWithData::A { .. } | RecordTypeWithData::AAAA { .. }
        ) && al.hosts.contains(&r.name)
        {
            al.rrs.insert(key(r));
        }
    }
    if !has_answer {
        for r in &reply.authority {
            if r.rtype_with_data.rtype() == RecordType::SOA
                && q.name.is_subdomain_of(&r.name)
                && r.name.labels.len() >= match_count
            {
                al.soa.insert(key(r));
            }
        }
    }
    al
}

fn build_reply(q: &Question, placed: &[(usize, u8)], menu: &[(&'static str, ResourceRecord)]) -> Message {
    let req = Message::from_question(0x4242, q.clone());
    let mut m = req.make_response();
    m.header.recursion_available = false;
    m.header.is_authoritative = true;
    for (i, sec) in placed {
        let r = menu[*i].1.clone();
        match sec {
            0 => m.answers.push(r),
            1 => m.authority.push(r),
            _ => m.additional.push(r),
        }
    }
    m
}

fn show_placed(placed: &[(usize, u8)], menu: &[(&'static str, ResourceRecord)]) -> Vec<String> {
    placed
        .iter()
        .map(|(i, s)| {
            format!(
                "[{}] {}",
                ["answer", "authority", "additional"][*s as usize],
                menu[*i].0
            )
        })
        .collect()
}

fn placed_json(placed: &[(usize, u8)]) -> Value {
    json!(placed.iter().map(|(i, s)| json!([i, s])).collect::<Vec<_>>())
}

fn placed_from_json(v: &Value) -> Vec<(usize, u8)> {
    v.as_array()
        .map(|a| {
            a.iter()
                .filter_map(|p| Some((p[0].as_u64()? as usize, p[1].as_u64()? as u8)))
                .collect()
        })
        .unwrap_or_default()
}

/// All placements (subset of <= k menu records, each in one of 3 sections)
/// whose smallest record index is `first` (or the empty placement for None).
fn placements(first: Option<usize>, n: usize, k: usize) -> Vec<Vec<(usize, u8)>> {
    fn rec(start: usize, n: usize, left: usize, cur: &mut Vec<(usize, u8)>, out: &mut Vec<Vec<(usize, u8)>>) {
        out.push(cur.clone());
        if left == 0 {
            return;
        }
        for i in start..n {
            for s in 0..3u8 {
                cur.push((i, s));
                rec(i + 1, n, left - 1, cur, out);
                cur.pop();
            }
        }
    }
    let mut out = Vec::new();
    match first {
        None => out.push(Vec::new()),
        Some(f) => {
            for s in 0..3u8 {
                let mut cur = vec![(f, s)];
                rec(f + 1, n, k - 1, &mut cur, &mut out);
            }
        }
    }
    out
}

// ---------------------------------------------------------------------------
// (a) direct calls
// ---------------------------------------------------------------------------

fn judge_validated(q: &Question, reply: &Message, mc: usize, got: &Option<NameserverResponse>) -> Vec<(&'static str, String)> {
    let al = allowed(q, reply, mc);
    let mut out = Vec::new();
    let (rrs, soa, deleg): (Vec<ResourceRecord>, Option<ResourceRecord>, Option<(DomainName, Vec<DomainName>)>) = match got {
        None => return out,
        Some(NameserverResponse::Answer { rrs, soa_rr }) => (rrs.clone(), soa_rr.clone(), None),
        Some(NameserverResponse::CNAME { rrs, .. }) => (rrs.clone(), None, None),
        Some(NameserverResponse::Delegation { rrs, delegation }) => (
            rrs.clone(),
            None,
            Some((delegation.name.clone(), delegation.hostnames.clone())),
        ),
    };
    for r in &rrs {
        if !al.rrs.contains(&key(r)) {
            let clause = match &r.rtype_with_data {
                RecordTypeWithData::CNAME { .. } => "off-path-cname-accepted",
                RecordTypeWithData::NS { .. } => {
                    if !q.name.is_subdomain_of(&r.name) {
                        "ns-with-foreign-owner-accepted"
                    } else {
                        "ns-not-deeper-accepted"
                    }
                }
                RecordTypeWithData::A { .. } | RecordTypeWithData::AAAA { .. } => "address-for-unnamed-host-accepted",
                _ => "irrelevant-record-accepted",
            };
            out.push((clause, format!("validated response uses {}", show_rr(r))));
        }
    }
    if let Some(s) = &soa {
        if !al.soa.contains(&key(s)) {
            out.push(("soa-not-allowed", format!("validated response carries SOA {}", show_rr(s))));
        }
    }
    if let Some((name, hosts)) = &deleg {
        if !al.cuts.contains(name) {
            out.push(("delegation-to-disallowed-cut", format!("delegation to {}", show_name(name))));
        }
        for h in hosts {
            if !al.hosts.contains(h) {
                out.push(("delegation-to-unnamed-host", format!("delegation names host {}", show_name(h))));
            }
        }
    }
    out
}

fn run_direct(acc: &mut JsonAcc, qi: usize, mc: usize, first: Option<usize>, k: usize) {
    let menu = menu();
    let q = question(&qname(), QTYPES[qi]);
    for placed in placements(first, menu.len(), k) {
        let reply = build_reply(&q, &placed, &menu);
        procpar::beat();
        if acc.trace {
            acc.announce(&json!({"kind": "direct", "qtype": u16::from(q.qtype), "match_count": mc, "placed": placed_json(&placed)}));
        }
        let got = std::panic::catch_unwind(|| verif_validate_nameserver_response(&q, &reply, mc));
        acc.count("direct_calls", 1);
        let got = match got {
            Ok(g) => g,
            Err(_) => {
                acc.violate(
                    "panic",
                    format!("validate_nameserver_response panicked on {:?}", show_placed(&placed, &menu)),
                    json!({"kind": "direct", "qtype": u16::from(q.qtype), "match_count": mc, "placed": placed_json(&placed)}),
                    None,
                );
                continue;
            }
        };
        acc.hist(
            match &got {
                None => "direct: rejected",
                Some(NameserverResponse::Answer { rrs, .. }) if rrs.is_empty() => "direct: negative answer",
                Some(NameserverResponse::Answer { .. }) => "direct: answer",
                Some(NameserverResponse::CNAME { .. }) => "direct: cname",
                Some(NameserverResponse::Delegation { .. }) => "direct: delegation",
            },
            1,
        );
        if got.is_some() && placed.len() >= 2 {
            acc.count("nontrivial", 1);
        }
        for (clause, msg) in judge_validated(&q, &reply, mc, &got) {
            acc.violate(
                clause,
                format!(
                    "question {} {} delegation depth {} reply {:?}: {}",
                    show_name(&q.name),
                    q.qtype,
                    mc,
                    show_placed(&placed, &menu),
                    msg
                ),
                json!({"kind": "direct", "qtype": u16::from(q.qtype), "match_count": mc, "placed": placed_json(&placed)}),
                None,
            );
        }
    }
}

// ---------------------------------------------------------------------------
// (b) through resolve()
// ---------------------------------------------------------------------------

fn universe() -> (GenParams, Arc<Universe>) {
    let p = GenParams::simple(2, NsStyle::InZoneGlue, 1);
    let u = Arc::new(build(&p));
    (p, u)
}

/// Union of what all replies of a run allow.
fn allowed_of_run(u: &Universe, res: &RunResult) -> Allowed {
    let mut al = Allowed::default();
    for (name, addrs) in &u.hints {
        al.rrs.insert((DomainName::root_domain(), ns(name)));
        for a in addrs {
            al.rrs.insert((
                name.clone(),
                match a {
                    std::net::IpAddr::V4(v) => RecordTypeWithData::A { address: *v },
                    std::net::IpAddr::V6(v) => RecordTypeWithData::AAAA { address: *v },
                },
            ));
        }
    }
    for e in &res.log {
        if let (Some(q), Some(m)) = (&e.question, &e.sent_msg) {
            let one = allowed(q, m, e.server_depth.max(1));
            al.rrs.extend(one.rrs);
            al.soa.extend(one.soa);
        }
    }
    al
}

fn judge_run(u: &Universe, res: &RunResult) -> Vec<(&'static str, String)> {
    let mut out = Vec::new();
    let al = allowed_of_run(u, res);
    for ask in &res.asks {
        for r in &ask.cache_after {
            if !al.rrs.contains(&key(r)) {
                let clause = match &r.rtype_with_data {
                    RecordTypeWithData::CNAME { .. } => "cached-off-path-cname",
                    RecordTypeWithData::NS { .. } => "cached-disallowed-ns",
                    RecordTypeWithData::SOA { .. } => "cached-soa",
                    RecordTypeWithData::A { .. } | RecordTypeWithData::AAAA { .. } => "cached-unrelated-address",
                    _ => "cached-irrelevant-record",
                };
                out.push((clause, format!("the cache holds {}", show_rr(r))));
            }
        }
        match &ask.outcome {
            Outcome::Ok(r) => {
                for x in r.clone().rrs() {
                    if !al.rrs.contains(&key(&x)) {
                        out.push(("answer-uses-disallowed-record", format!("the answer contains {}", show_rr(&x))));
                    }
                }
                if let Some(s) = r.soa_rr() {
                    if !al.soa.contains(&key(s)) && !al.rrs.contains(&key(s)) {
                        out.push(("answer-soa-not-allowed", format!("the answer carries SOA {}", show_rr(s))));
                    }
                }
            }
            Outcome::Panic(m) => out.push(("panic", format!("panicked: {m}"))),
            Outcome::Err(_) => {}
        }
    }
    out
}

fn run_resolve(acc: &mut JsonAcc, qi: usize, first: Option<usize>, k: usize) {
    let menu = menu();
    let (_p, u) = universe();
    let q = question(&qname(), QTYPES[qi]);
    for placed in placements(first, menu.len(), k) {
        let reply = build_reply(&q, &placed, &menu);
        let mut spec = base_spec(u.clone(), vec![Step::Ask(q.clone())]);
        spec.faults = vec![Fault::Honest, Fault::Substitute(Box::new(reply))];
        spec.fault_window = 8;
        let mut stats = ExploreStats::default();
        let replay = |choices: &[usize]| json!({"kind": "resolve", "qtype": u16::from(q.qtype), "placed": placed_json(&placed), "choices": choices});
        if acc.trace {
            let pj = placed_json(&placed);
            let qt = u16::from(q.qtype);
            stats.pre = Some(Box::new(move |prefix: &[usize]| {
                println!("EXEC {}", json!({"kind": "resolve", "qtype": qt, "placed": pj, "choices": prefix}));
                use std::io::Write;
                let _ = std::io::stdout().flush();
            }));
        }
        let mut visit = |res: &RunResult, choices: &[usize]| {
            let substituted = res.log.iter().any(|e| matches!(e.fault, Fault::Substitute(_)));
            if substituted {
                acc.count("nontrivial", 1);
            }
            acc.hist(
                match &res.asks[0].outcome {
                    Outcome::Ok(_) => "resolve: answered",
                    Outcome::Err(_) => "resolve: error",
                    Outcome::Panic(_) => "resolve: panic",
                },
                1,
            );
            for (clause, msg) in judge_run(&u, res) {
                acc.violate(
                    clause,
                    format!(
                        "question {} {} with substituted reply {:?}: {} :: log {}",
                        show_name(&q.name),
                        q.qtype,
                        show_placed(&placed, &menu),
                        msg,
                        show_log(&res.log)
                    ),
                    replay(choices),
                    None,
                );
            }
            acc.states.insert(fnv64(
                format!("{}|{:?}", show_outcome(&res.asks[0].outcome), canon_rrs_nottl(&res.asks[0].cache_after)).as_bytes(),
            ));
            if substituted && placed.len() >= 2 {
                acc.sample(json!({
                    "question": format!("{} {}", show_name(&q.name), q.qtype),
                    "substituted_reply": show_placed(&placed, &menu),
                    "exchanges": show_log(&res.log),
                    "outcome": show_outcome(&res.asks[0].outcome),
                    "cache": canon_rrs_nottl(&res.asks[0].cache_after),
                }));
            }
        };
        explore(&spec, 1, 10_000, &mut stats, &mut visit);
        acc.count("executions", stats.executions);
        acc.count("exchanges", stats.exchanges + stats.choice_points);
    }
}

// ---------------------------------------------------------------------------
// (c) header variants
// ---------------------------------------------------------------------------

const MANGLES: [Mangle; 13] = [
    Mangle::WrongId,
    Mangle::Qr0,
    Mangle::Opcode,
    Mangle::Tc,
    Mangle::Rcode(1),
    Mangle::Rcode(2),
    Mangle::Rcode(4),
    Mangle::Rcode(5),
    Mangle::Rcode(15),
    Mangle::AlterQuestion,
    Mangle::QuestionType,
    Mangle::NoQuestion,
    Mangle::TwoQuestions,
];

fn run_header_variants(acc: &mut JsonAcc, qi: usize) {
    let menu = menu();
    let (_p, u) = universe();
    let q = question(&qname(), QTYPES[qi]);
    // poisonous but otherwise acceptable payloads
    let payloads: Vec<Vec<(usize, u8)>> = vec![
        vec![(0, 0)],
        vec![(1, 0), (2, 0)],
        vec![(7, 1), (13, 2)],
        vec![(0, 0), (7, 1), (13, 2), (14, 2)],
    ];
    for placed in &payloads {
        let reply = build_reply(&q, placed, &menu);
        let mut faults = vec![Fault::Honest, Fault::IoError];
        for g in MANGLES {
            faults.push(Fault::SubstituteMangled(Box::new(reply.clone()), g));
        }
        let mut spec = base_spec(u.clone(), vec![Step::Ask(q.clone())]);
        spec.faults = faults.clone();
        spec.fault_window = 8;
        spec.explore_orders = false;
        // observations keyed by the position of the single fault
        let mut by_pos: std::collections::BTreeMap<usize, Vec<(usize, String, Vec<usize>)>> = Default::default();
        let mut stats = ExploreStats::default();
        let mut visit = |res: &RunResult, choices: &[usize]| {
            let pos = res.points.iter().position(|p| p.kind == PointKind::Fault && p.taken != 0);
            if let Some(pos) = pos {
                // only faults on UDP exchanges are compared (a TCP retry follows)
                let fault_idx = res.points[pos].taken;
                let obs = format!(
                    "{}|{:?}",
                    show_outcome(&res.asks[0].outcome),
                    canon_rrs_nottl(&res.asks[0].cache_after)
                );
                by_pos.entry(pos).or_default().push((fault_idx, obs, choices.to_vec()));
            }
        };
        explore(&spec, 1, 10_000, &mut stats, &mut visit);
        acc.count("executions", stats.executions);
        acc.count("exchanges", stats.exchanges + stats.choice_points);
        for (pos, obs) in by_pos {
            let base = obs.iter().find(|(f, _, _)| *f == 1).map(|(_, o, _)| o.clone());
            if let Some(base) = base {
                for (f, o, choices) in &obs {
                    if *f >= 2 {
                        acc.count("nontrivial", 1);
                        acc.hist("header variant runs compared with the dropped-exchange run", 1);
                        if *o != base {
                            acc.violate(
                                "mismatched-reply-not-discarded",
                                format!(
                                    "question {} {}: reply {:?} with header defect {} at exchange point {} changed the outcome/cache: {} instead of {}",
                                    show_name(&q.name),
                                    q.qtype,
                                    show_placed(placed, &menu),
                                    show_fault(&faults[*f]),
                                    pos,
                                    o,
                                    base
                                ),
                                json!({"kind": "header", "qtype": u16::from(q.qtype), "placed": placed_json(placed), "choices": choices}),
                                None,
                            );
                        }
                    }
                }
            }
        }
    }
}

// ---------------------------------------------------------------------------

#[derive(Clone, Debug)]
enum Item {
    Direct { qi: usize, mc: usize, first: Option<usize> },
    Resolve { qi: usize, first: Option<usize> },
    Header { qi: usize },
}

fn items(tier: Tier) -> Vec<Item> {
    let n = menu().len();
    let mut v = Vec::new();
    for qi in 0..QTYPES.len() {
        for mc in 1..=4 {
            v.push(Item::Direct { qi, mc, first: None });
            for f in 0..n {
                v.push(Item::Direct { qi, mc, first: Some(f) });
            }
        }
    }
    let resolve_qtypes: Vec<usize> = tier.pick(vec![0, 2, 5], vec![0, 1, 2, 3, 4, 5]);
    for qi in resolve_qtypes {
        v.push(Item::Resolve { qi, first: None });
        for f in 0..n {
            v.push(Item::Resolve { qi, first: Some(f) });
        }
        v.push(Item::Header { qi });
    }
    v
}

fn run_item(tier: Tier, it: &[Item], i: usize, acc: &mut JsonAcc) {
    match &it[i] {
        Item::Direct { qi, mc, first } => run_direct(acc, *qi, *mc, *first, tier.pick(3, 4)),
        Item::Resolve { qi, first } => run_resolve(acc, *qi, *first, tier.pick(2, 3)),
        Item::Header { qi } => run_header_variants(acc, *qi),
    }
}

pub fn run(ctx: &Ctx) -> i32 {
    let it = items(ctx.tier);
    let (acc, crashes) = procpar::parent(ctx, it.len(), ctx.tier.pick(90.0, 1800.0), &[]);
    let mut report = Report::new();
    let c = |k: &str| acc.counters.get(k).copied().unwrap_or(0);
    report.evaluations = c("direct_calls") + c("executions");
    report.transitions = c("direct_calls") + c("exchanges");
    report.traces_validated = report.evaluations;
    report.distinct_nontrivial = c("nontrivial");
    procpar::into_report(acc, crashes, &mut report);
    let menu = menu();
    report.rule = "(a) every reply made of <= k records of the adversarial menu, each in any of the three sections, x 6 question types x 4 delegation depths, passed to the real validate_nameserver_response; (b) every such reply (<= k-1 records) substituted for the reply of every upstream exchange position (deviation bound 1) of a full dns_resolver::resolve in a 2-level universe, all candidate orders, then answer and cache inspected; (c) 13 header defects x 4 poisonous payloads x every exchange position, outcome and cache compared with the run in which that exchange was dropped; non-trivial = accepted replies with >= 2 records (a), runs in which a substituted reply was delivered (b), compared header-variant runs (c)".into();
    report.bounds = json!({
        "menu": menu.iter().map(|(n, r)| format!("{n}: {}", show_rr(r))).collect::<Vec<_>>(),
        "k_direct": ctx.tier.pick(3, 4),
        "k_resolve": ctx.tier.pick(2, 3),
        "question": show_name(&qname()),
    });
    report.assumptions = vec![
        "allowed set per reply: type-matching records at the end of the alias walk through the answer section (any name on the walk for CNAME/ANY questions), the CNAMEs on the walk, NS owned by an ancestor-or-self of the question name deeper than the delegation in use, A/AAAA for hosts those NS name; as returned SOA only: an SOA owned by an ancestor not shallower than the delegation in an answer-less reply".into(),
        "sections are not distinguished (the statement does not)".into(),
    ];
    finish(ctx, report)
}

fn replay_inner(ctx: &Ctx, v: &Value) -> i32 {
    let menu = menu();
    let q = question(&qname(), QueryType::from(v["qtype"].as_u64().unwrap_or(1) as u16));
    let placed = placed_from_json(&v["placed"]);
    let reply = build_reply(&q, &placed, &menu);
    println!("question {} {}", show_name(&q.name), q.qtype);
    println!("reply: {:?}", show_placed(&placed, &menu));
    let mut findings: Vec<(&'static str, String)> = Vec::new();
    match v["kind"].as_str().unwrap_or("") {
        "direct" => {
            let mc = v["match_count"].as_u64().unwrap_or(1) as usize;
            let got = verif_validate_nameserver_response(&q, &reply, mc);
            println!("delegation depth {mc}; validated: {got:?}");
            findings = judge_validated(&q, &reply, mc, &got);
        }
        "resolve" => {
            let (_p, u) = universe();
            let mut spec = base_spec(u.clone(), vec![Step::Ask(q.clone())]);
            spec.faults = vec![Fault::Honest, Fault::Substitute(Box::new(reply))];
            spec.fault_window = 8;
            let choices: Vec<usize> = v["choices"].as_array().cloned().unwrap_or_default().iter().filter_map(|c| c.as_u64().map(|c| c as usize)).collect();
            let res = run_once(&spec, &choices);
            println!("exchanges: {}", show_log(&res.log));
            println!("outcome: {}", show_outcome(&res.asks[0].outcome));
            println!("cache: {:?}", canon_rrs_nottl(&res.asks[0].cache_after));
            findings = judge_run(&u, &res);
        }
        "header" => {
            let (_p, u) = universe();
            let mut faults = vec![Fault::Honest, Fault::IoError];
            for g in MANGLES {
                faults.push(Fault::SubstituteMangled(Box::new(reply.clone()), g));
            }
            let mut spec = base_spec(u.clone(), vec![Step::Ask(q.clone())]);
            spec.faults = faults.clone();
            spec.fault_window = 8;
            spec.explore_orders = false;
            let choices: Vec<usize> = v["choices"].as_array().cloned().unwrap_or_default().iter().filter_map(|c| c.as_u64().map(|c| c as usize)).collect();
            let res = run_once(&spec, &choices);
            let mut base_choices = choices.clone();
            if let Some(last) = base_choices.last_mut() {
                *last = 1;
            }
            let base = run_once(&spec, &base_choices);
            let o1 = format!("{}|{:?}", show_outcome(&res.asks[0].outcome), canon_rrs_nottl(&res.asks[0].cache_after));
            let o2 = format!("{}|{:?}", show_outcome(&base.asks[0].outcome), canon_rrs_nottl(&base.asks[0].cache_after));
            println!("with the defective reply: {o1}\nwith the exchange dropped: {o2}");
            if o1 != o2 {
                findings.push(("mismatched-reply-not-discarded", "outcome differs".into()));
            }
        }
        _ => return 2,
    }
    for (c, m) in &findings {
        println!("  finding [{c}]: {m}");
    }
    if findings.is_empty() {
        println!("replay: property holds on this case");
        0
    } else {
        println!("VIOLATION property={} replay=(replayed case)", ctx.id);
        1
    }
}

pub fn replay(ctx: &Ctx, v: &Value) -> i32 {
    procpar::replay_in_child(ctx, v)
}

pub fn worker(args: &[String]) -> i32 {
    if let Some(v) = procpar::replay_arg(args) {
        let ctx = Ctx {
            id: "C06",
            tier: Tier::Quick,
            seed: 0,
            start: std::time::Instant::now(),
            threads: 1,
        };
        return replay_inner(&ctx, &v);
    }
    let tier = if args.first().map(String::as_str) == Some("thorough") {
        Tier::Thorough
    } else {
        Tier::Quick
    };
    let it = items(tier);
    procpar::child_main(args, move |tier, i, acc| run_item(tier, &it, i, acc))
}
