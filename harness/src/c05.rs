//! C05 — the cache never serves a record past its TTL.
//!
//! Explicit-state search (stateright) over histories of operations on the real
//! `SharedCache` under the virtual clock hook; every transition is judged by
//! the reference in `cachemodel`.  Two clock disciplines (tie / tick).

use crate::cachemodel::*;
use crate::common::*;
use serde_json::{json, Value};
use std::time::Duration;

pub fn alphabet(tier: Tier) -> Vec<Op> {
    let mut ops = Vec::new();
    let names: &[u8] = tier.pick(&[1, 2][..], &[1, 2, 3][..]);
    let ttls: &[u32] = tier.pick(&[0, 1, 3][..], &[0, 1, 3, u32::MAX][..]);
    for &n in names {
        for (ty, val) in [(Ty::A, 1u8), (Ty::A, 2), (Ty::Txt, 1)] {
            if n == 3 && val == 2 {
                continue;
            }
            for &ttl in ttls {
                ops.push(Op::Ins(Rec { name: n, ty, val, ttl }));
            }
        }
    }
    ops.push(Op::InsAll(vec![
        Rec { name: 1, ty: Ty::A, val: 1, ttl: 1 },
        Rec { name: 1, ty: Ty::Txt, val: 1, ttl: 3 },
    ]));
    ops.push(Op::InsAll(vec![
        Rec { name: 1, ty: Ty::A, val: 1, ttl: 0 },
        Rec { name: 2, ty: Ty::Txt, val: 1, ttl: 1 },
    ]));
    ops.push(Op::InsAll(vec![
        Rec { name: 1, ty: Ty::A, val: 1, ttl: 1 },
        Rec { name: 1, ty: Ty::A, val: 1, ttl: 3 },
    ]));
    for &n in names {
        for q in [Q::A, Q::Txt, Q::Any] {
            ops.push(Op::Get(n, q));
        }
    }
    ops.push(Op::Get(1, Q::Mx));
    ops.push(Op::GetUnchecked(1, Q::Any));
    ops.push(Op::GetUnchecked(1, Q::A));
    ops.push(Op::Prune);
    ops.push(Op::Adv(500));
    ops.push(Op::Adv(1000));
    ops.push(Op::Adv(3000));
    if tier == Tier::Thorough {
        ops.push(Op::Adv(999));
    }
    ops
}

pub struct Plan {
    pub desired: usize,
    pub tick: bool,
    pub depth: usize,
}

pub fn run_plans(
    ctx: &Ctx,
    focus: Focus,
    alphabet: &[Op],
    plans: &[Plan],
    report: &mut Report,
    budget_s: f64,
) {
    let mut samples_left = 5usize;
    let mut searches = Vec::new();
    for (i, plan) in plans.iter().enumerate() {
        let cfg = Config {
            desired_size: plan.desired,
            tick: plan.tick,
            focus,
        };
        let remaining = budget_s - ctx.elapsed();
        if remaining <= 1.0 {
            report.exhaustive = false;
            searches.push(json!({"desired_size": plan.desired, "tick": plan.tick, "depth": plan.depth, "skipped": "wall-clock budget used up"}));
            continue;
        }
        let share = remaining / (plans.len() - i) as f64;
        let res = search(
            &cfg,
            alphabet,
            plan.depth,
            ctx.threads,
            ctx.tier == Tier::Thorough,
            Duration::from_secs_f64(share.max(2.0)),
            Some((ctx.id, ctx.tier, ctx.seed, ctx.start)),
        );
        report.states += res.unique;
        report.transitions += res.transitions;
        report.evaluations += res.transitions;
        report.traces_validated += res.transitions;
        report.distinct_nontrivial += match focus {
            Focus::C05 => res.with_expiry.max(res.with_hit),
            Focus::C15 => res.with_eviction.max(res.with_expiry),
        };
        report.hist("transitions whose operation pruned an expired record", res.with_expiry);
        report.hist("transitions whose operation evicted a name", res.with_eviction);
        report.hist("transitions re-inserting a held record", res.with_upsert);
        report.hist("transitions whose lookup returned a live record", res.with_hit);
        report.hist("transitions", res.transitions);
        if res.timed_out {
            report.exhaustive = false;
        }
        searches.push(json!({
            "desired_size": plan.desired,
            "clock": if plan.tick { "tick (1 ns per clock read)" } else { "tie (time moves only on advance)" },
            "depth": plan.depth,
            "unique_states": res.unique,
            "generated_states": res.generated,
            "transitions_executed": res.transitions,
            "max_depth_reached": res.max_depth,
            "timed_out": res.timed_out,
            "stopped_at_first_discovery": res.counterexample.is_some(),
        }));
        for s in res.samples {
            if samples_left > 0 {
                samples_left -= 1;
                report
                    .samples
                    .push(json!(s.iter().map(show_op).collect::<Vec<_>>()));
            }
        }
        if let Some((ops, f)) = res.counterexample {
            report.violations.push(Violation {
                clause: f.clause.to_string(),
                summary: format!(
                    "desired_size={} clock={} history=[{}] :: {}",
                    plan.desired,
                    if plan.tick { "tick" } else { "tie" },
                    ops.iter().map(show_op).collect::<Vec<_>>().join(", "),
                    f.msg
                ),
                replay: json!({
                    "kind": "cache-history",
                    "desired_size": plan.desired,
                    "tick": plan.tick,
                    "ops": ops.iter().map(op_to_json).collect::<Vec<_>>(),
                }),
                slug: None,
            });
        }
    }
    report.extra.insert("searches".into(), json!(searches));
    report.extra.insert(
        "alphabet".into(),
        json!(alphabet.iter().map(show_op).collect::<Vec<_>>()),
    );
}

pub fn run(ctx: &Ctx) -> i32 {
    let alphabet = alphabet(ctx.tier);
    let plans: Vec<Plan> = match ctx.tier {
        Tier::Quick => vec![
            Plan { desired: 2, tick: false, depth: 5 },
            Plan { desired: 64, tick: false, depth: 4 },
            Plan { desired: 1, tick: false, depth: 4 },
            Plan { desired: 64, tick: true, depth: 3 },
        ],
        Tier::Thorough => vec![
            Plan { desired: 2, tick: false, depth: 6 },
            Plan { desired: 64, tick: false, depth: 6 },
            Plan { desired: 1, tick: false, depth: 5 },
            Plan { desired: 64, tick: true, depth: 4 },
            Plan { desired: 2, tick: true, depth: 4 },
        ],
    };
    let mut report = Report::new();
    run_plans(
        ctx,
        Focus::C05,
        &alphabet,
        &plans,
        &mut report,
        ctx.tier.pick(240.0, 3000.0),
    );
    crate::c05net::run_resolver_level(ctx, &mut report);
    report.rule = "stateright search over all operation histories up to the stated depth (alphabet in coverage.alphabet) on a fresh real SharedCache per transition (re-execution), de-duplicated on (canonical snapshot relative to now + reference bookkeeping, depth, verdict); states = unique states, transitions = executions of a whole history on the real cache, each judged by the reference; non-trivial = histories in which a lookup returned a live record or an expired record was pruned (max of the two counters, measured)".into();
    report.bounds = json!({
        "plans": plans.iter().map(|p| json!({"desired_size": p.desired, "tick": p.tick, "depth": p.depth})).collect::<Vec<_>>(),
        "alphabet_size": alphabet.len(),
    });
    report.assumptions = vec![
        "D2: a record with less than one whole second left may be withheld; it must be served while >= 1 s remains and never once its TTL elapsed".into(),
        "evictions by an over-size prune are accepted as they happen (judged by C15)".into(),
        "stateright stops at the first discovery: counts on a violating tree are partial".into(),
    ];
    finish(ctx, report)
}

pub fn replay_history(ctx: &Ctx, v: &Value, focus: Focus) -> i32 {
    let cfg = Config {
        desired_size: v["desired_size"].as_u64().unwrap_or(64) as usize,
        tick: v["tick"].as_bool().unwrap_or(false),
        focus,
    };
    let ops: Vec<Op> = v["ops"]
        .as_array()
        .cloned()
        .unwrap_or_default()
        .iter()
        .filter_map(op_from_json)
        .collect();
    println!(
        "history (desired_size={}, tick={}):",
        cfg.desired_size, cfg.tick
    );
    for o in &ops {
        println!("  {}", show_op(o));
    }
    let findings = execute_all(&cfg, &ops);
    // determinism: a second run must give the same findings
    let again = execute_all(&cfg, &ops);
    if findings != again {
        eprintln!("machinery error: replay is not deterministic");
        return 2;
    }
    let mine: Vec<&Finding> = findings
        .iter()
        .filter(|f| clause_owner(f.clause) == focus)
        .collect();
    for f in &findings {
        println!(
            "  finding [{}]{}: {}",
            f.clause,
            if clause_owner(f.clause) == focus { "" } else { " (other property)" },
            f.msg
        );
    }
    if mine.is_empty() {
        println!("replay: property holds on this case");
        0
    } else {
        println!("VIOLATION property={} replay=(replayed case)", ctx.id);
        1
    }
}

pub fn replay(ctx: &Ctx, v: &Value) -> i32 {
    if v["kind"] == "resolver-ttl" {
        return crate::c05net::replay(ctx, v);
    }
    replay_history(ctx, v, Focus::C05)
}

pub fn worker(_args: &[String]) -> i32 {
    2
}
