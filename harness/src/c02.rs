//! C02 — zone lookup follows the standard authoritative-server algorithm.
//!
//! Bounded-exhaustive enumeration of path-shaped zones x questions; every
//! lookup runs the real `Zone::resolve` and is compared with the flat-list
//! reference in `refzone`.

use crate::common::*;
use crate::refzone::*;
use crate::util::*;
use dns_types::protocol::types::*;
use dns_types::zones::types::{Zone, Zones, SOA};
use serde_json::{json, Value};
use std::collections::{BTreeMap, BTreeSet};

const PATH_LABELS: [&[u8]; 3] = [b"a", b"b", b"c"];

#[derive(Debug, Copy, Clone, Eq, PartialEq)]
enum Kind {
    Ent,
    A,
    Txt,
    ATxt,
    Cname,
    CnameA,
    Ns,
    NsA,
}
const NODE_KINDS: [Kind; 8] = [
    Kind::Ent,
    Kind::A,
    Kind::Txt,
    Kind::ATxt,
    Kind::Cname,
    Kind::CnameA,
    Kind::Ns,
    Kind::NsA,
];
const APEX_KINDS: [Kind; 5] = [Kind::Ent, Kind::A, Kind::ATxt, Kind::Ns, Kind::NsA];

#[derive(Debug, Copy, Clone, Eq, PartialEq)]
enum Wild {
    None,
    A,
    Cname,
    Txt,
    ATxt,
}
const WILDS: [Wild; 5] = [Wild::None, Wild::A, Wild::Cname, Wild::Txt, Wild::ATxt];

#[derive(Debug, Copy, Clone)]
struct NodeCfg {
    kind: Kind,
    wild: Wild,
    sibling: bool,
}

/// (apex, soa minimum or none, ttl pattern)
#[derive(Debug, Copy, Clone)]
struct Frame {
    apex: &'static str,
    soa_min: Option<u32>,
    mixed_ttl: bool,
}

const FRAMES_QUICK: [Frame; 3] = [
    Frame { apex: "z.", soa_min: Some(60), mixed_ttl: true },
    Frame { apex: ".", soa_min: None, mixed_ttl: true },
    Frame { apex: "y.z.", soa_min: Some(0), mixed_ttl: false },
];
const FRAMES_ALL: [Frame; 9] = [
    Frame { apex: "z.", soa_min: Some(60), mixed_ttl: true },
    Frame { apex: ".", soa_min: None, mixed_ttl: true },
    Frame { apex: "y.z.", soa_min: Some(0), mixed_ttl: false },
    Frame { apex: "z.", soa_min: None, mixed_ttl: true },
    Frame { apex: "z.", soa_min: Some(0), mixed_ttl: true },
    Frame { apex: ".", soa_min: Some(60), mixed_ttl: false },
    Frame { apex: ".", soa_min: Some(0), mixed_ttl: true },
    Frame { apex: "y.z.", soa_min: None, mixed_ttl: true },
    Frame { apex: "y.z.", soa_min: Some(60), mixed_ttl: true },
];

fn ttl_for(frame: &Frame, what: u32) -> u32 {
    if !frame.mixed_ttl {
        return 5;
    }
    match what % 5 {
        0 => 0,
        1 => u32::MAX,
        2 => 5,
        3 => 300,
        _ => 61,
    }
}

struct Scope {
    max_depth: usize,
    n_wild: usize,
    frames: Vec<Frame>,
    sibling_at_last: bool,
}

/// Decode `idx` into a structural zone (depth + per-node configs) or `None`
/// if the combination is outside the claim (D1) or redundant.
fn decode(scope: &Scope, depth: usize, mut idx: usize) -> Option<Vec<NodeCfg>> {
    let mut nodes = Vec::with_capacity(depth + 1);
    for level in 0..=depth {
        let kinds: &[Kind] = if level == 0 { &APEX_KINDS } else { &NODE_KINDS };
        let kind = kinds[idx % kinds.len()];
        idx /= kinds.len();
        let wild = WILDS[idx % scope.n_wild];
        idx /= scope.n_wild;
        let sibling = idx % 2 == 1;
        idx /= 2;
        nodes.push(NodeCfg { kind, wild, sibling });
    }
    debug_assert_eq!(idx, 0);
    for (level, n) in nodes.iter().enumerate() {
        let is_ns = matches!(n.kind, Kind::Ns | Kind::NsA);
        if level > 0 && is_ns {
            // D1: nothing at or beneath a non-apex delegation point
            if level != depth || n.wild != Wild::None || n.sibling {
                return None;
            }
        }
        if level == depth && !scope.sibling_at_last && n.sibling && depth > 0 {
            return None;
        }
    }
    // a trailing ENT without wildcard or sibling does not exist: same zone as
    // the shorter path, skip
    if depth > 0 {
        let last = &nodes[depth];
        if last.kind == Kind::Ent && last.wild == Wild::None && !last.sibling {
            return None;
        }
    }
    Some(nodes)
}

fn count_for_depth(scope: &Scope, depth: usize) -> usize {
    let mut n = 1usize;
    for level in 0..=depth {
        let kinds = if level == 0 { APEX_KINDS.len() } else { NODE_KINDS.len() };
        n *= kinds * scope.n_wild * 2;
    }
    n
}

fn node_names(apex: &DomainName, depth: usize) -> Vec<DomainName> {
    let mut v = vec![apex.clone()];
    for i in 0..depth {
        let next = prepend(PATH_LABELS[i], &v[i]);
        v.push(next);
    }
    v
}

fn build_flat(frame: &Frame, nodes: &[NodeCfg]) -> FlatZone {
    let apex = dn(frame.apex);
    let names = node_names(&apex, nodes.len() - 1);
    let target = dn("target.elsewhere.");
    let nshost = dn("ns.elsewhere.");
    let nshost2 = prepend(b"ns2", &apex);
    let soa = frame.soa_min.map(|minimum| SOA {
        mname: dn("mname.z."),
        rname: dn("rname.z."),
        serial: 7,
        refresh: 2,
        retry: 3,
        expire: 4,
        minimum,
    });
    let mut recs = Vec::new();
    for (level, n) in nodes.iter().enumerate() {
        let l = level as u32;
        let owner = &names[level];
        let mut put = |wildcard: bool, data: RecordTypeWithData, what: u32| {
            recs.push(FlatRec {
                owner: owner.clone(),
                wildcard,
                data,
                ttl: ttl_for(frame, what + l),
            });
        };
        match n.kind {
            Kind::Ent => {}
            Kind::A => put(false, a([10, 0, level as u8, 1]), 0),
            Kind::Txt => put(false, txt(b"t"), 1),
            Kind::ATxt => {
                put(false, a([10, 0, level as u8, 1]), 0);
                put(false, a([10, 0, level as u8, 2]), 3);
                put(false, txt(b"t"), 1);
            }
            Kind::Cname => put(false, cname(&target), 2),
            Kind::CnameA => {
                put(false, cname(&target), 2);
                put(false, a([10, 0, level as u8, 1]), 0);
            }
            Kind::Ns => {
                put(false, ns(&nshost), 3);
                put(false, ns(&nshost2), 4);
            }
            Kind::NsA => {
                put(false, ns(&nshost), 3);
                put(false, a([10, 0, level as u8, 1]), 0);
            }
        }
        match n.wild {
            Wild::None => {}
            Wild::A => put(true, a([10, 9, level as u8, 1]), 1),
            Wild::Cname => put(true, cname(&target), 0),
            Wild::Txt => put(true, txt(b"w"), 2),
            Wild::ATxt => {
                put(true, a([10, 9, level as u8, 1]), 1);
                put(true, txt(b"w"), 2);
            }
        }
        if n.sibling {
            let sib = prepend(b"s", owner);
            recs.push(FlatRec {
                owner: sib,
                wildcard: false,
                data: a([10, 5, level as u8, 1]),
                ttl: ttl_for(frame, 4 + l),
            });
        }
    }
    FlatZone { apex, soa, recs }
}

const CORE_QTYPES: [QueryType; 5] = [
    QueryType::Record(RecordType::A),
    QueryType::Record(RecordType::NS),
    QueryType::Record(RecordType::CNAME),
    QueryType::Record(RecordType::TXT),
    QueryType::Wildcard,
];
const EXTRA_QTYPES: [QueryType; 6] = [
    QueryType::Record(RecordType::MX),
    QueryType::Record(RecordType::SOA),
    QueryType::Record(RecordType::AAAA),
    QueryType::AXFR,
    QueryType::MAILA,
    QueryType::MAILB,
];

/// (name, ask the extra qtypes too?)
fn questions(apex: &DomainName, depth: usize) -> Vec<(DomainName, bool)> {
    let names = node_names(apex, depth);
    let mut set: BTreeSet<DomainName> = BTreeSet::new();
    let mut full: BTreeSet<DomainName> = BTreeSet::new();
    for (i, n) in names.iter().enumerate() {
        set.insert(n.clone());
        full.insert(n.clone());
        let mut firsts: Vec<&[u8]> = vec![b"s", b"x", b"*"];
        if i < PATH_LABELS.len() {
            firsts.push(PATH_LABELS[i]);
        }
        for f in firsts {
            let n1 = prepend(f, n);
            set.insert(n1.clone());
            if f == b"*" {
                continue; // `*` only as the leftmost label
            }
            for g in [&b"x"[..], &b"s"[..], &b"*"[..]] {
                let n2 = prepend(g, &n1);
                set.insert(n2.clone());
                if g != b"*" && f == b"x" {
                    set.insert(prepend(b"x", &n2));
                }
            }
        }
    }
    // one missing name with all qtypes
    full.insert(prepend(b"x", apex));
    set.into_iter().map(|n| (full.contains(&n), n)).map(|(f, n)| (n, f)).collect()
}

#[derive(Default)]
struct Acc {
    zones: u64,
    skipped: u64,
    lookups: u64,
    hist: BTreeMap<String, u64>,
    nontrivial: u64,
    samples: Vec<Value>,
}

fn classify(zone: &FlatZone, all: &[FlatRec], q: &DomainName, r: &RefResult) -> &'static str {
    match r {
        RefResult::Delegation(_) => "referral",
        RefResult::Cname(rr) => {
            if all.iter().any(|x| !x.wildcard && x.owner == *q && x.data == rr.rtype_with_data) {
                "cname"
            } else {
                "wildcard-cname"
            }
        }
        RefResult::NameError => "name-error",
        RefResult::Answer(rrs) => {
            let direct = *q == zone.apex || all.iter().any(|x| x.owner.is_subdomain_of(q));
            if direct {
                if rrs.is_empty() {
                    if all.iter().any(|x| !x.wildcard && x.owner == *q) {
                        "nodata"
                    } else {
                        "nodata-ent-or-apex"
                    }
                } else {
                    "answer"
                }
            } else if rrs.is_empty() {
                "wildcard-nodata"
            } else {
                "wildcard-answer"
            }
        }
    }
}

fn describe_zone(z: &FlatZone) -> Value {
    json!({
        "apex": show_name(&z.apex),
        "soa_minimum": z.soa.as_ref().map(|s| s.minimum),
        "records": z.recs.iter().map(|r| format!("{}{} {} {}", if r.wildcard {"*."} else {""}, show_name(&r.owner), r.ttl, show_data(&r.data))).collect::<Vec<_>>(),
    })
}

fn zone_to_replay(z: &FlatZone, q: &DomainName, qtype: QueryType) -> Value {
    json!({
        "kind": "zone-lookup",
        "apex": z.apex.to_dotted_string(),
        "soa_minimum": z.soa.as_ref().map(|s| s.minimum),
        "records": z.recs.iter().map(|r| json!({
            "owner": hex(&wire_name(&r.owner)),
            "owner_text": show_name(&r.owner),
            "wildcard": r.wildcard,
            "ttl": r.ttl,
            "data": show_data(&r.data),
            "rr_wire": hex(&crate::refwire::encode_rdata_with_type(&r.data)),
        })).collect::<Vec<_>>(),
        "qname": hex(&wire_name(q)),
        "qname_text": show_name(q),
        "qtype": u16::from(qtype),
    })
}

pub fn wire_name(n: &DomainName) -> Vec<u8> {
    let mut v = Vec::new();
    for l in &n.labels {
        v.push(l.len());
        v.extend_from_slice(l.octets());
    }
    v
}

pub fn name_from_wire(b: &[u8]) -> DomainName {
    let mut labels = Vec::new();
    let mut i = 0;
    loop {
        let n = b[i] as usize;
        i += 1;
        labels.push(label(&b[i..i + n]));
        i += n;
        if n == 0 {
            break;
        }
    }
    DomainName::from_labels(labels).expect("replay name")
}

fn check_one(
    acc: &mut Acc,
    sink: &Sink,
    flat: &FlatZone,
    zone: &Zone,
    all: &[FlatRec],
    q: &DomainName,
    qtype: QueryType,
) {
    acc.lookups += 1;
    let want = flat.resolve_with(all, q, qtype);
    let got = std::panic::catch_unwind(std::panic::AssertUnwindSafe(|| zone.resolve(q, qtype)));
    let got = match got {
        Ok(g) => g,
        Err(_) => {
            sink.push(Violation {
                clause: "panic".into(),
                summary: format!("Zone::resolve panicked for {} {}", show_name(q), qtype),
                replay: zone_to_replay(flat, q, qtype),
                slug: None,
            });
            return;
        }
    };
    match (&got, &want) {
        (None, None) => {
            *acc.hist.entry("outside-apex".into()).or_insert(0) += 1;
        }
        (Some(g), Some(w)) => {
            let class = classify(flat, all, q, w);
            *acc.hist.entry(class.into()).or_insert(0) += 1;
            if class != "answer" && class != "name-error" {
                acc.nontrivial += 1;
            }
            if !same_result(g, w) {
                let apex_ns = all.iter().any(|r| {
                    !r.wildcard && r.owner == flat.apex && r.data.rtype() == RecordType::NS
                });
                let imp_is_apex_referral = matches!(g, dns_types::zones::types::ZoneResult::Delegation { ns_rrs } if ns_rrs.iter().all(|r| r.name == flat.apex));
                let clause = if apex_ns && imp_is_apex_referral {
                    "apex-ns-treated-as-delegation"
                } else {
                    match w {
                        RefResult::Delegation(_) => "referral",
                        RefResult::Cname(_) => "cname",
                        RefResult::NameError => "name-error",
                        RefResult::Answer(_) => {
                            if class.starts_with("wildcard") {
                                "wildcard-synthesis"
                            } else {
                                "answer"
                            }
                        }
                    }
                };
                sink.push(Violation {
                    clause: clause.into(),
                    summary: format!(
                        "zone {} : {} {} -> impl {} but reference {}",
                        describe_zone(flat),
                        show_name(q),
                        qtype,
                        show_zone_result(g),
                        show_ref(w)
                    ),
                    replay: zone_to_replay(flat, q, qtype),
                    slug: None,
                });
            } else if acc.samples.len() < 3 && acc.lookups % 9973 == 1 {
                acc.samples.push(json!({
                    "zone": describe_zone(flat),
                    "question": format!("{} {}", show_name(q), qtype),
                    "result": show_ref(w),
                }));
            }
        }
        _ => {
            sink.push(Violation {
                clause: "apex-membership".into(),
                summary: format!(
                    "zone {} : {} {} -> impl {:?} reference {:?}",
                    describe_zone(flat),
                    show_name(q),
                    qtype,
                    got.as_ref().map(show_zone_result),
                    want.as_ref().map(show_ref)
                ),
                replay: zone_to_replay(flat, q, qtype),
                slug: None,
            });
        }
    }
}

fn check_zone(acc: &mut Acc, sink: &Sink, frame: &Frame, nodes: &[NodeCfg], qs: &[(DomainName, bool)]) {
    let flat = build_flat(frame, nodes);
    let zone = flat.build();
    let all = flat.all();
    acc.zones += 1;
    for (q, full) in qs {
        for qt in CORE_QTYPES {
            check_one(acc, sink, &flat, &zone, &all, q, qt);
        }
        if *full {
            for qt in EXTRA_QTYPES {
                check_one(acc, sink, &flat, &zone, &all, q, qt);
            }
        }
    }
    // a name outside the apex must not be answered by this zone
    if !flat.apex.is_root() {
        let outside = dn("a.outside.");
        check_one(acc, sink, &flat, &zone, &all, &outside, CORE_QTYPES[0]);
    }
    // the same through `Zones` (single zone): must agree with Zone::resolve
    if acc.zones % 64 == 0 {
        let mut zs = Zones::new();
        zs.insert(zone.clone());
        for (q, _) in qs.iter().take(8) {
            let a1 = zone.resolve(q, CORE_QTYPES[0]);
            let a2 = zs.resolve(q, CORE_QTYPES[0]).map(|(_, r)| r);
            if a1 != a2 {
                sink.push(Violation {
                    clause: "zones-vs-zone".into(),
                    summary: format!("Zones::resolve differs from Zone::resolve for {}", show_name(q)),
                    replay: zone_to_replay(&flat, q, CORE_QTYPES[0]),
                    slug: None,
                });
            }
        }
    }
}

pub fn run(ctx: &Ctx) -> i32 {
    let scope = match ctx.tier {
        Tier::Quick => Scope {
            max_depth: 2,
            n_wild: 3,
            frames: FRAMES_QUICK.to_vec(),
            sibling_at_last: false,
        },
        Tier::Thorough => Scope {
            max_depth: 3,
            n_wild: 5,
            frames: FRAMES_ALL.to_vec(),
            sibling_at_last: true,
        },
    };
    let sink = Sink::new(25);
    let mut report = Report::new();
    let mut total = Acc::default();
    let mut exhaustive = true;

    for depth in 0..=scope.max_depth {
        // at the deepest level of the thorough tier restrict the frames
        let frames: Vec<Frame> = if ctx.tier == Tier::Thorough && depth == 3 {
            scope.frames[..2].to_vec()
        } else {
            scope.frames.clone()
        };
        // at thorough depth 3 use 3 wildcard kinds to keep the space tractable
        let eff_scope = Scope {
            max_depth: scope.max_depth,
            n_wild: if ctx.tier == Tier::Thorough && depth == 3 { 3 } else { scope.n_wild },
            frames: frames.clone(),
            sibling_at_last: scope.sibling_at_last && depth < 3,
        };
        let n_struct = count_for_depth(&eff_scope, depth);
        let qsets: Vec<Vec<(DomainName, bool)>> = frames
            .iter()
            .map(|f| questions(&dn(f.apex), depth))
            .collect();
        let n = n_struct * frames.len();
        let parts = par_fold(
            n,
            ctx.threads,
            ctx.seed,
            Acc::default,
            |acc, i| {
                let fi = i % frames.len();
                let si = i / frames.len();
                match decode(&eff_scope, depth, si) {
                    Some(nodes) => check_zone(acc, &sink, &frames[fi], &nodes, &qsets[fi]),
                    None => acc.skipped += 1,
                }
            },
        );
        for p in parts {
            total.zones += p.zones;
            total.skipped += p.skipped;
            total.lookups += p.lookups;
            total.nontrivial += p.nontrivial;
            for (k, v) in p.hist {
                *total.hist.entry(k).or_insert(0) += v;
            }
            for s in p.samples {
                if total.samples.len() < 6 {
                    total.samples.push(s);
                }
            }
        }
        if ctx.elapsed() > ctx.tier.pick(120.0, 1500.0) {
            exhaustive = depth == scope.max_depth;
            if !exhaustive {
                report.extra.insert("cap_hit_after_depth".into(), json!(depth));
            }
            break;
        }
    }

    report.evaluations = total.lookups;
    report.states = total.zones;
    report.transitions = total.lookups;
    report.traces_validated = total.lookups;
    report.distinct_nontrivial = total.nontrivial;
    report.rule = "every zone of the path-shaped scope (apex x SOA x per-node kind x per-node wildcard set x sibling) built through Zone::new/insert/insert_wildcard, every question name (path prefixes, +1/+2 labels from {next,s,x,*}) x qtypes; a lookup is non-trivial when the reference outcome is anything but a plain answer or a plain name error (referral, CNAME, wildcard synthesis, NODATA, ENT, outside-apex); zones and questions are distinct by construction (mixed-radix index)".into();
    report.samples = total.samples;
    report.bounds = json!({
        "max_depth": scope.max_depth,
        "wildcard_kinds": scope.n_wild,
        "frames": scope.frames.iter().map(|f| format!("{} soa_min={:?} mixed_ttl={}", f.apex, f.soa_min, f.mixed_ttl)).collect::<Vec<_>>(),
        "structural_indices_skipped_as_outside_claim_or_redundant": total.skipped,
    });
    report.exhaustive = exhaustive;
    report.outcome_histogram = total.hist;
    report.assumptions = vec![
        "D1: zones with data at or beneath a non-apex NS node are not built".into(),
        "D4: no NS in wildcard sets; no two CNAMEs or NS+CNAME at one node".into(),
        "`*` only appears as the leftmost label of a question name".into(),
    ];
    report.violations = sink.take();
    report.extra.insert("violation_counts".into(), json!(sink.counts()));
    finish(ctx, report)
}

pub fn replay(ctx: &Ctx, v: &Value) -> i32 {
    let apex = dn(v["apex"].as_str().unwrap_or("."));
    let soa = v["soa_minimum"].as_u64().map(|m| SOA {
        mname: dn("mname.z."),
        rname: dn("rname.z."),
        serial: 7,
        refresh: 2,
        retry: 3,
        expire: 4,
        minimum: m as u32,
    });
    let mut recs = Vec::new();
    for r in v["records"].as_array().cloned().unwrap_or_default() {
        let owner = name_from_wire(&unhex(r["owner"].as_str().unwrap_or("00")));
        let data = crate::refwire::decode_rdata_with_type(&unhex(r["rr_wire"].as_str().unwrap_or("")))
            .expect("replay rdata");
        recs.push(FlatRec {
            owner,
            wildcard: r["wildcard"].as_bool().unwrap_or(false),
            data,
            ttl: r["ttl"].as_u64().unwrap_or(0) as u32,
        });
    }
    let flat = FlatZone { apex, soa, recs };
    let q = name_from_wire(&unhex(v["qname"].as_str().unwrap_or("00")));
    let qtype = QueryType::from(v["qtype"].as_u64().unwrap_or(1) as u16);
    let zone = flat.build();
    let got = zone.resolve(&q, qtype);
    let want = flat.resolve(&q, qtype);
    println!("zone: {}", describe_zone(&flat));
    println!("question: {} {}", show_name(&q), qtype);
    println!("implementation: {:?}", got.as_ref().map(show_zone_result));
    println!("reference:      {:?}", want.as_ref().map(show_ref));
    let ok = match (&got, &want) {
        (None, None) => true,
        (Some(g), Some(w)) => same_result(g, w),
        _ => false,
    };
    if ok {
        println!("replay: property holds on this case");
        0
    } else {
        println!("VIOLATION property={} replay=(replayed case)", ctx.id);
        1
    }
}

pub fn worker(_args: &[String]) -> i32 {
    2
}
