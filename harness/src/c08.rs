//! C08 — every resolution terminates in bounded time whatever upstream
//! servers do.  E-NET with a fault alphabet assigned to exchange positions
//! (deviation bound 1 quick / 2 thorough), all candidate orders.

use crate::c07::{base_spec, params_from_json, step_from_json, step_to_json};
use crate::common::*;
use crate::net::*;
use crate::procpar::{self, JsonAcc};
use crate::ugen::*;
use crate::util::*;
use dns_resolver::util::types::{ProtocolMode, ResolutionError};
use dns_types::protocol::types::*;
use serde_json::{json, Value};
use std::collections::BTreeSet;
use std::net::{IpAddr, Ipv4Addr, SocketAddr};
use std::sync::Arc;

pub fn fault_alphabet() -> Vec<Fault> {
    vec![
        Fault::Honest,
        Fault::Silent,
        Fault::IoError,
        Fault::Delay(4900),
        Fault::Delay(5100),
        Fault::Delay(9900),
        Fault::Delay(70000),
        Fault::Garbage,
        Fault::Truncate(2),
        Fault::Truncate(4),
        Fault::Truncate(6),
        Fault::Truncate(7),
        Fault::WrongId,
        Fault::Qr0,
        Fault::Tc,
        Fault::Rcode(1),
        Fault::Rcode(2),
        Fault::Rcode(4),
        Fault::Rcode(5),
        Fault::AlterQuestion,
        Fault::Empty,
        Fault::ReferralSame,
        Fault::ReferralUp,
        Fault::ReferralUnresolvable,
        Fault::CnameSelf,
        Fault::CnameCycle2,
        Fault::CnameLoopStray(1),
        Fault::CnameLoopStray(2),
        Fault::CnameLoopStray(3),
        Fault::NxForeignSoa,
    ]
}

#[derive(Clone)]
struct Scenario {
    name: String,
    params: Option<GenParams>,
    universe: Arc<Universe>,
    mode: Mode,
    protocol: ProtocolMode,
    questions: Vec<Question>,
    bound: usize,
    window: usize,
    /// ask the question twice over one cache: what a faulty first
    /// resolution leaves in the cache is met by the second one
    twice: bool,
    /// the question is asked through an alias held by a local authoritative zone
    /// (`alias.k. CNAME <question name>`): the upstream work then starts from inside
    /// local resolution
    via_local_alias: bool,
}

fn scenarios(tier: Tier) -> Vec<Scenario> {
    let mut out = Vec::new();
    let mut add = |p: GenParams, mode: Mode, protocol: ProtocolMode, bound: usize, nq: usize| {
        let u = Arc::new(build(&p));
        let leaf = level_apex(p.depth);
        let mut qs = vec![
            question(&prepend(b"www", &leaf), qt(RecordType::A)),
            question(&prepend(b"chain", &leaf), qt(RecordType::A)),
            question(&prepend(b"missing", &leaf), qt(RecordType::TXT)),
            question(&prepend(b"dangling", &leaf), qt(RecordType::A)),
            question(&prepend(b"ext", &leaf), qt(RecordType::MX)),
        ];
        qs.truncate(nq);
        out.push(Scenario {
            name: format!("{} mode={:?} protocol={}", p.describe(), mode, protocol),
            params: Some(p),
            universe: u,
            mode,
            protocol,
            questions: qs,
            bound,
            window: 24,
            twice: false,
            via_local_alias: false,
        });
    };
    let fwd = SocketAddr::new(IpAddr::V4(Ipv4Addr::new(10, 9, 9, 9)), 53);
    let b = tier.pick(1, 2);
    // glueless nameservers -> nested resolutions, many exchanges
    let mut p1 = GenParams::simple(2, NsStyle::Sibling, 1);
    p1.send_additional = true;
    add(p1.clone(), Mode::Recursive, ProtocolMode::OnlyV4, b, tier.pick(3, 5));
    let mut p2 = GenParams::simple(2, NsStyle::InZoneGlue, 2);
    p2.styles = vec![NsStyle::InParent, NsStyle::InZoneGlue];
    add(p2.clone(), Mode::Recursive, ProtocolMode::OnlyV4, b, tier.pick(2, 5));
    let p3 = GenParams::simple(1, NsStyle::InZoneGlue, 1);
    add(p3.clone(), Mode::Recursive, ProtocolMode::OnlyV4, tier.pick(2, 3), tier.pick(2, 5));
    add(p3.clone(), Mode::Forwarding(fwd), ProtocolMode::OnlyV4, tier.pick(2, 3), tier.pick(3, 5));
    // all four protocol modes on a dual-stack universe
    let mut p4 = GenParams::simple(2, NsStyle::InParent, 1);
    p4.families = vec![Family::Dual; 4];
    for pm in [
        ProtocolMode::OnlyV4,
        ProtocolMode::PreferV4,
        ProtocolMode::PreferV6,
        ProtocolMode::OnlyV6,
    ] {
        add(p4.clone(), Mode::Recursive, pm, 1, tier.pick(1, 3));
    }
    if tier == Tier::Thorough {
        let mut p5 = GenParams::simple(3, NsStyle::Sibling, 1);
        p5.styles = vec![NsStyle::InZoneGlue, NsStyle::Sibling, NsStyle::InParent];
        p5.chase_in_reply = true;
        add(p5, Mode::Recursive, ProtocolMode::OnlyV4, 2, 4);
        let p6 = GenParams::simple(2, NsStyle::Sibling, 2);
        add(p6, Mode::Recursive, ProtocolMode::OnlyV4, 2, 2);
        add(p1, Mode::Forwarding(fwd), ProtocolMode::OnlyV4, 2, 5);
        let mut p7 = GenParams::simple(4, NsStyle::InParent, 1);
        p7.styles = vec![NsStyle::Sibling, NsStyle::InParent, NsStyle::Sibling, NsStyle::InZoneGlue];
        add(p7, Mode::Recursive, ProtocolMode::OnlyV4, 1, 3);
    }
    // the 60 s cap: glueless nameservers whose zone is served by a silent host
    for n in tier.pick(vec![7usize], vec![3, 6, 7, 9]) {
        let (u, q) = dead_universe(n);
        out.push(Scenario {
            name: u.description.clone(),
            params: None,
            universe: Arc::new(u),
            mode: Mode::Recursive,
            protocol: ProtocolMode::OnlyV4,
            questions: vec![q],
            bound: tier.pick(0, 1),
            window: 6,
            twice: false,
            via_local_alias: false,
        });
    }
    // every scenario once more with its question asked twice
    let again: Vec<Scenario> = out
        .iter()
        .filter(|s| s.params.is_some())
        .map(|s| {
            let mut t = s.clone();
            t.twice = true;
            t.name = format!("{} (asked twice)", s.name);
            t.window = 12;
            t
        })
        .collect();
    out.extend(again);
    // the time bounds when the upstream work starts behind a locally held alias
    let behind_alias: Vec<Scenario> = out
        .iter()
        .filter(|s| !s.twice && matches!(s.mode, Mode::Recursive) && (s.params.is_none() || s.name.contains("styles=[Sibling, Sibling]")))
        .map(|s| {
            let mut t = s.clone();
            t.via_local_alias = true;
            t.name = format!("{} (asked through a local alias)", s.name);
            t
        })
        .collect();
    out.extend(behind_alias);
    out
}

/// (server address, index into the fault alphabet) for every server of the
/// scenario and every fault: a server that misbehaves the same way on every
/// exchange.  Index 0 of the returned list means "no such server".
fn sticky_list(sc: &Scenario) -> Vec<Option<(IpAddr, usize)>> {
    let mut v = vec![None];
    let mut addrs: Vec<IpAddr> = sc.universe.serving.keys().copied().collect();
    if let Some(f) = sc.universe.forwarder {
        addrs.push(f);
    }
    let n = fault_alphabet().len();
    for a in addrs {
        for f in 1..n {
            v.push(Some((a, f)));
        }
    }
    v
}

fn replay_json(sc: &Scenario, si: usize, q: &Question, sticky: Option<(IpAddr, usize)>, choices: &[usize]) -> Value {
    json!({
        "kind": "net-fault",
        "sticky": sticky.map(|(a, f)| json!({"addr": a.to_string(), "fault_index": f, "fault": show_fault(&fault_alphabet()[f])})),
        "scenario": si,
        "scenario_name": sc.name,
        "tier_of_scenario_table": "see `tier`",
        "question": {"name": q.name.to_dotted_string(), "qtype": u16::from(q.qtype)},
        "choices": choices,
    })
}

fn spec_for(sc: &Scenario, q: &Question, sticky: Option<(IpAddr, usize)>) -> RunSpec {
    let steps = if sc.twice {
        vec![Step::Ask(q.clone()), Step::Ask(q.clone())]
    } else {
        vec![Step::Ask(q.clone())]
    };
    let steps = if sc.via_local_alias {
        let alias = question(&dn("alias.k."), q.qtype);
        steps.iter().map(|_| Step::Ask(alias.clone())).collect()
    } else {
        steps
    };
    let mut spec = base_spec(sc.universe.clone(), steps);
    if sc.via_local_alias {
        let apex = dn("k.");
        let mut z = dns_types::zones::types::Zone::new(
            apex.clone(),
            Some(dns_types::zones::types::SOA {
                mname: dn("mname.k."),
                rname: dn("hostmaster.k."),
                serial: 1,
                refresh: 2,
                retry: 3,
                expire: 4,
                minimum: 60,
            }),
        );
        z.insert(&dn("alias.k."), cname(&q.name), 300);
        spec.zones.insert(z);
    }
    if let Some((a, f)) = sticky {
        spec.sticky = vec![(a, fault_alphabet()[f].clone())];
    }
    spec.mode = sc.mode.clone();
    spec.protocol_mode = sc.protocol;
    spec.faults = fault_alphabet();
    spec.fault_window = sc.window;
    spec
}

const NS_PER_MS: u64 = 1_000_000;

/// The oracle for one execution; pushes findings.
fn judge(sc: &Scenario, res: &RunResult) -> Vec<(&'static str, String)> {
    let mut out = Vec::new();
    let mut supplied: BTreeSet<(DomainName, RecordTypeWithData)> = BTreeSet::new();
    for (name, addrs) in &sc.universe.hints {
        supplied.insert((DomainName::root_domain(), ns(name)));
        for a in addrs {
            supplied.insert((
                name.clone(),
                match a {
                    IpAddr::V4(v) => RecordTypeWithData::A { address: *v },
                    IpAddr::V6(v) => RecordTypeWithData::AAAA { address: *v },
                },
            ));
        }
    }
    for e in &res.log {
        for r in &e.sent {
            supplied.insert(nottl(r));
        }
        match e.end_ns {
            None => out.push((
                "exchange-never-ended",
                format!("exchange #{} was still open when the resolution returned", e.index),
            )),
            Some(end) => {
                let dur = end - e.start_ns;
                if dur > 5000 * NS_PER_MS + NS_PER_MS {
                    out.push((
                        "exchange-over-5s",
                        format!(
                            "exchange #{} ({:?} to {}) lasted {} ms",
                            e.index,
                            e.proto,
                            e.addr,
                            dur / NS_PER_MS
                        ),
                    ));
                }
            }
        }
    }
    for a in &res.asks {
        let dur = a.end_ns - a.start_ns;
        if dur > 60_000 * NS_PER_MS + 2 * NS_PER_MS {
            out.push((
                "resolution-over-60s",
                format!("the resolution took {} ms of virtual time", dur / NS_PER_MS),
            ));
        }
        match &a.outcome {
            Outcome::Panic(m) => out.push(("panic", format!("panicked: {m}"))),
            Outcome::Ok(r) => {
                let mut rrs = r.clone().rrs();
                if let Some(s) = r.soa_rr() {
                    rrs.push(s.clone());
                }
                for r in rrs {
                    // (the alias of the local zone, where the scenario has one, is local data)
                    if sc.via_local_alias && r.name == dn("alias.k.") {
                        continue;
                    }
                    if !supplied.contains(&nottl(&r)) {
                        out.push((
                            "fabricated-record",
                            format!(
                                "returned {} which no upstream reply and no local data supplied",
                                show_rr(&r)
                            ),
                        ));
                    }
                }
            }
            Outcome::Err(_) => {}
        }
    }
    out
}

fn run_item(tier: Tier, scs: &[Scenario], items: &[(usize, usize, Option<(IpAddr, usize)>)], i: usize, acc: &mut JsonAcc) {
    let (si, qi, sticky) = items[i];
    let sc = &scs[si];
    let q = &sc.questions[qi];
    let spec = spec_for(sc, q, sticky);
    let mut stats = ExploreStats::default();
    if acc.trace {
        let (sc2, q2) = (sc.clone(), q.clone());
        stats.pre = Some(Box::new(move |prefix: &[usize]| {
            println!("EXEC {}", replay_json(&sc2, si, &q2, sticky, prefix));
            use std::io::Write;
            let _ = std::io::stdout().flush();
        }));
    }
    let max_exec = tier.pick(40_000u64, 2_000_000u64);
    let mut visit = |res: &RunResult, choices: &[usize]| {
        if let Some(d) = &res.divergence {
            acc.violate("machinery-divergence", d.clone(), replay_json(sc, si, q, sticky, choices), None);
            return;
        }
        let findings = judge(sc, res);
        for (clause, msg) in findings {
            acc.violate(
                clause,
                format!(
                    "{} :: {} {} :: {} :: log {}",
                    sc.name,
                    show_name(&q.name),
                    q.qtype,
                    msg,
                    show_log(&res.log)
                ),
                replay_json(sc, si, q, sticky, choices),
                None,
            );
        }
        if sticky.is_some() {
            acc.count("executions_with_a_persistently_faulty_server", 1);
        }
        let faults: Vec<String> = res
            .log
            .iter()
            .filter(|e| e.fault != Fault::Honest)
            .map(|e| format!("{:?}", e.fault))
            .collect();
        if !faults.is_empty() {
            acc.count("nontrivial", 1);
        }
        let a = &res.asks[0];
        let class = match &a.outcome {
            Outcome::Ok(_) => "answered",
            Outcome::Err(ResolutionError::Timeout) => "error: timed out at 60 s",
            Outcome::Err(ResolutionError::DeadEnd { .. }) => "error: dead end",
            Outcome::Err(ResolutionError::RecursionLimit) => "error: recursion limit",
            Outcome::Err(ResolutionError::DuplicateQuestion { .. }) => "error: duplicate question",
            Outcome::Err(_) => "error: other",
            Outcome::Panic(_) => "panic",
        };
        acc.hist(class, 1);
        let secs = (a.end_ns - a.start_ns) / (1000 * NS_PER_MS);
        acc.hist(
            match secs {
                0 => "virtual duration < 1 s",
                1..=9 => "virtual duration 1-9 s",
                10..=29 => "virtual duration 10-29 s",
                30..=59 => "virtual duration 30-59 s",
                _ => "virtual duration >= 60 s",
            },
            1,
        );
        acc.states.insert(fnv64(
            format!("{}|{}|{:?}|{}", si, show_outcome(&a.outcome), faults, secs).as_bytes(),
        ));
        if faults.len() >= 1 && res.log.len() >= 4 {
            acc.sample(json!({
                "scenario": sc.name,
                "question": format!("{} {}", show_name(&q.name), q.qtype),
                "exchanges": show_log(&res.log),
                "outcome": show_outcome(&a.outcome),
                "virtual_ms": (a.end_ns - a.start_ns) / NS_PER_MS,
            }));
        }
    };
    // with a persistently faulty server the positional faults are bounded one lower
    let bound = if sticky.is_some() { sc.bound.saturating_sub(1).min(tier.pick(0, 1)) } else { sc.bound };
    explore(&spec, bound, max_exec, &mut stats, &mut visit);
    acc.count("executions", stats.executions);
    acc.count("exchanges", stats.exchanges);
    acc.count("choice_points", stats.choice_points);
    acc.count("faulted_executions", stats.faulted_executions);
    if stats.capped {
        acc.capped = true;
        acc.count("items_capped", 1);
    }
}

fn item_list(scs: &[Scenario]) -> Vec<(usize, usize, Option<(IpAddr, usize)>)> {
    let mut v = Vec::new();
    for (si, sc) in scs.iter().enumerate() {
        for qi in 0..sc.questions.len() {
            for st in sticky_list(sc) {
                v.push((si, qi, st));
            }
        }
    }
    v
}

pub fn run(ctx: &Ctx) -> i32 {
    let scs = scenarios(ctx.tier);
    let items = item_list(&scs);
    let (acc, crashes) = procpar::parent(ctx, items.len(), ctx.tier.pick(90.0, 1800.0), &[]);
    let mut report = Report::new();
    report.level = "fault_enumeration";
    report.evaluations = acc.counters.get("executions").copied().unwrap_or(0);
    report.transitions = acc.counters.get("exchanges").copied().unwrap_or(0)
        + acc.counters.get("choice_points").copied().unwrap_or(0);
    report.traces_validated = report.evaluations;
    report.distinct_nontrivial = acc.counters.get("nontrivial").copied().unwrap_or(0);
    procpar::into_report(acc, crashes, &mut report);
    crate::c08real::run_real(ctx, &mut report);
    report.rule = "every assignment of at most `bound` faults from the alphabet to the exchange positions of a resolution (choice-point DFS: position x fault, later positions re-enumerated because a fault changes what follows), all candidate orders, per scenario (universe x mode x protocol mode x question); one execution = dns_resolver::resolve run to completion on tokio's paused clock; non-trivial = executions in which at least one exchange carried a fault (measured); states = distinct (scenario, outcome, fault list, duration) observations".into();
    report.bounds = json!({
        "fault_alphabet": fault_alphabet().iter().map(show_fault).collect::<Vec<_>>(),
        "scenarios": scs.iter().map(|s| json!({"name": s.name, "deviation_bound": s.bound, "questions": s.questions.len(), "fault_window_exchanges": s.window})).collect::<Vec<_>>(),
        "max_executions_per_item": ctx.tier.pick(40_000, 2_000_000),
    });
    report.assumptions = vec![
        "time is tokio's paused clock: timers fire in virtual time, exchanges are measured from the transport call to completion or cancellation of its future".into(),
        "the process-level runner reports a child that dies or stops making progress as a violation (stack overflow, busy loop)".into(),
        "a record counts as supplied if it occurs in any upstream reply of the run as sent (decoded by the reference decoder) or in the root hints".into(),
    ];
    finish(ctx, report)
}

fn replay_inner(ctx: &Ctx, v: &Value) -> i32 {
    // scenario tables differ per tier: find the scenario by name
    let name = v["scenario_name"].as_str().unwrap_or("");
    let sc = scenarios(Tier::Thorough)
        .into_iter()
        .chain(scenarios(Tier::Quick))
        .find(|s| s.name == name);
    let sc = match sc {
        Some(s) => s,
        None => {
            eprintln!("unknown scenario {name}");
            return 2;
        }
    };
    let q = question(
        &dn(v["question"]["name"].as_str().unwrap_or(".")),
        QueryType::from(v["question"]["qtype"].as_u64().unwrap_or(1) as u16),
    );
    let choices: Vec<usize> = v["choices"]
        .as_array()
        .cloned()
        .unwrap_or_default()
        .iter()
        .filter_map(|c| c.as_u64().map(|c| c as usize))
        .collect();
    let sticky = v["sticky"]["addr"]
        .as_str()
        .and_then(|a| a.parse::<IpAddr>().ok())
        .map(|a| (a, v["sticky"]["fault_index"].as_u64().unwrap_or(1) as usize));
    let spec = spec_for(&sc, &q, sticky);
    let res = run_once(&spec, &choices);
    println!("scenario: {}", sc.name);
    println!("exchanges: {}", show_log(&res.log));
    for a in &res.asks {
        println!(
            "outcome: {} after {} ms",
            show_outcome(&a.outcome),
            (a.end_ns - a.start_ns) / NS_PER_MS
        );
    }
    let findings = judge(&sc, &res);
    for (c, m) in &findings {
        println!("  finding [{c}]: {m}");
    }
    if findings.is_empty() {
        println!("replay: property holds on this case");
        0
    } else {
        println!("VIOLATION property={} replay=(replayed case)", ctx.id);
        1
    }
}

pub fn replay(ctx: &Ctx, v: &Value) -> i32 {
    if v["kind"] == "real-transport" {
        return crate::c08real::replay(ctx, v);
    }
    procpar::replay_in_child(ctx, v)
}

pub fn worker(args: &[String]) -> i32 {
    if let Some(v) = procpar::replay_arg(args) {
        let ctx = Ctx {
            id: "C08",
            tier: Tier::Quick,
            seed: 0,
            start: std::time::Instant::now(),
            threads: 1,
        };
        return replay_inner(&ctx, &v);
    }
    let tier = if args.first().map(String::as_str) == Some("thorough") {
        Tier::Thorough
    } else {
        Tier::Quick
    };
    let scs = scenarios(tier);
    let items = item_list(&scs);
    procpar::child_main(args, move |tier, i, acc| run_item(tier, &scs, &items, i, acc))
}
